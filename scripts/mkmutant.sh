#!/usr/bin/env bash
# usage: mkmutant.sh <name> <python-snippet-file>   (helper used while authoring mutants)
# Applies a python edit script to /repo, saves the diff as mutants/<name>.diff, restores /repo.
set -u
name=$1; script=$2
cd /repo
python3 "$script" || { git checkout -- .; exit 1; }
git diff > /verif/mutants/$name.diff
git checkout -- .
test -s /verif/mutants/$name.diff || { echo "empty diff for $name"; exit 1; }
echo "wrote mutants/$name.diff"
