#!/usr/bin/env bash
# One-time setup after a fresh restore: warm the Go build cache (the first cgo
# build of go-sqlite3 takes ~50 s) and self-test. Offline; nothing under /tmp
# is kept.
set -u
. "$(dirname "${BASH_SOURCE[0]}")/env.sh"
mkdir -p "$VERIF_ROOT/mc/bin" "$VERIF_ROOT/evidence" "$VERIF_ROOT/replays"
"$VERIF_ROOT/scripts/build.sh" || exit 2
"$VERIF_ROOT/scripts/build.sh" race || exit 2
"$VERIF_ROOT/mc/bin/verifmc" list >/dev/null || exit 2
echo "setup ok"
