#!/usr/bin/env bash
# usage: seedconfirm.sh <seed-id> <worktree> <demo-file-relative> <package> <run-regex>
# Confirms a sub-agent's seeded change in its scratch worktree:
#   demo passes without the change; with the change: builds, whole suite passes (demo excluded), demo fails.
# Then copies patch + demo to /verif/seeded/<seed-id>/ and writes confirm.log.
set -u
. "$(dirname "${BASH_SOURCE[0]}")/env.sh"
id=$1; wt=$2; demo=$3; pkg=$4; rx=$5
out=$VERIF_ROOT/seeded/$id; mkdir -p "$out"
tmp=$(mktemp -d); trap 'rm -rf "$tmp"' EXIT
cp "$wt/seed.patch" "$tmp/patch.diff" || exit 2
cp "$wt/$demo" "$tmp/demo_test.go" || exit 2
cd "$wt" || exit 2
git checkout -q -- . && git clean -fdq
log=$out/confirm.log; : > "$log"
say() { echo "$@" | tee -a "$log"; }
cp "$tmp/demo_test.go" "$wt/$demo"
if go test -vet=off -count=1 -run "$rx" "$pkg" >>"$log" 2>&1; then say "1. demo WITHOUT change: PASS (ok)"; else say "1. demo WITHOUT change: FAIL (bad seed)"; exit 1; fi
rm -f "$wt/$demo"
git apply "$tmp/patch.diff" || { say "patch does not apply"; exit 1; }
if go build ./... >>"$log" 2>&1; then say "2. build WITH change: ok"; else say "2. build WITH change: FAILED"; exit 1; fi
if go test -vet=off -count=1 ./... >>"$log" 2>&1; then say "3. repository suite WITH change: PASS (ok)"; else say "3. repository suite WITH change: FAIL (bad seed)"; exit 1; fi
cp "$tmp/demo_test.go" "$wt/$demo"
if go test -vet=off -count=1 -run "$rx" "$pkg" >>"$log" 2>&1; then say "4. demo WITH change: PASS (bad seed: demo does not fail)"; exit 1; else say "4. demo WITH change: FAIL (ok)"; fi
cp "$tmp/patch.diff" "$out/patch.diff"; cp "$tmp/demo_test.go" "$out/$(basename "$demo")"
say "confirmed: $id"
