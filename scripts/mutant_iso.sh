#!/usr/bin/env bash
# usage: mutant_iso.sh <patch.diff> <property-id>...
# Like mutant.sh but fully isolated: the patch is applied in a scratch git
# worktree of /repo (removed afterwards), the harness is built against it
# through go build -overlay (every changed file of the worktree overlays its
# /repo counterpart), and evidence/replays go to a scratch VERIF_ROOT. Neither
# /repo nor /verif/evidence is touched, so several can run in parallel.
set -u
. "$(dirname "${BASH_SOURCE[0]}")/env.sh"
patch=$(readlink -f "$1"); shift
name=$(basename "$(dirname "$patch")")/$(basename "$patch")
wt=$(mktemp -d /tmp/mw.XXXXXX); root=$(mktemp -d /tmp/mr.XXXXXX)
cleanup() { git -C /repo worktree remove --force "$wt" >/dev/null 2>&1; rm -rf "$wt" "$root"; }
trap cleanup EXIT
rmdir "$wt"; git -C /repo worktree add -q --detach "$wt" HEAD || exit 2
cd "$wt" || exit 2
git apply "$patch" || { echo "mutant $name: patch does not apply"; exit 2; }
suite=PASS
go build ./... >/dev/null 2>&1 || suite=BUILD-FAIL
if [ $suite = PASS ]; then go test -vet=off -count=1 ./... >"$root/suite.log" 2>&1 || suite=FAIL; fi
echo "mutant $name: repository suite: $suite"
# In a sweep only changes that the repository's own suite accepts are of interest.
if [ "${MUTANT_REQUIRE_SUITE:-0}" = 1 ] && [ "$suite" != PASS ]; then exit 3; fi
# overlay: standard overlay computed from the worktree + every changed/added file
OV=$(VERIF_REPO="$wt" VERIF_OVERLAY_OUT="$root/ov" python3 "$VERIF_ROOT/scripts/mkoverlay.py") || exit 2
python3 - "$OV" "$wt" <<'PY'
import json, subprocess, sys, os
ov, wt = sys.argv[1], sys.argv[2]
d = json.load(open(ov))
files = subprocess.run(["git", "-C", wt, "status", "--porcelain"], capture_output=True, text=True).stdout.splitlines()
for l in files:
    f = l[3:].strip()
    if f.endswith(".go") or f.endswith(".yaml"):
        src = os.path.join(wt, f); dst = os.path.join("/repo", f)
        if os.path.isfile(src) and dst not in d["Replace"] and src not in d["Replace"]:
            d["Replace"][dst] = src
# overlay keys computed for the worktree must point at /repo (the module the harness builds against)
fixed = {}
for k, v in d["Replace"].items():
    fixed[k.replace(wt, "/repo", 1) if k.startswith(wt) else k] = v
d["Replace"] = fixed
json.dump(d, open(ov, "w"), indent=1)
PY
mkdir -p "$root/evidence" "$root/replays" "$root/bin"
cp "$VERIF_ROOT/known_findings.json" "$root/" 2>/dev/null
rc=0
if ! (cd "$VERIF_ROOT/mc" && go build -overlay "$OV" -o "$root/bin/verifmc" ./cmd/verifmc) 2>"$root/build.err"; then
  echo "  BUILD-FAILED (harness against mutant)"; head -5 "$root/build.err" | sed 's/^/      /'; exit 2
fi
if ! (cd "$VERIF_ROOT/mc" && go build -overlay "$OV" -o "$root/bin/omniwitness" github.com/transparency-dev/witness/cmd/omniwitness) 2>"$root/build.err"; then
  echo "  BUILD-FAILED (binary of the mutant)"; head -5 "$root/build.err" | sed 's/^/      /'; exit 2
fi
if ! (cd "$VERIF_ROOT/mc" && go build -overlay "$OV" -o "$root/bin/feedbastion" github.com/transparency-dev/witness/cmd/feedbastion) 2>"$root/build.err"; then
  echo "  BUILD-FAILED (feedbastion of the mutant)"; head -5 "$root/build.err" | sed 's/^/      /'; exit 2
fi
for id in "$@"; do
  if [ "$id" = "C05" ]; then (cd "$VERIF_ROOT/mc" && go build -race -overlay "$OV" -o "$root/bin/verifmc-race" ./cmd/verifmc) 2>/dev/null; fi
  out=$(VERIF_ROOT="$root" VERIF_REPO="$wt" VERIF_SCRATCH="$root" timeout --signal=KILL ${MUTANT_CAP:-1500} "$root/bin/verifmc" check "$id" "${MUTANT_TIER:-quick}" 2>&1); code=$?
  if [ $code -eq 1 ] && echo "$out" | grep -q "^VIOLATION property=$id"; then
    echo "  $id: DETECTED ($(echo "$out" | grep -A1 '^VIOLATION' | grep signature | head -1 | sed 's/^ *//' | cut -c1-200))"
  else
    echo "  $id: MISSED (exit $code)"; echo "$out" | tail -2 | cut -c1-200 | sed 's/^/      /'; rc=1
  fi
done
exit $rc
