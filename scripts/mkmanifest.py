#!/usr/bin/env python3
"""Regenerate MANIFEST.json from the table below (keeps it valid at all times)."""
import json, os
V = os.path.dirname(os.path.dirname(os.path.abspath(__file__)))
BASE = "cd /repo && go test -vet=off -count=1 ./..."

# id: (category, technique, text, note, design_ref, has_thorough)
CHECKS = {}
NA = {}

def chk(i, cat, tech, text, note, ref, thorough=True):
    CHECKS[i] = (cat, tech, text, note, ref, thorough)

exec(open(os.path.join(V, "scripts", "manifest_table.py")).read())

props = [json.loads(l)["id"] for l in open(os.path.join(V, "properties.jsonl"))]
checks = []
for i in props:
    if i in CHECKS:
        cat, tech, text, note, ref, th = CHECKS[i]
        c = {
            "property_id": i,
            "quick_cmd": "scripts/check.sh %s quick" % i,
            "evidence_file": "evidence/%s.json" % i,
            "replay_cmd_template": "scripts/check.sh replay {path}",
            "engine": "verifmc",
            "level_claimed": {"category": cat, "text": text, "design_ref": ref},
            "level_note": note,
            "technique": tech,
        }
        if th:
            c["thorough_cmd"] = "scripts/check.sh %s thorough" % i
        checks.append(c)
na = [{"property_id": i, "reason": NA.get(i, "check not built yet; planned in DESIGN.md §5")} for i in props if i not in CHECKS]
m = {
    "version": 1,
    "setup_cmd": "scripts/setup.sh",
    "hooks": {
        "guard": "none",
        "enable": "no source hooks: instrumentation is injected at build time with `go build -overlay` (scripts/mkoverlay.py regenerates the overlay from /repo's current working tree on every check) and by wrapping the LogStatePersistence / database/sql driver interfaces in the harness",
        "baseline_off_cmd": BASE,
        "source_commits": [],
        "add_only": True,
    },
    "engines": [
        {"name": "verifmc", "path": "mc", "serves_properties": sorted(CHECKS), "kind_free_text": "hand-written Go explorers (explicit-state BFS over the real Witness; controlled scheduler with preemption-bounded DFS; crash-point and fault-placement enumeration; bounded-exhaustive input enumeration) bound to /repo by a replace directive and go build -overlay"},
    ],
    "checks": checks,
    "not_applicable": na,
    "notes": "All checks rebuild the harness from /repo's working tree (scripts/build.sh) before running. Exit 0 held, 1 VIOLATION, 2 internal/build error. Known findings: known_findings.json.",
}
json.dump(m, open(os.path.join(V, "MANIFEST.json"), "w"), indent=1)
print("claimed:", sorted(CHECKS), "not claimed:", [x["property_id"] for x in na])
