#!/usr/bin/env bash
# Runs the whole catalogue (mutants/MAP.txt) with the isolated runner, 3 at a
# time; patches touching .yaml files go through mutant.sh (go:embed ignores
# build overlays) sequentially at the end. Output: mutants/RESULTS.txt
cd "$(dirname "${BASH_SOURCE[0]}")/.." || exit 2
# The catalogue takes more than an hour: it runs from a snapshot of the harness
# (scripts + mc sources), so that /verif can be edited meanwhile.
out=$(pwd)/mutants/RESULTS.txt; tmp=$(mktemp -d); snap=$(mktemp -d /tmp/vsnap.XXXXXX); trap 'rm -rf $tmp $snap' EXIT
rsync -a --exclude .git --exclude mc/bin --exclude mc/.overlay --exclude evidence --exclude replays ./ "$snap/"
verifhead=$(git log --format=%h -1)
cd "$snap" || exit 2
export VERIF_ROOT="$snap"
grep -v '^#' mutants/MAP.txt | grep -v '^$' > $tmp/all
: > $tmp/iso; : > $tmp/inplace
while read -r p props; do
  [ -f "$p" ] || { echo "missing $p"; continue; }
  if grep -q '^+++ .*\.yaml' "$p"; then echo "$p $props" >> $tmp/inplace; else echo "$p $props" >> $tmp/iso; fi
done < $tmp/all
i=0
while read -r p props; do
  i=$((i+1)); ( scripts/mutant_iso.sh $p $props > $tmp/r.$i 2>&1 ) &
  while [ $(jobs -r | wc -l) -ge ${MUTANT_PAR:-3} ]; do sleep 1; done
done < $tmp/iso
wait
# In-place entries modify /repo for a moment: only when asked for (nothing else may build meanwhile).
if [ "${MUTANT_INPLACE:-0}" = 1 ]; then
  while read -r p props; do i=$((i+1)); scripts/mutant.sh $p $props > $tmp/r.$i 2>&1; done < $tmp/inplace
else
  while read -r p props; do i=$((i+1)); echo "mutant $p: skipped (touches .yaml: run with MUTANT_INPLACE=1)" > $tmp/r.$i; done < $tmp/inplace
fi
{ echo "# $(date -u +%FT%TZ) repo=$(git -C /repo log --format=%h -1) verif=$verifhead"; cat $tmp/r.* | cut -c1-260; } > $out
grep -c DETECTED $out; grep -c "MISSED\|BUILD-FAILED\|does not apply\|suite: FAIL\|suite: BUILD" $out
