#!/usr/bin/env bash
# Rebuild the harness against /repo's current working tree (overlay regenerated
# from the current files). Prints nothing on success. Exit 2 = build failure
# (neither a pass nor a violation).
set -u
. "$(dirname "${BASH_SOURCE[0]}")/env.sh"
cd "$VERIF_ROOT/mc" || exit 2
# go.sum follows the repository (dependency bumps).
if ! cmp -s /repo/go.sum .repo.go.sum 2>/dev/null; then
  cat /repo/go.sum go.sum.extra 2>/dev/null | sort -u > go.sum
  cp /repo/go.sum .repo.go.sum
fi
OV=$(python3 "$VERIF_ROOT/scripts/mkoverlay.py") || { echo "BUILD-FAILED: overlay"; exit 2; }
RACE=""
OUT=bin/verifmc
if [ "${1:-}" = "race" ]; then RACE="-race"; OUT=bin/verifmc-race; fi
(
  flock 9
  if ! go build $RACE -overlay "$OV" -o "$OUT" ./cmd/verifmc 2> bin/build.err; then
    echo "BUILD-FAILED:"; cat bin/build.err; exit 2
  fi
  # The real binary (C06 binary tier), built from the same tree and overlay.
  if [ -z "$RACE" ] && ! go build -overlay "$OV" -o bin/omniwitness github.com/transparency-dev/witness/cmd/omniwitness 2> bin/build.err; then
    echo "BUILD-FAILED:"; cat bin/build.err; exit 2
  fi
  # ... and the repository's own writer of add-checkpoint bodies (C11).
  if [ -z "$RACE" ] && ! go build -overlay "$OV" -o bin/feedbastion github.com/transparency-dev/witness/cmd/feedbastion 2> bin/build.err; then
    echo "BUILD-FAILED:"; cat bin/build.err; exit 2
  fi
) 9> bin/.lock
