#!/usr/bin/env bash
# usage: check.sh <property-id> <quick|thorough>   |   check.sh replay <file>
# exit 0 held / exit 1 VIOLATION / exit 2 internal or build error
set -u
. "$(dirname "${BASH_SOURCE[0]}")/env.sh"
mkdir -p "$VERIF_ROOT/mc/bin"
"$VERIF_ROOT/scripts/build.sh" || exit 2
# C05 also uses the -race build for its supplementary free-running pass.
if [ "$1" = "C05" ]; then "$VERIF_ROOT/scripts/build.sh" race || exit 2; fi
cd "$VERIF_ROOT" || exit 2
SCRATCH=$(mktemp -d "${TMPDIR:-/tmp}/verifmc.XXXXXX")
trap 'rm -rf "$SCRATCH"' EXIT
export VERIF_SCRATCH="$SCRATCH"
if [ "$1" = "replay" ]; then
  "$VERIF_ROOT/mc/bin/verifmc" replay "$2"
  exit $?
fi
TIER="${2:-${VERIF_TIER:-quick}}"
# A broken tree must not hang a check: hard cap (exit 2 = neither pass nor violation).
CAP=${VERIF_TIMEOUT:-3000}; [ "$TIER" = "thorough" ] && CAP=${VERIF_TIMEOUT:-14400}
timeout --signal=KILL "$CAP" "$VERIF_ROOT/mc/bin/verifmc" check "$1" "$TIER"
rc=$?
if [ $rc -eq 137 ]; then echo "INTERNAL-ERROR: check $1 exceeded its ${CAP}s cap"; exit 2; fi
exit $rc
