#!/usr/bin/env bash
# usage: check.sh <property-id> <quick|thorough>   |   check.sh replay <file>
# exit 0 held / exit 1 VIOLATION / exit 2 internal or build error
set -u
. "$(dirname "${BASH_SOURCE[0]}")/env.sh"
mkdir -p "$VERIF_ROOT/mc/bin"
"$VERIF_ROOT/scripts/build.sh" || exit 2
# C05 also uses the -race build for its supplementary free-running pass.
if [ "$1" = "C05" ]; then "$VERIF_ROOT/scripts/build.sh" race || exit 2; fi
cd "$VERIF_ROOT" || exit 2
SCRATCH=$(mktemp -d "${TMPDIR:-/tmp}/verifmc.XXXXXX")
trap 'rm -rf "$SCRATCH"' EXIT
export VERIF_SCRATCH="$SCRATCH"
if [ "$1" = "replay" ]; then
  "$VERIF_ROOT/mc/bin/verifmc" replay "$2"
  exit $?
fi
TIER="${2:-${VERIF_TIER:-quick}}"
"$VERIF_ROOT/mc/bin/verifmc" check "$1" "$TIER"
