#!/usr/bin/env bash
# usage: mutant.sh <patch.diff> <property-id>...
# Applies the patch to /repo, runs the repository's own suite (must pass for the
# mutant to be "realistic"), runs the given quick checks (each must report a
# VIOLATION), and restores /repo.
set -u
. "$(dirname "${BASH_SOURCE[0]}")/env.sh"
patch=$(readlink -f "$1"); shift
cd /repo
if ! git diff --quiet; then echo "refusing: /repo has uncommitted changes"; exit 2; fi
git apply "$patch" || { echo "patch does not apply"; exit 2; }
trap 'cd /repo && git checkout -- . && git clean -fdq' EXIT
suite=PASS
go build ./... >/dev/null 2>&1 || suite=BUILD-FAIL
if [ $suite = PASS ]; then go test -vet=off -count=1 ./... >/tmp/mutant-suite.$$ 2>&1 || suite=FAIL; rm -f /tmp/mutant-suite.$$; fi
echo "mutant $(basename "$patch"): repository suite: $suite"
rc=0
for id in "$@"; do
  out=$("$VERIF_ROOT/scripts/check.sh" "$id" "${MUTANT_TIER:-quick}" 2>&1); code=$?
  if [ $code -eq 1 ] && echo "$out" | grep -q "^VIOLATION property=$id"; then
    echo "  $id: DETECTED ($(echo "$out" | grep -A1 '^VIOLATION' | grep signature | head -1 | sed 's/^ *//'))"
  else
    echo "  $id: MISSED (exit $code)"; echo "$out" | tail -3 | sed 's/^/      /'; rc=1
  fi
done
exit $rc
