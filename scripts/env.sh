# Sourced by every script: offline Go environment.
export GOFLAGS=-mod=mod GOPROXY=off GOSUMDB=off GOTOOLCHAIN=local CGO_ENABLED=1
export VERIF_ROOT="${VERIF_ROOT:-$(cd "$(dirname "${BASH_SOURCE[0]}")/.." && pwd)}"
