#!/usr/bin/env python3
"""Generate the go build -overlay file used by every check.

Reads the *current* /repo working tree and the module cache; writes transformed
copies under /verif/mc/.overlay and prints the path of overlay.json.
Nothing in /repo or the module cache is modified.
"""
import json, os, re, subprocess, sys

VERIF = os.path.dirname(os.path.dirname(os.path.abspath(__file__)))
MC = os.path.join(VERIF, "mc")
OUT = os.environ.get("VERIF_OVERLAY_OUT") or os.path.join(MC, ".overlay")
REPO = os.environ.get("VERIF_REPO", "/repo")
SRC = os.path.join(VERIF, "overlay_src")

def moddir(mod):
    r = subprocess.run(["go", "list", "-m", "-f", "{{.Dir}}", mod], cwd=MC,
                       capture_output=True, text=True)
    if r.returncode != 0 or not r.stdout.strip():
        sys.stderr.write("mkoverlay: cannot locate module %s: %s\n" % (mod, r.stderr))
        sys.exit(2)
    return r.stdout.strip()

def write(rel, text):
    p = os.path.join(OUT, rel)
    os.makedirs(os.path.dirname(p), exist_ok=True)
    old = None
    if os.path.exists(p):
        with open(p) as f:
            old = f.read()
    if old != text:
        with open(p, "w") as f:
            f.write(text)
    return p

def main():
    os.makedirs(OUT, exist_ok=True)
    replace = {}

    # 1. logical clock for the cosignature/v1 signer (formats module).
    fdir = moddir("github.com/transparency-dev/formats")
    src = os.path.join(fdir, "note", "note_cosigv1.go")
    with open(src) as f:
        t = f.read()
    n = t.count("time.Now()")
    if n != 1:
        sys.stderr.write("mkoverlay: expected exactly one time.Now() in %s, found %d\n" % (src, n))
        sys.exit(2)
    t = t.replace("time.Now()", "CosigNow()")
    t += "\n// CosigNow is the time source of the cosignature/v1 signer (verification overlay).\nvar CosigNow = time.Now\n"
    replace[src] = write("formats_note_cosigv1.go", t)

    # 2. back-off timer that asks the harness (backoff module).
    bdir = moddir("github.com/cenkalti/backoff/v4")
    replace[os.path.join(bdir, "timer.go")] = os.path.join(SRC, "backoff_timer.go")

    # 3. in-memory store: "sync" -> vsync shim (transform of the current file).
    im = os.path.join(REPO, "internal/persistence/inmemory/inmemory.go")
    if os.path.exists(im):
        with open(im) as f:
            t = f.read()
        t2 = re.sub(r'(?m)^(\s*)"sync"\s*$', r'\1sync "github.com/transparency-dev/witness/verifmc/vsync"', t)
        t2 = re.sub(r'(?m)^(\s*)"sync/atomic"\s*$', r'\1atomic "github.com/transparency-dev/witness/verifmc/vsync/vatomic"', t2)
        if t2 != t:
            replace[im] = write("inmemory.go", t2)

    # 4. export shims for unexported seams (added files).
    for rel, name in [
        ("internal/feeder/bastion", "zz_verif_export_bastion.go"),
        ("internal/client", "zz_verif_export_client.go"),
        ("omniwitness", "zz_verif_export_omni.go"),
    ]:
        s = os.path.join(SRC, name)
        if os.path.exists(s) and os.path.isdir(os.path.join(REPO, rel)):
            replace[os.path.join(REPO, rel, "zz_verif_export.go")] = s

    # 4b. the binary under test reads its log list from a file (C06 binary tier).
    if os.path.isdir(os.path.join(REPO, "cmd/omniwitness")):
        replace[os.path.join(REPO, "cmd/omniwitness", "zz_verif_main.go")] = os.path.join(SRC, "zz_verif_main_omniwitness.go")

    if os.path.isdir(os.path.join(REPO, "cmd/feedbastion")):
        replace[os.path.join(REPO, "cmd/feedbastion", "zz_verif_main.go")] = os.path.join(SRC, "zz_verif_main_feedbastion.go")

    # 5. go build -overlay does not notice a changed //go:embed file of a package
    #    that has overlaid files (measured: the stale compiled package is reused).
    #    A generated file carrying the hash of the embedded files changes the
    #    package's action ID whenever they change.
    import hashlib
    emb = os.path.join(REPO, "omniwitness", "logs.yaml")
    if os.path.exists(emb):
        h = hashlib.sha256(open(emb, "rb").read()).hexdigest()
        src = "package omniwitness\n\n// VerifEmbedHash is the hash of logs.yaml at overlay generation time.\nconst VerifEmbedHash = \"%s\"\n" % h
        replace[os.path.join(REPO, "omniwitness", "zz_verif_embedhash.go")] = write("omniwitness_embedhash.go", src)

    ov = os.path.join(OUT, "overlay.json")
    with open(ov, "w") as f:
        json.dump({"Replace": replace}, f, indent=1)
    print(ov)

if __name__ == "__main__":
    main()
