#!/usr/bin/env python3
"""Mechanical mutation sweep: single-token changes (relational / logical
operators, small constants, dropped statements) to the files each property is
anchored in. A mutant that still builds and passes the repository's own suite
must be reported by at least one of the checks mapped to its file; survivors
are listed for triage (equivalent change, or a gap in a check).

usage: mutsweep.py gen <outdir>      write one unified diff per mutant + index.tsv
       mutsweep.py run <outdir> [par] run scripts/mutant_iso.sh on each, write results.tsv
"""
import os, re, subprocess, sys, difflib, concurrent.futures

REPO = "/repo"
FILES = {
    "internal/witness/witness.go": "C09 C01 C03 C04 C20 C08 C02",
    "internal/witness/proof.go": "C11",
    "internal/persistence/sql/sql.go": "C07 C06 C16 C05",
    "internal/persistence/inmemory/inmemory.go": "C05 C03 C16",
    "internal/feeder/feeder.go": "C13",
    "internal/feeder/bastion/bastion_feeder.go": "C10 C11 C19",
    "internal/distribute/rest/distribute.go": "C15",
    "internal/client/sumdb.go": "C18 C14",
    "internal/feeder/sumdb/sumdb_feeder.go": "C18 C14 C19",
    "internal/http/server.go": "C16",
    "client/http/witness_client.go": "C16",
    "omniwitness/omniwitness.go": "C14 C17 C12",
    "omniwitness/configs.go": "C17 C12",
    "internal/config/log.go": "C12 C17",
    "internal/feeder/rekor/rekor_feeder.go": "C14 C19",
    "internal/feeder/pixelbt/pixel_feeder.go": "C14 C19",
    "internal/feeder/serverless/serverless_feeder.go": "C14 C19",
}
OPS = [
    (r" == ", " != "), (r" != ", " == "), (r" < ", " <= "), (r" <= ", " < "), (r" > ", " >= "), (r" >= ", " > "),
    (r" && ", " || "), (r" \|\| ", " && "), (r" \+ 1\b", " + 2"), (r" - 1\b", ""), (r"\b0\b", "1"),
]

def sites(path):
    src = open(os.path.join(REPO, path)).read().split("\n")
    out = []
    in_block_comment = False
    for i, line in enumerate(src):
        st = line.strip()
        if st.startswith("//") or not st or st.startswith("import") or st.startswith("package"):
            continue
        code = line.split("//")[0]
        if '"' in code and not re.search(r"\bif\b|\bfor\b|\breturn\b|\bcase\b", code):
            continue
        # operator replacements, one occurrence each
        if re.search(r"\bif\b|\bfor\b|\bcase\b|\breturn\b|:=|=", code):
            for pat, rep in OPS:
                for m in re.finditer(pat, code):
                    if pat == r"\b0\b" and not re.search(r"[=<>!]=? 0\b|\b0 [=<>!]", code):
                        continue
                    new = code[:m.start()] + rep + code[m.end():] + line[len(code):]
                    if new != line:
                        out.append((i, line, new, "%s->%s" % (pat.strip(), rep.strip() or "(dropped)")))
        # dropped statements: counters, defers, assignments through a call with no result use
        if re.match(r"^\s*(defer\s+\S+\.(Close|Rollback)\(\)|counter\w+\.Inc\(.*\)|\w+(\.\w+)*\.Inc\(.*\))\s*$", code):
            out.append((i, line, None, "statement-dropped"))
        if re.match(r"^\s*(continue|break)\s*$", code):
            out.append((i, line, None, "statement-dropped"))
    return src, out

def gen(outdir):
    os.makedirs(outdir, exist_ok=True)
    idx = []
    n = 0
    for path, props in FILES.items():
        if not os.path.exists(os.path.join(REPO, path)):
            continue
        src, ss = sites(path)
        for (i, old, new, what) in ss:
            mut = list(src)
            if new is None:
                mut[i] = re.match(r"^\s*", old).group(0) + "// (statement removed)"
                if old.strip() in ("continue", "break"):
                    mut[i] = ""
            else:
                mut[i] = new
            a = [l + "\n" for l in src]
            b = [l + "\n" for l in mut]
            if a[-1] == "\n":
                a, b = a[:-1], b[:-1]
            d = "".join(difflib.unified_diff(a, b, "a/" + path, "b/" + path, n=3))
            if not d:
                continue
            n += 1
            name = "m%04d" % n
            os.makedirs(os.path.join(outdir, name), exist_ok=True)
            open(os.path.join(outdir, name, "patch.diff"), "w").write(d)
            idx.append("%s\t%s\t%d\t%s\t%s\t%s" % (name, path, i + 1, what, props, old.strip()[:100]))
    open(os.path.join(outdir, "index.tsv"), "w").write("\n".join(idx) + "\n")
    print(n, "mutants")

def run(outdir, par):
    rows = [l.split("\t") for l in open(os.path.join(outdir, "index.tsv")).read().splitlines()]
    done = {}
    resf = os.path.join(outdir, "results.tsv")
    if os.path.exists(resf):
        for l in open(resf).read().splitlines():
            f = l.split("\t")
            done[f[0]] = l
    def one(r):
        name, path, line, what, props, old = r
        if name in done:
            return done[name]
        env = dict(os.environ, MUTANT_REQUIRE_SUITE="1", MUTANT_CAP="900")
        p = subprocess.run([os.path.join(os.environ.get("VERIF_ROOT", "/verif"), "scripts/mutant_iso.sh"), os.path.join(outdir, name, "patch.diff")] + props.split(), capture_output=True, text=True, env=env)
        o = p.stdout + p.stderr
        if "repository suite: PASS" not in o:
            st = "suite-rejects" if "repository suite:" in o else "no-build"
        elif "DETECTED" in o:
            st = "detected:" + ",".join(re.findall(r"(C\d\d): DETECTED", o))
        else:
            st = "SURVIVED:" + ",".join(re.findall(r"(C\d\d): MISSED \(exit (\d+)\)", o).__iter__().__next__() if False else ["%s(exit %s)" % m for m in re.findall(r"(C\d\d): MISSED \(exit (\d+)\)", o)])
        return "\t".join([name, st, path, line, what, old])
    with concurrent.futures.ThreadPoolExecutor(par) as ex, open(resf, "a") as f:
        for res in ex.map(one, rows):
            if res.split("\t")[0] not in done:
                f.write(res + "\n")
                f.flush()

if __name__ == "__main__":
    if sys.argv[1] == "gen":
        gen(sys.argv[2])
    else:
        run(sys.argv[2], int(sys.argv[3]) if len(sys.argv) > 3 else 4)
