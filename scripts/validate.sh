#!/usr/bin/env bash
# Validate MANIFEST.json and every evidence file against the schemas.
cd "$(dirname "${BASH_SOURCE[0]}")/.." && python3-vt - <<'PY'
import json, jsonschema, glob, sys
ok = True
jsonschema.validate(json.load(open('MANIFEST.json')), json.load(open('/root/.vp/MANIFEST.schema.json')))
print('MANIFEST valid')
s = json.load(open('/root/.vp/EVIDENCE.schema.json'))
for f in sorted(glob.glob('evidence/*.json')):
    try:
        jsonschema.validate(json.load(open(f)), s)
        print(f, 'valid')
    except Exception as e:
        ok = False
        print(f, 'INVALID', str(e)[:300])
sys.exit(0 if ok else 1)
PY
