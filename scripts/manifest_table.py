chk("C09", "model_checking",
    "explicit-state BFS over the real Witness.Update, every transition compared with a reference model (wmodel) and an independent RFC 6962 verifier",
    "Every (stored state x request) cell of the protocol's decision table for sizes 0..17 (old sizes to 18 plus 2^32, 2^63, 2^64-1; honest and forked checkpoints; 15+ proof shapes) is executed on the real witness over both stores and compared with the first-matching-rule model; thorough adds the power-of-two grid to 2^62 on a uniform tree. This is exhaustive inside the bound, which is what a nine-example test cannot be.",
    "Trusted: Ed25519/SHA-256, the harness's RFC 6962 reference (cross-checked against x/mod tlog on every proof verdict), generator ground truth for checkpoints. Sizes beyond the bound on non-uniform trees are not explored.",
    "DESIGN.md §5 C09, §4.1")
chk("C01", "model_checking",
    "explicit-state BFS over the real Witness with a ground-truth (leaf-list prefix) monitor on every state change",
    "The search runs to fixpoint over every reachable canonical state (size, root) of a forking log universe and applies the full adversarial alphabet (all old sizes incl. 2^32/2^63/2^64-1, log-signed checkpoints of every branch, 15+ proof shapes incl. the proof an adversarial log would send, forged checkpoints) in every state on both stores; every accepted transition is checked against the generator's leaf lists. Because the witness keeps only the latest checkpoint and the prefix relation is transitive, per-step checking over all reachable states decides the all-histories statement inside the bound.",
    "Bounded universe (quick: 8 leaves, 4 forks; thorough: 17 leaves, 9 forks + power-of-two grid on a uniform tree + path-exhaustive depth 3). SHA-256/Ed25519 trusted.",
    "DESIGN.md §5 C01, §4.1")
chk("C03", "model_checking",
    "explicit-state BFS with a before/after snapshot monitor on every refused transition, plus single-fault enumeration for the storage-failure class",
    "Every refused transition of the search (all seven protocol refusal classes, each required to occur) is followed by a byte-for-byte comparison of the stored checkpoint of every log and the log list, read through the unwrapped store, and of the returned bytes with the stored checkpoint; storage failures are covered by placing every single fault in every storage call of six histories on both stores.",
    "Same bounds as C01 (two-log witness). A Set that takes effect and is then reported as failed is left to C07.",
    "DESIGN.md §5 C03")
chk("C04", "model_checking",
    "explicit-state BFS with a signature-block / freshness monitor on every accepted transition under a logical clock",
    "All accepted transitions (first use, growth, refresh - each required to occur for every key set and shape) for three witness key sets x seven checkpoint shapes x both stores are inspected line by line: text identity, log signature, exactly one valid line per witness key, cosignature timestamp inside the logical-clock window of the producing call, read-after-update identity.",
    "The cosignature/v1 time source is replaced by a logical clock through a build overlay of one dependency file (time.Now() -> hookable variable); one configuration also runs on the wall clock with an inclusive window.",
    "DESIGN.md §5 C04")
chk("C07", "fault_enumeration",
    "deviation-bounded DFS over storage-call answers (interface level and SQL-driver level) with a reference-model oracle and driver-state wedge detection",
    "Every placement of up to k faults (quick 2/2, thorough 3/3) in every storage call of six histories, on the in-memory store and on SQLite with the production single-connection pool, at the LogStatePersistence interface and at the database/sql driver; each execution is followed by a fault-free suffix. Oracle: success implies read-back equality and acceptability from the really stored state (so a failed read is never first use), errors leave the state unchanged (or, for a commit reported failed after taking effect, old or new), no transaction/handle is left open.",
    "Fault model restricted to effects a real failure can have; wedge decided from driver state, not a deadline.",
    "DESIGN.md §5 C07, §4.3")
chk("C08", "model_checking",
    "exhaustive enumeration of prior histories (depth-bounded) on the real witness, then an honest probe to every larger size from every reached state",
    "All prior histories up to depth 2 (quick) / 3 (thorough) over honest checkpoints of ten shapes (including 96-100 extra signature lines, size 0) and eight refused kinds; from every reached state every honest step s->t for t up to the universe size is executed on a fresh replay on both stores and must be accepted.",
    "One open known finding (size-0 stored checkpoint) is reported as KNOWN-FINDING; the 100-signature wedge was repaired (known_findings.json).",
    "DESIGN.md §5 C08, §6")
chk("C20", "model_checking",
    "explicit-state BFS with a recording MetricFactory; counter deltas compared with the model after every transition",
    "A recording metric factory is installed before the first witness exists; the single-worker search over a two-log witness compares, after every Update, the delta of every counter and label with the model's prediction for that verdict, so a missing, misplaced or mislabelled increment on any path/state combination in the bound is caught.",
    "Counters are process-wide, hence one worker. Bounds: sizes 0..6 (quick) / 0..12 (thorough).",
    "DESIGN.md §5 C20")
chk("C05", "model_checking",
    "stateless DFS over thread interleavings of the real code under a controlled scheduler with iterative preemption bounding; porcupine linearizability check of every complete execution against wmodel",
    "Six 2-4 thread scenarios (conflicting first use, fork race from one old size, growth vs refresh, different logs, fork race + later growth, two writers) are explored on the in-memory store at storage-operation and lock granularity and on SQLite with the production one-connection pool: every schedule up to preemption bound 2 (quick; 3 for two threads) / 4, 3 and unbounded (thorough). Every complete execution's call/return history plus final reads must be linearizable w.r.t. the protocol model with the property's one exception, reads must be monotone, and no schedule may deadlock. A supplementary free-running -race pass looks for unsynchronised accesses.",
    "Scheduling points are storage/lock operations, not arbitrary memory accesses. Executions beyond the reported preemption bound are not covered. The race pass is sampling and not the deciding step.",
    "DESIGN.md §5 C05, §4.2")
chk("C06", "fault_enumeration",
    "exhaustive crash-point enumeration: SIGKILL before and after every SQL-driver operation and at file-syscall entries (strace injection) of scripted histories on file-backed SQLite; a fresh process reopens and is judged against acknowledgements",
    "For three histories (one log: first use/growth/refresh; two logs interleaved with refused forks; a log that is still empty) the worker process is killed before and after every one of the ~112 database/sql driver operations and on entry to every reachable file syscall on the database and its journal; a fresh process reopens the store (SQLite recovery), reports the state and probes the restarted witness. Oracle: stored rows are complete valid cosigned checkpoints; in-flight log holds the last acknowledged or the being-written checkpoint, other logs exactly the last acknowledged one; forks still refused, growth accepted.",
    "Process kill, not power loss (no torn sectors, no lost un-fsynced data). strace's injection counter cannot address syscalls on the journal fd before its path resolves, so about a quarter of the syscall boundaries (journal-only writes before the database file is touched) are covered only at driver-operation granularity; the number reached is in the evidence.",
    "DESIGN.md §5 C06, §4.3")
chk("C10", "model_checking",
    "explicit-state BFS whose transitions are HTTP requests to the real add-checkpoint handler in front of the real witness; every answer compared with wmodel composed with the protocol's status map",
    "States are witness states reached through the endpoint itself; in every state the full request alphabet of C01 (rendered as tlog-witness request bodies), an unknown origin and malformed bodies are sent to the handler built as FeedBastion builds it (same MaxBytesHandler), with the real witnessAdapter and witness behind it, on both stores. Status, Content-Type and body are compared with the model: 200 bodies must be cosignature lines verifying under the published witness key over the submitted text, stale 409 bodies the true size. Three limiter regimes check that 429 answers were not processed. Thorough replays a transition tour over a real TLS 1.3 + HTTP/2 reverse connection to a stub bastion.",
    "The unexported handler is reached through a verification-only export file added with go build -overlay. Rate-limit timing oracle is a sound counting bound, not an exact one.",
    "DESIGN.md §5 C10")
chk("C11", "exploration",
    "bounded-exhaustive input enumeration (all token strings up to a length, complete 1-edit neighbourhoods, boundary-value products) against a reference parser with accept / must-refuse / unspecified classes",
    "Round trip: boundary old sizes x 5000+ proof lists x 2800+ checkpoint byte strings written by two writers must parse back exactly; every proof list incl. the empty one through Proof.Marshal/Unmarshal. Refusal: every string of <= 5 (quick) / 6 (thorough) tokens over a 12-token alphabet and the complete 1-edit neighbourhood of four valid bodies are classified by a reference parser written from the spec; must-refuse bodies that are understood, or refusals that return data, are violations. Leniencies the property does not name are not judged.",
    "Exhaustive over the stated finite sets only, not over all byte strings.",
    "DESIGN.md §5 C11, §4.4", True)
chk("C12", "model_checking",
    "product explicit-state BFS over several logs with a differential oracle (each log's answers compared with a one-log witness replaying only its requests), all interleavings of per-log histories, and enumeration of identity / configuration cases",
    "For every reachable product state of two logs that share a signing key under different origins (IDs forced to share a prefix) and of three logs, every request naming log X - including every other log's checkpoints submitted under X's ID - must leave all other components byte-identical and must be answered exactly as a witness that only ever saw X's requests answers it. By induction this covers interleavings of any length; all interleavings of independently chosen histories are also executed directly. Identity: six interfaces derive the same ID for 15 origins; all 84 small configurations are refused iff an origin repeats. omniwitness.Main run for real per polling feeder type over logs whose key name differs from their origin: what the log published must be served under ID(origin).",
    "Bounded sizes (0..3/4). Single-log reference runs on the same code (differential, not an independent model) - the independent model is C09's.",
    "DESIGN.md §5 C12")
chk("C13", "fault_enumeration",
    "deviation-bounded DFS over every environment answer of one feed cycle (fetch, get-latest, fetch-proof, update, back-off timer) with a reference model of the cycle as oracle",
    "For 378 (witness state x log head x log kind x stub/real witness) scenarios the real FeedOnce runs with every environment call answered by the explorer (success, transient failure, 'another feeder advanced the witness', timer fires / context ends), for every placement of up to 2 (quick) / 4 (thorough) non-default answers. Per attempt: old size = size reported in that attempt, proof = the one fetched in that attempt from exactly that checkpoint, nothing sent for an unverifiable checkpoint or when the witness is ahead, success after failures clear, result bytes = witness's bytes, no call after the context ended; with the real witness the final state must be the log head.",
    "Back-off timer replaced through a build overlay of backoff/timer.go (fires at once or never); executions are serial because the hook is global.",
    "DESIGN.md §5 C13")
chk("C15", "fault_enumeration",
    "exhaustive assignment enumeration of (witness answer x distributor answer) per log over the real DistributeOnce with a recording stub distributor",
    "All assignments for 1-2 logs over a menu of 15 witness answers (valid ones in five forms, incl. 70 KiB of extension lines, unknown signature lines around the witness's, the witness's line BEFORE the log's; missing, wrong key, no/invalid witness signature, corrupted, four malformed tails) x 8 distributor answers, and for 3-6 logs every assignment with up to 2 (quick) / 3 (thorough) deviating logs at every position. Oracle: one PUT per valid log at the right path with byte-identical body, none for others, all logs attempted, error iff some failed with the right count.",
    "In-process RoundTripper; a connection error is modelled as failing before the body is read. Checkpoints with a second foreign witness signature are outside the claim.",
    "DESIGN.md §5 C15")
chk("C16", "model_checking",
    "explicit-state BFS over a three-log witness with a read-API monitor (router + bundled client + log list) after every transition, ground truth read straight from the store",
    "After every transition of the search the registered mux router and client/http.Witness are queried for all three logs and the log list and compared with ground truth (for SQL the chkpts table itself, not the persistence object): 200+exact bytes / 404, client bytes / os.ErrNotExist, list = logs with an accepted update (refused first submissions, including one refused after the store was opened, create no entry); 20 odd IDs never yield another log's checkpoint.",
    "Sizes 0..5 (quick) / 0..8 (thorough). Ground truth: SQL table read directly; in-memory: mirror of successful Sets kept below the witness.",
    "DESIGN.md §5 C16")
chk("C02", "exploration",
    "bounded-exhaustive input enumeration: complete byte-level 1-edit neighbourhoods and line-level edits of valid checkpoints plus all cross-log replays, with a one-directional authenticity oracle (set of texts the harness signed; crypto/ed25519 directly)",
    "Every prefix, single-bit flip, 8 boundary substitutions and deletion at every byte of 4 seed checkpoints, 25 signature-block / body-line edits, and every checkpoint of every log submitted under every other ID and unknown IDs, in 7 configurations (incl. two logs sharing a key under different origins, two keys with the same name, and two keys with the same name AND the same 32-bit key hash) x empty/seeded witness; every configured origin signed only by each key that is not its own. Anything accepted or stored must be a text the configured key signed with the configured origin as first line; inputs the harness decides are unauthentic must be refused with no state change.",
    "Exhaustive over the stated neighbourhoods, not over all byte strings. Ed25519 unforgeability is the ground truth.",
    "DESIGN.md §5 C02")
chk("C17", "exploration",
    "exhaustive enumeration of every shipped configuration entry through the functions Main uses, starting each entry's feeder against a transport that refuses every request",
    "The configuration space is finite (every entry of logs.yaml and logs_test.yaml as found in the working tree) and is enumerated completely: key parses and matches its name/hash, ID unique, feeder known, AsLogMap succeeds, the feeder gets as far as a network request to the configured host without panicking, witness map IDs equal the feeder list IDs.",
    "Only the shipped files are the subject; the embedded copy is asserted equal to the working-tree file so a stale build cannot pass.",
    "DESIGN.md §5 C17", False)
chk("C18", "exploration",
    "bounded-exhaustive enumeration of tile coordinates against tlog.Tile.Path and of all size pairs through the real sumdb feeder against an in-process tile server, proofs checked by an independent RFC 6962 verifier and the real witness",
    "295 000 (level, index, width) coordinates incl. every carry boundary of the path encoding up to 10^9 are compared with the reference tlog path; the real sumdb.FeedLog runs for all 44 850 (quick, <= 300) / 719 400 (thorough, <= 1200) size pairs against a server that rejects any tile that does not exist at that size or has the wrong width; each proof must verify under ref6962 and merkle and (boundary pairs, every 7th pair) be accepted by the real witness.",
    "Indices beyond 2100 only at carry boundaries; sizes up to 1200 on one generated tree.",
    "DESIGN.md §5 C18")
chk("C14", "exploration",
    "exhaustive enumeration of growth schedules through the real omniwitness.Main (generated configuration, real listener, in-process stub log servers), completion observed by events rather than time",
    "Every strictly increasing growth schedule of length <= 3 (quick) / 4 (thorough) over ten tile-boundary sizes, each followed by a fork step, is followed by the assembled service: tiles feeder in running mode (in-memory, SQLite) and restart-between-steps mode (SQLite file) with one configured log per schedule; sumdb feeder one process per schedule (covering subset in quick, all in thorough). After each growth the checkpoint served over HTTP must be the log's head, cosigned; after the fork it must still be the last witnessed one.",
    "The scenario space is exhaustive; goroutine interleavings and timer races inside Main are NOT enumerated (whole-system schedules are outside what exhaustive interleaving exploration can do). Liveness deadlines (>= 100x normal latency) only terminate a broken build.",
    "DESIGN.md §5 C14, §7")
chk("C19", "exploration",
    "bounded-exhaustive input enumeration (complete 1-edit neighbourhoods, token strings, size boundaries) against the real endpoint, and deviation-bounded enumeration of hostile server answers / log-signed checkpoints for every feeder in worker subprocesses with stall detection",
    "344 000 request bodies (complete 1-edit neighbourhood of a valid request of 11 verdict classes, all token strings to length 4/5, size boundaries) go through the real handler behind the 16 KiB cap in two witness states and through both parsers: no panic, one response, documented status. Every feeder (sumdb, tiles, pixel, rekor, serverless) and the distributor run one cycle per placement of up to 1 (quick) / 2 (thorough) deviating answers from a 13-item menu at every request position and per hostile log-signed checkpoint (8 sizes x 5 hash lengths x 2 witness states); a cycle that panics, kills the process or makes no progress for 20 s (confirmed 3 times) is a violation.",
    "Not all byte strings up to 16 KiB (coverage-guided fuzzing is another family): the stated neighbourhoods and menus, completely. A retry loop that runs until its context ends is by design and is cut at the first back-off wait.",
    "DESIGN.md §5 C19")
