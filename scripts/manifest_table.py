chk("C09", "model_checking",
    "explicit-state BFS over the real Witness.Update, every transition compared with a reference model (wmodel) and an independent RFC 6962 verifier",
    "Every (stored state x request) cell of the protocol's decision table for sizes 0..17 (old sizes to 18 plus 2^32, 2^63, 2^64-1; honest and forked checkpoints; 15+ proof shapes) is executed on the real witness over both stores and compared with the first-matching-rule model; thorough adds the power-of-two grid to 2^62 on a uniform tree. This is exhaustive inside the bound, which is what a nine-example test cannot be.",
    "Trusted: Ed25519/SHA-256, the harness's RFC 6962 reference (cross-checked against x/mod tlog on every proof verdict), generator ground truth for checkpoints. Sizes beyond the bound on non-uniform trees are not explored.",
    "DESIGN.md §5 C09, §4.1")
