// Package drvwrap wraps a database/sql/driver (go-sqlite3) so that every
// driver operation is numbered, can be failed or used as a crash point, and so
// that the true transaction / cursor state of each connection is known.
package drvwrap

import (
	"context"
	"database/sql"
	"database/sql/driver"
	"fmt"
	"io"
	"sync"
)

// Action is the hook's answer for one operation.
type Action struct {
	// Err != nil fails the operation.
	Err error
	// After: perform the real operation first, then report Err (only
	// meaningful for commit: "committed, then reported as failed").
	After bool
}

// Hook is consulted before ("pre") and after ("post") each operation. Only the
// pre answer can fail the operation.
type Hook func(op string, k int, phase string) Action

// Driver is a wrapping driver with shared counters.
type Driver struct {
	Inner driver.Driver

	mu       sync.Mutex
	n        int
	trace    []string
	hook     Hook
	openTx   int
	openRows int
	conns    int
	// OnRelease is called (outside the lock) whenever a Tx or Rows is closed.
	OnRelease func()
}

// New wraps inner.
func New(inner driver.Driver) *Driver { return &Driver{Inner: inner} }

// OpenDB opens a database/sql handle through the wrapper.
func (d *Driver) OpenDB(dsn string) *sql.DB { return sql.OpenDB(&connector{d: d, dsn: dsn}) }

// SetHook installs the hook (nil = none).
func (d *Driver) SetHook(h Hook) { d.mu.Lock(); d.hook = h; d.mu.Unlock() }

// Reset clears the counter and trace.
func (d *Driver) Reset() { d.mu.Lock(); d.n = 0; d.trace = nil; d.mu.Unlock() }

// Count returns the number of operations seen since Reset.
func (d *Driver) Count() int { d.mu.Lock(); defer d.mu.Unlock(); return d.n }

// Trace returns the operation names since Reset.
func (d *Driver) Trace() []string {
	d.mu.Lock()
	defer d.mu.Unlock()
	return append([]string(nil), d.trace...)
}

// Busy reports whether some connection holds an open transaction or cursor.
func (d *Driver) Busy() bool { d.mu.Lock(); defer d.mu.Unlock(); return d.openTx > 0 || d.openRows > 0 }

// OpenTx / OpenRows report the true driver-level state.
func (d *Driver) OpenTx() int   { d.mu.Lock(); defer d.mu.Unlock(); return d.openTx }
func (d *Driver) OpenRows() int { d.mu.Lock(); defer d.mu.Unlock(); return d.openRows }

func (d *Driver) pre(op string) (int, Action) {
	d.mu.Lock()
	k := d.n
	d.n++
	d.trace = append(d.trace, op)
	h := d.hook
	d.mu.Unlock()
	if h == nil {
		return k, Action{}
	}
	return k, h(op, k, "pre")
}

func (d *Driver) post(op string, k int) {
	d.mu.Lock()
	h := d.hook
	d.mu.Unlock()
	if h != nil {
		h(op, k, "post")
	}
}

func (d *Driver) released() {
	if f := d.OnRelease; f != nil {
		f()
	}
}

type connector struct {
	d   *Driver
	dsn string
}

func (c *connector) Connect(context.Context) (driver.Conn, error) {
	k, a := c.d.pre("open")
	if a.Err != nil {
		return nil, a.Err
	}
	in, err := c.d.Inner.Open(c.dsn)
	if err != nil {
		return nil, err
	}
	c.d.mu.Lock()
	c.d.conns++
	c.d.mu.Unlock()
	c.d.post("open", k)
	return &conn{d: c.d, in: in}, nil
}

func (c *connector) Driver() driver.Driver { return c.d.Inner }

type conn struct {
	d  *Driver
	in driver.Conn
}

func (c *conn) Prepare(q string) (driver.Stmt, error) {
	k, a := c.d.pre("prepare")
	if a.Err != nil {
		return nil, a.Err
	}
	s, err := c.in.Prepare(q)
	if err != nil {
		return nil, err
	}
	c.d.post("prepare", k)
	return &stmt{d: c.d, in: s}, nil
}

func (c *conn) Close() error {
	c.d.mu.Lock()
	c.d.conns--
	c.d.mu.Unlock()
	return c.in.Close()
}

func (c *conn) Begin() (driver.Tx, error) { return c.BeginTx(context.Background(), driver.TxOptions{}) }

func (c *conn) BeginTx(ctx context.Context, opts driver.TxOptions) (driver.Tx, error) {
	k, a := c.d.pre("begin")
	if a.Err != nil {
		return nil, a.Err
	}
	var t driver.Tx
	var err error
	if b, ok := c.in.(driver.ConnBeginTx); ok {
		t, err = b.BeginTx(ctx, opts)
	} else {
		t, err = c.in.Begin() //nolint:staticcheck
	}
	if err != nil {
		return nil, err
	}
	c.d.mu.Lock()
	c.d.openTx++
	c.d.mu.Unlock()
	c.d.post("begin", k)
	return &tx{d: c.d, in: t}, nil
}

type tx struct {
	d    *Driver
	in   driver.Tx
	done bool
}

func (t *tx) finish() {
	if !t.done {
		t.done = true
		t.d.mu.Lock()
		t.d.openTx--
		t.d.mu.Unlock()
		t.d.released()
	}
}

func (t *tx) Commit() error {
	k, a := t.d.pre("commit")
	if a.Err != nil {
		if a.After {
			err := t.in.Commit()
			t.finish()
			if err != nil {
				return err
			}
			return a.Err
		}
		// A failed commit that did not take effect: the engine has rolled
		// the transaction back (go-sqlite3 cannot leave it open on a
		// connection that database/sql is about to reuse).
		_ = t.in.Rollback()
		t.finish()
		return a.Err
	}
	err := t.in.Commit()
	t.finish()
	if err == nil {
		t.d.post("commit", k)
	}
	return err
}

func (t *tx) Rollback() error {
	k, a := t.d.pre("rollback")
	err := t.in.Rollback()
	t.finish()
	if a.Err != nil {
		return a.Err
	}
	if err == nil {
		t.d.post("rollback", k)
	}
	return err
}

type stmt struct {
	d  *Driver
	in driver.Stmt
}

func (s *stmt) Close() error {
	k, _ := s.d.pre("stmt-close")
	err := s.in.Close()
	s.d.post("stmt-close", k)
	return err
}

func (s *stmt) NumInput() int { return s.in.NumInput() }

func (s *stmt) Exec(args []driver.Value) (driver.Result, error) {
	k, a := s.d.pre("exec")
	if a.Err != nil {
		return nil, a.Err
	}
	r, err := s.in.Exec(args) //nolint:staticcheck
	if err == nil {
		s.d.post("exec", k)
	}
	return r, err
}

func (s *stmt) Query(args []driver.Value) (driver.Rows, error) {
	k, a := s.d.pre("query")
	if a.Err != nil {
		return nil, a.Err
	}
	r, err := s.in.Query(args) //nolint:staticcheck
	if err != nil {
		return nil, err
	}
	s.d.mu.Lock()
	s.d.openRows++
	s.d.mu.Unlock()
	s.d.post("query", k)
	return &rows{d: s.d, in: r}, nil
}

type rows struct {
	d      *Driver
	in     driver.Rows
	closed bool
}

func (r *rows) Columns() []string { return r.in.Columns() }

func (r *rows) Close() error {
	k, _ := r.d.pre("rows-close")
	err := r.in.Close()
	if !r.closed {
		r.closed = true
		r.d.mu.Lock()
		r.d.openRows--
		r.d.mu.Unlock()
		r.d.released()
	}
	r.d.post("rows-close", k)
	return err
}

func (r *rows) Next(dest []driver.Value) error {
	k, a := r.d.pre("next")
	if a.Err != nil {
		return a.Err
	}
	err := r.in.Next(dest)
	if err == nil || err == io.EOF {
		r.d.post("next", k)
	}
	return err
}

// ErrInjected is the default injected error.
var ErrInjected = fmt.Errorf("database is locked (verif: injected driver fault)") // worded like SQLite's busy error: code that matches on the text sees a lock error
