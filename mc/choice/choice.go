// Package choice is the deviation-bounded depth-first explorer over
// environment answers (engine C' of DESIGN.md): the code under test asks
// Choose(n) at every environment call; 0 is the default answer (success).
// Explore runs everything with 0 deviations, then 1, 2, ... up to the bound,
// every execution running to completion, positions discovered dynamically.
package choice

import "fmt"

// Point is one recorded choice point.
type Point struct {
	Label string
	N     int
	Taken int
}

// C is the chooser handed to one execution.
type C struct {
	prefix []int
	Points []Point
	// Diverged is set when a prefix choice is out of range for the point that
	// was actually reached (nondeterminism in the harness: hard error).
	Diverged string
}

// Choose returns the answer index for this point.
func (c *C) Choose(n int, label string) int {
	i := len(c.Points)
	t := 0
	if i < len(c.prefix) {
		t = c.prefix[i]
		if t >= n {
			c.Diverged = fmt.Sprintf("point %d (%s) has %d options, prefix wants %d", i, label, n, t)
			t = 0
		}
	}
	c.Points = append(c.Points, Point{label, n, t})
	return t
}

// Prefix returns the choice prefix this execution was started with.
func (c *C) Prefix() []int { return append([]int(nil), c.prefix...) }

// Deviations returns the number of non-default answers taken.
func (c *C) Deviations() int {
	d := 0
	for _, p := range c.Points {
		if p.Taken != 0 {
			d++
		}
	}
	return d
}

// Trace renders the non-default choices.
func (c *C) Trace() []string {
	var out []string
	for i, p := range c.Points {
		if p.Taken != 0 {
			out = append(out, fmt.Sprintf("#%d %s -> %d/%d", i, p.Label, p.Taken, p.N))
		}
	}
	return out
}

// Choices returns the full choice vector of the execution.
func (c *C) Choices() []int {
	out := make([]int, len(c.Points))
	for i, p := range c.Points {
		out[i] = p.Taken
	}
	return out
}

// Stats are returned by Explore.
type Stats struct {
	Executions int64
	MaxPoints  int
	PerBound   map[int]int64
}

// Explore enumerates all executions of run with at most bound deviations. run
// must be deterministic given the choice vector. It returns an error on
// divergence.
func Explore(bound int, run func(c *C)) (Stats, error) {
	return ExploreSkip(bound, nil, run)
}

// ExploreSkip is Explore with a predicate naming choice prefixes that must not
// be executed (nor extended): used to step around an execution that hung.
func ExploreSkip(bound int, skip func(prefix []int) bool, run func(c *C)) (Stats, error) {
	st := Stats{PerBound: map[int]int64{}}
	var rec func(prefix []int, dev int) error
	rec = func(prefix []int, dev int) error {
		if skip != nil && skip(prefix) {
			return nil
		}
		c := &C{prefix: prefix}
		run(c)
		if c.Diverged != "" {
			return fmt.Errorf("divergence: %s", c.Diverged)
		}
		st.Executions++
		st.PerBound[dev]++
		if len(c.Points) > st.MaxPoints {
			st.MaxPoints = len(c.Points)
		}
		if dev >= bound {
			return nil
		}
		pts := c.Points
		for i := len(prefix); i < len(pts); i++ {
			for alt := 1; alt < pts[i].N; alt++ {
				np := make([]int, i+1)
				for j := 0; j < i; j++ {
					np[j] = pts[j].Taken
				}
				np[i] = alt
				if err := rec(np, dev+1); err != nil {
					return err
				}
			}
		}
		return nil
	}
	err := rec(nil, 0)
	return st, err
}

// Replay runs one execution with a fixed choice vector.
func Replay(choices []int, run func(c *C)) *C {
	c := &C{prefix: choices}
	run(c)
	return c
}
