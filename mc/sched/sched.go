// Package sched is the controlled scheduler and stateless depth-first
// explorer (engine A of DESIGN.md). Threads are real goroutines; exactly one
// holds the baton. A thread gives the baton back at every scheduling point by
// calling BlockUntil (via lspwrap's Point hook and the vsync shim); a thread
// whose predicate is false is disabled. Executions are enumerated by replaying
// a choice prefix on a fresh instance and taking choice 0 afterwards, with
// iterative preemption bounding.
package sched

import (
	"fmt"
	"time"

	"github.com/transparency-dev/witness/verifmc/vsync"
)

// Point is one recorded scheduling decision with more than one enabled thread.
type Point struct {
	Enabled        []int // thread ids in canonical order
	Chosen         int   // index into Enabled
	RunningEnabled bool  // Enabled[0] is the thread that was running
}

type thread struct {
	pc     int
	id     int
	fn     func()
	resume chan struct{}
	done   bool
	ok     func() bool
	what   string
}

// Exec is one execution.
type Exec struct {
	threads []*thread
	cur     *thread
	yield   chan struct{}
	prefix  []int

	Points   []Point
	Steps    int    // scheduling steps (including forced ones)
	Deadlock string // non-empty: no enabled thread while some unfinished
	Wedged   string // non-empty: baton holder never reached its next point
	Diverged string // non-empty: prefix does not fit (nondeterminism)
	// Trace is the sequence of (thread, what) resumed.
	Trace []string
	// Watchdog is the time the scheduler waits for the baton holder.
	Watchdog time.Duration
	// KeyFn, if set, is evaluated at every choice point (before choosing);
	// Keys[i] is the global state key at Points[i]. Used for visited-state
	// pruning: the key must determine all future behaviour and the oracle's
	// verdict (see DESIGN.md §4.2).
	KeyFn func() string
	Keys  []string
}

// Cur returns the id of the thread holding the baton (-1 outside a run).
func (e *Exec) Cur() int {
	if e.cur == nil {
		return -1
	}
	return e.cur.id
}

// PCs returns, per thread, the number of scheduling points it has passed and
// whether it is finished.
func (e *Exec) PCs() []int {
	out := make([]int, len(e.threads))
	for i, t := range e.threads {
		out[i] = t.pc
		if t.done {
			out[i] = -1
		}
	}
	return out
}

// BlockUntil implements vsync.Scheduler. It must only be called by the
// thread holding the baton.
func (e *Exec) BlockUntil(what string, ok func() bool) {
	t := e.cur
	t.what, t.ok = what, ok
	t.pc++
	e.yield <- struct{}{}
	<-t.resume
}

// Point is BlockUntil without a predicate.
func (e *Exec) Point(what string) { e.BlockUntil(what, nil) }

// Choices returns the choice vector taken.
func (e *Exec) Choices() []int {
	c := make([]int, len(e.Points))
	for i, p := range e.Points {
		c[i] = p.Chosen
	}
	return c
}

// Preemptions counts preemptive choices among the first n points.
func (e *Exec) Preemptions(n int) int {
	c := 0
	for i := 0; i < n && i < len(e.Points); i++ {
		if e.Points[i].RunningEnabled && e.Points[i].Chosen != 0 {
			c++
		}
	}
	return c
}

// Run executes the thread bodies under the scheduler following prefix.
// The bodies receive the Exec so they can be wired to hooks before starting.
func Run(prefix []int, bodies []func(), wire func(e *Exec)) *Exec {
	e := &Exec{yield: make(chan struct{}), prefix: prefix, Watchdog: 30 * time.Second}
	for i, b := range bodies {
		e.threads = append(e.threads, &thread{id: i, fn: b, resume: make(chan struct{})})
	}
	if wire != nil {
		wire(e)
	}
	vsync.Hook = e
	defer func() { vsync.Hook = nil }()
	for _, t := range e.threads {
		t := t
		go func() {
			<-t.resume
			t.fn()
			t.done = true
			e.yield <- struct{}{}
		}()
	}
	for {
		var enabled []*thread
		if e.cur != nil && !e.cur.done && (e.cur.ok == nil || e.cur.ok()) {
			enabled = append(enabled, e.cur)
		}
		runningEnabled := len(enabled) == 1
		unfinished := 0
		for _, t := range e.threads {
			if t.done {
				continue
			}
			unfinished++
			if t == e.cur {
				continue
			}
			if t.ok == nil || t.ok() {
				enabled = append(enabled, t)
			}
		}
		if unfinished == 0 {
			return e
		}
		if len(enabled) == 0 {
			var w []string
			for _, t := range e.threads {
				if !t.done {
					w = append(w, fmt.Sprintf("T%d waits at %s", t.id, t.what))
				}
			}
			e.Deadlock = fmt.Sprint(w)
			e.abandon()
			return e
		}
		idx := 0
		if len(enabled) > 1 {
			i := len(e.Points)
			if i < len(e.prefix) {
				idx = e.prefix[i]
				if idx >= len(enabled) {
					e.Diverged = fmt.Sprintf("point %d has %d enabled threads, prefix wants %d", i, len(enabled), idx)
					e.abandon()
					return e
				}
			}
			ids := make([]int, len(enabled))
			for k, t := range enabled {
				ids[k] = t.id
			}
			e.Points = append(e.Points, Point{Enabled: ids, Chosen: idx, RunningEnabled: runningEnabled})
			if e.KeyFn != nil {
				k := e.KeyFn()
				if runningEnabled {
					k += fmt.Sprintf("|run=%d", e.cur.id)
				}
				e.Keys = append(e.Keys, k)
			}
		}
		t := enabled[idx]
		e.cur = t
		e.Steps++
		e.Trace = append(e.Trace, fmt.Sprintf("T%d:%s", t.id, t.what))
		t.resume <- struct{}{}
		select {
		case <-e.yield:
		case <-time.After(e.Watchdog):
			// Confirm twice more before calling it a wedge.
			ok := false
			for k := 0; k < 2 && !ok; k++ {
				select {
				case <-e.yield:
					ok = true
				case <-time.After(e.Watchdog):
				}
			}
			if !ok {
				e.Wedged = fmt.Sprintf("T%d never reached its next scheduling point after %s (blocked outside the scheduler's view)", t.id, t.what)
				return e
			}
		}
	}
}

// abandon leaves blocked goroutines parked (they are garbage once the
// instance is dropped; a deadlocked execution is reported, not resumed).
func (e *Exec) abandon() {}

// Stats summarises an exploration.
type Stats struct {
	Executions int64
	MaxPoints  int
	MaxSteps   int
	Bound      int
	Capped     bool
	Pruned     int64 // choice points whose alternatives were skipped (state seen before)
	States     int   // distinct state keys expanded
}

// Explore enumerates all executions with at most bound preemptions
// (bound < 0: no bound). run must build a fresh instance, call Run with the
// given prefix and return the execution; check is applied to every complete
// execution. shard/nshards split the first-level subtrees across processes.
// maxExec caps the number of executions (0 = none).
func Explore(bound int, shard, nshards int, maxExec int64, run func(prefix []int) *Exec, check func(e *Exec) bool) (Stats, error) {
	return ExplorePruned(bound, shard, nshards, maxExec, false, run, check)
}

// ExplorePruned is Explore with optional visited-state pruning (only sound
// without a preemption bound, i.e. bound < 0: a state's remaining budget is
// not part of its key): the alternatives at a choice point are expanded only
// the first time its state key is seen.
func ExplorePruned(bound int, shard, nshards int, maxExec int64, prune bool, run func(prefix []int) *Exec, check func(e *Exec) bool) (Stats, error) {
	st := Stats{Bound: bound}
	visited := map[string]bool{}
	if prune && bound >= 0 {
		return st, fmt.Errorf("visited-state pruning requires unbounded exploration")
	}
	var top int
	var rec func(prefix []int, depth int) (bool, error)
	rec = func(prefix []int, depth int) (bool, error) {
		doRun := !(depth == 0 && shard != 0)
		var x *Exec
		x = run(prefix)
		if x.Diverged != "" {
			return false, fmt.Errorf("divergence while replaying prefix %v: %s", prefix, x.Diverged)
		}
		if doRun {
			st.Executions++
			if len(x.Points) > st.MaxPoints {
				st.MaxPoints = len(x.Points)
			}
			if x.Steps > st.MaxSteps {
				st.MaxSteps = x.Steps
			}
			if !check(x) {
				return false, nil
			}
			if maxExec > 0 && st.Executions >= maxExec {
				st.Capped = true
				return false, nil
			}
		}
		if x.Deadlock != "" || x.Wedged != "" {
			return true, nil
		}
		for i := len(prefix); i < len(x.Points); i++ {
			p := x.Points[i]
			if prune {
				if i >= len(x.Keys) {
					return false, fmt.Errorf("pruning requested but no state key at point %d", i)
				}
				if visited[x.Keys[i]] {
					st.Pruned++
					continue
				}
				visited[x.Keys[i]] = true
			}
			cost := x.Preemptions(i)
			for alt := 1; alt < len(p.Enabled); alt++ {
				c := cost
				if p.RunningEnabled {
					c++
				}
				if bound >= 0 && c > bound {
					continue
				}
				if depth == 0 {
					mine := top%nshards == shard
					top++
					if !mine {
						continue
					}
				}
				np := make([]int, i+1)
				for j := 0; j < i; j++ {
					np[j] = x.Points[j].Chosen
				}
				np[i] = alt
				cont, err := rec(np, depth+1)
				if err != nil || !cont {
					return false, err
				}
			}
		}
		return true, nil
	}
	_, err := rec(nil, 0)
	st.States = len(visited)
	return st, err
}
