// Package ev writes evidence files, replay files and VIOLATION /
// KNOWN-FINDING lines, and loads the committed known-findings file.
package ev

import (
	"crypto/sha256"
	"encoding/json"
	"fmt"
	"os"
	"path/filepath"
	"sort"
	"strconv"
	"sync"
	"time"
)

// Root is /verif (overridable for tests).
var Root = func() string {
	if r := os.Getenv("VERIF_ROOT"); r != "" {
		return r
	}
	return "/verif"
}()

// Seed returns VERIF_SEED (default 1).
func Seed() int64 {
	if s := os.Getenv("VERIF_SEED"); s != "" {
		if v, err := strconv.ParseInt(s, 10, 64); err == nil {
			return v
		}
	}
	return 1
}

// Run accumulates what one check run covered.
type Run struct {
	Property string
	Tier     string
	Level    string
	start    time.Time

	mu         sync.Mutex
	Cov        map[string]any
	counters   map[string]int64
	hist       map[string]map[string]int64
	samples    []any
	maxSamples int
	Assume     []string
	violations []Violation
	known      []string
	kf         *KnownFindings
	distinct   map[string]bool
	vacuous    []string
	// Scratch runs (replays) neither write evidence nor replay files.
	Scratch bool
}

// Vacuous records that a class the check must exercise was never exercised.
// It is an internal error (exit 2) unless violations were found, in which
// case the violations are what gets reported.
func (r *Run) Vacuous(format string, a ...any) {
	r.mu.Lock()
	r.vacuous = append(r.vacuous, fmt.Sprintf(format, a...))
	r.mu.Unlock()
}

// Violation is one reported violation.
type Violation struct {
	Signature string         `json:"signature"`
	What      string         `json:"what"`
	Replay    map[string]any `json:"replay"`
	path      string
}

// NewRun starts a run.
// ForceScratch makes every new run a scratch run (used by the generic
// replayer, which re-executes a whole check and looks for one signature).
var ForceScratch bool

// OnlySignature, when set, restricts what a scratch run reports as
// reproduced to that violation signature.
var OnlySignature string

func NewRun(property, tier, level string) *Run {
	r := &Run{Property: property, Tier: tier, Level: level, start: time.Now(),
		Cov: map[string]any{}, counters: map[string]int64{}, hist: map[string]map[string]int64{},
		maxSamples: 12, distinct: map[string]bool{}}
	r.Scratch = ForceScratch
	kf, err := LoadKnownFindings()
	if err != nil {
		fmt.Fprintf(os.Stderr, "INTERNAL: known findings: %v\n", err)
		os.Exit(2)
	}
	r.kf = kf
	return r
}

// Add increments a counter.
func (r *Run) Add(name string, n int64) {
	r.mu.Lock()
	r.counters[name] += n
	r.mu.Unlock()
}

// Get reads a counter.
func (r *Run) Get(name string) int64 {
	r.mu.Lock()
	defer r.mu.Unlock()
	return r.counters[name]
}

// Hist increments histogram h at key k.
func (r *Run) Hist(h, k string) {
	r.mu.Lock()
	if r.hist[h] == nil {
		r.hist[h] = map[string]int64{}
	}
	r.hist[h][k]++
	r.mu.Unlock()
}

// HistKeys returns the number of distinct keys seen in histogram h.
func (r *Run) HistKeys(h string) int {
	r.mu.Lock()
	defer r.mu.Unlock()
	return len(r.hist[h])
}

// HistGet returns one histogram cell.
func (r *Run) HistGet(h, k string) int64 {
	r.mu.Lock()
	defer r.mu.Unlock()
	return r.hist[h][k]
}

// Distinct records a distinct non-trivial case key; returns true if new.
func (r *Run) Distinct(key string) bool {
	r.mu.Lock()
	defer r.mu.Unlock()
	if r.distinct[key] {
		return false
	}
	r.distinct[key] = true
	return true
}

// Sample keeps up to maxSamples actual cases.
func (r *Run) Sample(s any) {
	r.mu.Lock()
	if len(r.samples) < r.maxSamples {
		r.samples = append(r.samples, s)
	}
	r.mu.Unlock()
}

// Set sets a coverage key.
func (r *Run) Set(k string, v any) {
	r.mu.Lock()
	r.Cov[k] = v
	r.mu.Unlock()
}

// Assumption records an assumption.
func (r *Run) Assumption(s string) {
	r.mu.Lock()
	r.Assume = append(r.Assume, s)
	r.mu.Unlock()
}

// Report records a violation (or a known finding if its signature is listed
// as open in known_findings.json). signature is a narrow, stable identifier of
// what fails; what is a human-readable description; replay is the replay body.
func (r *Run) Report(signature, what string, replay map[string]any) {
	r.mu.Lock()
	defer r.mu.Unlock()
	if r.kf.IsOpen(r.Property, signature) {
		for _, k := range r.known {
			if k == signature {
				return
			}
		}
		r.known = append(r.known, signature)
		r.hist2("known_findings", signature)
		return
	}
	for _, v := range r.violations {
		if v.Signature == signature {
			return
		}
	}
	if len(r.violations) >= 20 {
		return
	}
	if replay == nil {
		replay = map[string]any{}
	}
	replay["property"] = r.Property
	replay["signature"] = signature
	replay["what"] = what
	replay["seed"] = Seed()
	b, _ := json.MarshalIndent(replay, "", " ")
	if r.Scratch {
		r.violations = append(r.violations, Violation{Signature: signature, What: what, Replay: replay})
		return
	}
	d := sha256.Sum256(append([]byte(r.Property+"|"+signature+"|"), b...))
	dir := filepath.Join(Root, "replays")
	_ = os.MkdirAll(dir, 0o755)
	p := filepath.Join(dir, fmt.Sprintf("%s-%x.json", r.Property, d[:6]))
	_ = os.WriteFile(p, b, 0o644)
	r.violations = append(r.violations, Violation{Signature: signature, What: what, Replay: replay, path: p})
}

func (r *Run) hist2(h, k string) {
	if r.hist[h] == nil {
		r.hist[h] = map[string]int64{}
	}
	r.hist[h][k]++
}

// List returns the violations recorded so far (used by worker processes that
// hand their findings to the parent).
func (r *Run) List() []Violation {
	r.mu.Lock()
	defer r.mu.Unlock()
	return append([]Violation{}, r.violations...)
}

// Violations returns the number of (unlisted) violations so far.
func (r *Run) Violations() int {
	r.mu.Lock()
	defer r.mu.Unlock()
	return len(r.violations)
}

// Internal aborts the run with exit code 2 (harness error: neither pass nor
// violation).
func Internal(format string, a ...any) {
	fmt.Printf("INTERNAL-ERROR: "+format+"\n", a...)
	os.Exit(2)
}

// Finish writes the evidence file, prints findings and returns the exit code.
func (r *Run) Finish() int {
	r.mu.Lock()
	defer r.mu.Unlock()
	cov := map[string]any{}
	for k, v := range r.Cov {
		cov[k] = v
	}
	for k, v := range r.counters {
		if _, dup := cov[k]; !dup {
			cov[k] = v
		}
	}
	hs := map[string]any{}
	for h, m := range r.hist {
		hs[h] = m
	}
	if len(hs) > 0 {
		cov["histograms"] = hs
	}
	if _, ok := cov["samples"]; !ok {
		cov["samples"] = r.samples
	}
	if _, ok := cov["distinct_nontrivial"]; !ok {
		cov["distinct_nontrivial"] = len(r.distinct)
	}
	evd := map[string]any{
		"property_id":            r.Property,
		"tier":                   r.Tier,
		"seed":                   Seed(),
		"level":                  r.Level,
		"coverage":               cov,
		"assumptions":            r.Assume,
		"wall_s":                 time.Since(r.start).Seconds(),
		"violations":             len(r.violations),
		"known_findings_matched": r.known,
	}
	if r.Assume == nil {
		evd["assumptions"] = []string{}
	}
	if r.Scratch {
		if OnlySignature != "" {
			var keep []Violation
			for _, v := range r.violations {
				if v.Signature == OnlySignature {
					keep = append(keep, v)
				}
			}
			if len(keep) == 0 && len(r.violations) > 0 {
				fmt.Printf("the recorded signature did not reappear; %d other violation(s) of %s did:\n", len(r.violations), r.Property)
				keep = r.violations
			}
			r.violations = keep
		}
		for _, v := range r.violations {
			fmt.Printf("REPRODUCED property=%s\n  signature: %s\n  what: %s\n", r.Property, v.Signature, v.What)
		}
		for _, k := range r.known {
			fmt.Printf("REPRODUCED (known finding) property=%s %s\n", r.Property, k)
		}
		if len(r.violations)+len(r.known) == 0 {
			fmt.Println("not reproduced: the recorded case behaves as the property demands on this tree")
			return 0
		}
		return 1
	}
	b, _ := json.MarshalIndent(evd, "", " ")
	dir := filepath.Join(Root, "evidence")
	_ = os.MkdirAll(dir, 0o755)
	if err := os.WriteFile(filepath.Join(dir, r.Property+".json"), append(b, '\n'), 0o644); err != nil {
		fmt.Printf("INTERNAL-ERROR: write evidence: %v\n", err)
		return 2
	}
	sort.Strings(r.known)
	for _, k := range r.known {
		fmt.Printf("KNOWN-FINDING: property=%s %s\n", r.Property, r.kf.Describe(r.Property, k))
	}
	for _, v := range r.violations {
		fmt.Printf("VIOLATION property=%s replay=%s\n  signature: %s\n  what: %s\n", r.Property, v.path, v.Signature, v.What)
	}
	if len(r.violations) > 0 {
		return 1
	}
	if len(r.vacuous) > 0 {
		for _, v := range r.vacuous {
			fmt.Printf("INTERNAL-ERROR: vacuous: %s\n", v)
		}
		return 2
	}
	fmt.Printf("OK property=%s tier=%s wall=%.1fs\n", r.Property, r.Tier, time.Since(r.start).Seconds())
	return 0
}

// KnownFindings is the committed file /verif/known_findings.json.
type KnownFindings struct {
	Open []struct {
		Property  string `json:"property"`
		Signature string `json:"signature"`
		What      string `json:"what"`
	} `json:"open"`
	Fixed []string `json:"fixed"`
}

// LoadKnownFindings reads the file (missing file = no findings).
func LoadKnownFindings() (*KnownFindings, error) {
	kf := &KnownFindings{}
	b, err := os.ReadFile(filepath.Join(Root, "known_findings.json"))
	if os.IsNotExist(err) {
		return kf, nil
	}
	if err != nil {
		return nil, err
	}
	if err := json.Unmarshal(b, kf); err != nil {
		return nil, err
	}
	return kf, nil
}

// IsOpen reports whether (property, signature) is a listed open finding.
func (k *KnownFindings) IsOpen(property, signature string) bool {
	for _, o := range k.Open {
		if o.Property == property && o.Signature == signature {
			return true
		}
	}
	return false
}

// Describe returns "<signature>: <what>" for a listed finding.
func (k *KnownFindings) Describe(property, signature string) string {
	for _, o := range k.Open {
		if o.Property == property && o.Signature == signature {
			return signature + " — " + o.What
		}
	}
	return signature
}
