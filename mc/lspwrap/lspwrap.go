// Package lspwrap wraps a persistence.LogStatePersistence. Around every call
// it (a) offers a scheduling point, (b) asks a fault hook for the call's
// answer, (c) records handle accounting (every write handle, whether it was
// Set, whether it was Closed) and a call trace.
package lspwrap

import (
	"sync"

	"github.com/transparency-dev/witness/internal/persistence"
)

// Hooks customise the wrapper; every field is optional.
type Hooks struct {
	// Point is called before each forwarded call (scheduling point). op is
	// one of Init, Logs, ReadOps, WriteOps, r.GetLatest, w.GetLatest, w.Set,
	// w.Close.
	Point func(op, logID string)
	// Fault is asked before each forwarded call; a non-nil error is returned
	// instead of performing the call, unless after is true, in which case the
	// call is performed first and the error reported afterwards (used for
	// "Set took effect but reported failure").
	Fault func(op, logID string) (err error, after bool)
	// Observe is told the result of each call.
	Observe func(op, logID string, data []byte, err error)
}

// Handle is the accounting record of one write handle.
type Handle struct {
	LogID   string
	SetN    int
	SetOK   bool
	Closed  int
	SetData []byte
}

// P is the wrapper.
type P struct {
	In persistence.LogStatePersistence
	H  Hooks

	mu      sync.Mutex
	Handles []*Handle
	Calls   []string
}

// New wraps in.
func New(in persistence.LogStatePersistence, h Hooks) *P { return &P{In: in, H: h} }

func (p *P) point(op, id string) {
	p.mu.Lock()
	p.Calls = append(p.Calls, op)
	p.mu.Unlock()
	if p.H.Point != nil {
		p.H.Point(op, id)
	}
}

func (p *P) fault(op, id string) (error, bool) {
	if p.H.Fault != nil {
		return p.H.Fault(op, id)
	}
	return nil, false
}

func (p *P) obs(op, id string, d []byte, err error) {
	if p.H.Observe != nil {
		p.H.Observe(op, id, d, err)
	}
}

// OpenHandles returns the write handles that were never closed.
func (p *P) OpenHandles() int {
	p.mu.Lock()
	defer p.mu.Unlock()
	n := 0
	for _, h := range p.Handles {
		if h.Closed == 0 {
			n++
		}
	}
	return n
}

// ResetAccounting forgets handles and calls.
func (p *P) ResetAccounting() {
	p.mu.Lock()
	p.Handles, p.Calls = nil, nil
	p.mu.Unlock()
}

// Snapshot returns copies of the accounting.
func (p *P) Snapshot() ([]Handle, []string) {
	p.mu.Lock()
	defer p.mu.Unlock()
	hs := make([]Handle, 0, len(p.Handles))
	for _, h := range p.Handles {
		hs = append(hs, *h)
	}
	return hs, append([]string(nil), p.Calls...)
}

func (p *P) Init() error {
	p.point("Init", "")
	if err, _ := p.fault("Init", ""); err != nil {
		return err
	}
	return p.In.Init()
}

func (p *P) Logs() ([]string, error) {
	p.point("Logs", "")
	if err, _ := p.fault("Logs", ""); err != nil {
		p.obs("Logs", "", nil, err)
		return nil, err
	}
	l, err := p.In.Logs()
	p.obs("Logs", "", nil, err)
	return l, err
}

func (p *P) ReadOps(id string) (persistence.LogStateReadOps, error) {
	p.point("ReadOps", id)
	if err, _ := p.fault("ReadOps", id); err != nil {
		return nil, err
	}
	r, err := p.In.ReadOps(id)
	p.obs("ReadOps", id, nil, err)
	if err != nil {
		return nil, err
	}
	return &reader{p: p, id: id, in: r}, nil
}

func (p *P) WriteOps(id string) (persistence.LogStateWriteOps, error) {
	p.point("WriteOps", id)
	if err, _ := p.fault("WriteOps", id); err != nil {
		p.obs("WriteOps", id, nil, err)
		return nil, err
	}
	w, err := p.In.WriteOps(id)
	p.obs("WriteOps", id, nil, err)
	if err != nil {
		return nil, err
	}
	h := &Handle{LogID: id}
	p.mu.Lock()
	p.Handles = append(p.Handles, h)
	p.mu.Unlock()
	return &writer{p: p, id: id, in: w, h: h}, nil
}

type reader struct {
	p  *P
	id string
	in persistence.LogStateReadOps
}

func (r *reader) GetLatest() ([]byte, error) {
	r.p.point("r.GetLatest", r.id)
	if err, _ := r.p.fault("r.GetLatest", r.id); err != nil {
		r.p.obs("r.GetLatest", r.id, nil, err)
		return nil, err
	}
	b, err := r.in.GetLatest()
	r.p.obs("r.GetLatest", r.id, b, err)
	return b, err
}

type writer struct {
	p  *P
	id string
	in persistence.LogStateWriteOps
	h  *Handle
}

func (w *writer) GetLatest() ([]byte, error) {
	w.p.point("w.GetLatest", w.id)
	if err, _ := w.p.fault("w.GetLatest", w.id); err != nil {
		w.p.obs("w.GetLatest", w.id, nil, err)
		return nil, err
	}
	b, err := w.in.GetLatest()
	w.p.obs("w.GetLatest", w.id, b, err)
	return b, err
}

func (w *writer) Set(c []byte) error {
	w.p.point("w.Set", w.id)
	w.p.mu.Lock()
	w.h.SetN++
	w.h.SetData = append([]byte(nil), c...)
	w.p.mu.Unlock()
	ferr, after := w.p.fault("w.Set", w.id)
	if ferr != nil && !after {
		w.p.obs("w.Set", w.id, nil, ferr)
		return ferr
	}
	err := w.in.Set(c)
	if err == nil {
		w.p.mu.Lock()
		w.h.SetOK = true
		w.p.mu.Unlock()
	}
	if err == nil && ferr != nil {
		err = ferr
	}
	w.p.obs("w.Set", w.id, c, err)
	return err
}

func (w *writer) Close() error {
	w.p.point("w.Close", w.id)
	w.p.mu.Lock()
	w.h.Closed++
	w.p.mu.Unlock()
	ferr, _ := w.p.fault("w.Close", w.id)
	err := w.in.Close()
	if ferr != nil {
		err = ferr
	}
	w.p.obs("w.Close", w.id, nil, err)
	return err
}
