package checks

import (
	"bytes"
	"encoding/base64"
	"encoding/json"
	"fmt"
	"hash/fnv"
	"io"
	"math"
	"os"
	"os/exec"
	"path/filepath"
	"strconv"
	"strings"
	"sync"
	"sync/atomic"

	"github.com/transparency-dev/witness/internal/feeder/bastion"
	"github.com/transparency-dev/witness/internal/witness"
	"github.com/transparency-dev/witness/verifmc/ev"
	"github.com/transparency-dev/witness/verifmc/uni"
	"github.com/transparency-dev/witness/verifmc/wh"
)

func init() { Registry["C11"] = c11 }

// refBody is the reference reading of an add-checkpoint body, written from
// c2sp.org/tlog-witness. Class is "accept" (strictly well-formed: these exact
// values must come back), "refuse" (one of the three classes the property
// names) or "unspecified" (a leniency the property does not name).
type refBody struct {
	Class string
	Why   string
	Old   uint64
	Proof [][]byte
	CP    []byte
}

const b64alpha = "ABCDEFGHIJKLMNOPQRSTUVWXYZabcdefghijklmnopqrstuvwxyz0123456789+/"

func refParse(body []byte) refBody {
	lenient := false
	line := func(b []byte) (l []byte, rest []byte, ok bool) {
		i := bytes.IndexByte(b, '\n')
		if i < 0 {
			if len(b) == 0 {
				return nil, nil, false
			}
			// Last line without terminator.
			return b, nil, true
		}
		return b[:i], b[i+1:], true
	}
	stripCR := func(l []byte) []byte {
		if len(l) > 0 && l[len(l)-1] == '\r' {
			lenient = true
			return l[:len(l)-1]
		}
		return l
	}
	l, rest, ok := line(body)
	if !ok {
		return refBody{Class: "refuse", Why: "no old-size line"}
	}
	terminated := len(body) > len(l)
	l = stripCR(l)
	if len(l) >= 4096 {
		return refBody{Class: "unspecified", Why: "line longer than the reader's buffer"}
	}
	num, has := strings.CutPrefix(string(l), "old ")
	if !has || num == "" {
		return refBody{Class: "refuse", Why: "no well-formed old-size line"}
	}
	for _, c := range num {
		if c < '0' || c > '9' {
			return refBody{Class: "refuse", Why: "no well-formed old-size line"}
		}
	}
	old, err := strconv.ParseUint(num, 10, 64)
	if err != nil {
		return refBody{Class: "refuse", Why: "old size out of range"}
	}
	if len(num) > 1 && num[0] == '0' {
		lenient = true
	}
	if !terminated {
		return refBody{Class: "refuse", Why: "ends before the blank separator"}
	}
	proof := [][]byte{}
	for {
		l, r2, ok := line(rest)
		if !ok {
			return refBody{Class: "refuse", Why: "ends before the blank separator"}
		}
		term := len(rest) > len(l)
		rest = r2
		l = stripCR(l)
		if len(l) >= 4096 {
			return refBody{Class: "unspecified", Why: "line longer than the reader's buffer"}
		}
		if len(l) == 0 {
			if !term {
				return refBody{Class: "refuse", Why: "ends before the blank separator"}
			}
			break
		}
		// Strict padded standard base64; embedded CR is a leniency of the
		// decoder, anything outside the alphabet is "not base64".
		s := string(l)
		if strings.ContainsRune(s, '\r') {
			lenient = true
			s = strings.ReplaceAll(s, "\r", "")
		}
		pad := 0
		for i, c := range s {
			if c == '=' {
				pad++
				if i < len(s)-2 {
					return refBody{Class: "refuse", Why: "proof line is not base64"}
				}
				continue
			}
			if pad > 0 || !strings.ContainsRune(b64alpha, c) {
				return refBody{Class: "refuse", Why: "proof line is not base64"}
			}
		}
		if len(s)%4 != 0 || pad > 2 {
			return refBody{Class: "refuse", Why: "proof line is not base64"}
		}
		h, err := base64.StdEncoding.Strict().DecodeString(s)
		if err != nil {
			// Non-canonical trailing bits: accepted by the non-strict decoder.
			h2, err2 := base64.StdEncoding.DecodeString(s)
			if err2 != nil {
				return refBody{Class: "refuse", Why: "proof line is not base64"}
			}
			lenient = true
			h = h2
		}
		if !term {
			return refBody{Class: "refuse", Why: "ends before the blank separator"}
		}
		proof = append(proof, h)
	}
	cls := "accept"
	if lenient {
		cls = "unspecified"
	}
	return refBody{Class: cls, Old: old, Proof: proof, CP: rest}
}

var (
	c11Mu   sync.Mutex
	c11Seen = map[uint64]struct{}{}
)

func c11Mark(b []byte) {
	h := fnv.New64a()
	h.Write(b)
	k := h.Sum64()
	c11Mu.Lock()
	c11Seen[k] = struct{}{}
	c11Mu.Unlock()
}

func c11Distinct() int {
	c11Mu.Lock()
	defer c11Mu.Unlock()
	return len(c11Seen)
}

// c11Reader delivers a body the way a network peer may: in pieces. The
// delivery pattern is an environment answer, so it is enumerated: whole (0
// deviations), one short read at every position (1 deviation), one byte at a
// time and fixed chunks (every read short).
type c11Reader struct {
	b    []byte
	cuts []int // absolute offsets at which a Read must stop; nil = no stops
	step int   // > 0: at most step bytes per Read
	// eofWithData: the last bytes are returned TOGETHER with io.EOF (as an
	// HTTP/1.x body with Content-Length and iotest.DataErrReader do).
	eofWithData bool
}

func (r *c11Reader) Read(p []byte) (int, error) {
	if len(r.b) == 0 {
		return 0, io.EOF
	}
	n := len(p)
	if n > len(r.b) {
		n = len(r.b)
	}
	if r.step > 0 && n > r.step {
		n = r.step
	}
	if len(r.cuts) > 0 && n >= r.cuts[0] {
		n = r.cuts[0]
		r.cuts = r.cuts[1:]
		for i := range r.cuts {
			r.cuts[i] -= n
		}
		if n == 0 {
			return r.Read(p)
		}
	} else {
		for i := range r.cuts {
			r.cuts[i] -= n
		}
	}
	copy(p, r.b[:n])
	r.b = r.b[n:]
	if r.eofWithData && len(r.b) == 0 {
		return n, io.EOF
	}
	return n, nil
}

type c11Parse struct {
	old   uint64
	proof [][]byte
	cp    []byte
	err   error
	pan   any
}

func c11ParseVia(r io.Reader) (o c11Parse) {
	defer func() { o.pan = recover() }()
	o.old, o.proof, o.cp, o.err = bastion.VerifParseBody(r)
	return
}

func (a c11Parse) same(b c11Parse) bool {
	return a.old == b.old && eqProof(a.proof, b.proof) && bytes.Equal(a.cp, b.cp) && (a.err == nil) == (b.err == nil) && (a.pan == nil) == (b.pan == nil) && (a.proof == nil) == (b.proof == nil) && (a.cp == nil) == (b.cp == nil)
}

var c11Deliveries atomic.Int64

// c11Delivery: the reading of a body must not depend on how its bytes arrive.
// Every body is re-read one byte at a time and in 3- and 4096-byte pieces;
// with splits=true also with one short read at every offset.
func c11Delivery(run *ev.Run, body []byte, whole c11Parse, splits bool) {
	chk := func(label string, r io.Reader) {
		c11Deliveries.Add(1)
		if got := c11ParseVia(r); !got.same(whole) {
			run.Report("delivery-dependent-reading delivery="+label[:strings.IndexByte(label+" ", ' ')], fmt.Sprintf("body %q (%d bytes) read whole gives (old=%d, %d hashes, %d checkpoint bytes, err=%v) but delivered %s gives (old=%d, %d hashes, %d bytes, err=%v, panic=%v)", short(string(body)), len(body), whole.old, len(whole.proof), len(whole.cp), whole.err, label, got.old, len(got.proof), len(got.cp), got.err, got.pan),
				map[string]any{"kind": "parse-body", "body_b64": base64.StdEncoding.EncodeToString(body), "origin": "delivery"})
		}
	}
	chk("bytewise", &c11Reader{b: body, step: 1})
	chk("chunks-of-3", &c11Reader{b: body, step: 3})
	chk("whole-eof-with-data", &c11Reader{b: body, eofWithData: true})
	chk("chunks-of-3-eof-with-data", &c11Reader{b: body, step: 3, eofWithData: true})
	if len(body) > 4096 {
		chk("chunks-of-4096", &c11Reader{b: body, step: 4096})
		chk("chunks-of-4095", &c11Reader{b: body, step: 4095})
		chk("chunks-of-4096-eof-with-data", &c11Reader{b: body, step: 4096, eofWithData: true})
		chk("chunks-of-5000-eof-with-data", &c11Reader{b: body, step: 5000, eofWithData: true})
	}
	if splits {
		for i := 1; i < len(body); i++ {
			chk(fmt.Sprintf("split-at %d", i), &c11Reader{b: body, cuts: []int{i}})
			chk(fmt.Sprintf("split-at-eof-with-data %d", i), &c11Reader{b: body, cuts: []int{i}, eofWithData: true})
		}
		if len(body) <= 600 {
			for i := 1; i < len(body); i++ {
				for j := i + 1; j < len(body); j++ {
					chk(fmt.Sprintf("split-at %d,%d", i, j), &c11Reader{b: body, cuts: []int{i, j}})
				}
			}
		}
	}
}

func c11Judge(run *ev.Run, body []byte, origin string) {
	c11Mark(body)
	ref := refParse(body)
	var old uint64
	var proof [][]byte
	var cp []byte
	var err error
	if pan := func() (p any) {
		defer func() { p = recover() }()
		old, proof, cp, err = bastion.VerifParseBody(bytes.NewReader(body))
		return nil
	}(); pan != nil {
		run.Report("parser-panicked class="+ref.Class, fmt.Sprintf("parseBody panicked on %q: %v (a panic is not a refusal)", short(string(body)), pan), map[string]any{"kind": "parse-body", "body_b64": base64.StdEncoding.EncodeToString(body)})
		return
	}
	run.Hist("reference_classes", ref.Class)
	c11Delivery(run, body, c11Parse{old: old, proof: proof, cp: cp, err: err}, origin == "delivery-seed")
	rep := map[string]any{"kind": "parse-body", "body_b64": base64.StdEncoding.EncodeToString(body), "origin": origin}
	short := string(body)
	if len(short) > 80 {
		short = short[:80] + "..."
	}
	switch ref.Class {
	case "accept":
		if err != nil {
			run.Report("well-formed-body-refused", fmt.Sprintf("well-formed body %q refused: %v", short, err), rep)
			return
		}
		if old != ref.Old || !eqProof(proof, ref.Proof) || !bytes.Equal(cp, ref.CP) {
			run.Report("round-trip-mismatch "+mismatchKind(old, ref.Old, proof, ref.Proof, cp, ref.CP), fmt.Sprintf("body %q parsed to old=%d, %d hashes, %d checkpoint bytes; written were old=%d, %d hashes, %d bytes", short, old, len(proof), len(cp), ref.Old, len(ref.Proof), len(ref.CP)), rep)
		}
	case "refuse":
		if err == nil {
			run.Report("malformed-body-understood why="+ref.Why, fmt.Sprintf("body %q (%s) was not refused: parsed as old=%d with %d proof hashes and %d checkpoint bytes", short, ref.Why, old, len(proof), len(cp)), rep)
			return
		}
		if old != 0 || proof != nil || cp != nil {
			run.Report("refusal-returned-data why="+ref.Why, fmt.Sprintf("body %q refused (%v) but data came back: old=%d proof=%v cp=%q", short, err, old, proof, cp), rep)
		}
	default:
		run.Hist("unspecified_accepted", fmt.Sprintf("%s:%v", ref.Why, err == nil))
		if err != nil && (old != 0 || proof != nil || cp != nil) {
			run.Report("refusal-returned-data why=unspecified", fmt.Sprintf("body %q refused (%v) but data came back", short, err), rep)
		}
	}
}

// c11Shape abstracts the first line for violation signatures.
func c11Shape(body []byte) string {
	l := string(body)
	if i := strings.IndexByte(l, '\n'); i >= 0 {
		l = l[:i]
	}
	var sb strings.Builder
	prev := byte(0)
	for i := 0; i < len(l) && sb.Len() < 24; i++ {
		c := l[i]
		k := c
		switch {
		case c >= '0' && c <= '9':
			k = '9'
		case c >= 'a' && c <= 'z' || c >= 'A' && c <= 'Z':
			k = 'a'
		}
		if k == prev && (k == '9' || k == 'a') {
			continue
		}
		prev = k
		if c == '\r' {
			sb.WriteString("\\r")
		} else {
			sb.WriteByte(k)
		}
	}
	return sb.String()
}

func eqProof(a, b [][]byte) bool {
	if len(a) != len(b) {
		return false
	}
	for i := range a {
		if !bytes.Equal(a[i], b[i]) {
			return false
		}
	}
	return true
}

func mismatchKind(o1, o2 uint64, p1, p2 [][]byte, c1, c2 []byte) string {
	switch {
	case o1 != o2:
		return "old-size"
	case !eqProof(p1, p2):
		return "proof"
	}
	return "checkpoint-bytes"
}

func c11(tier string) int {
	run := ev.NewRun("C11", tier, "exploration")
	u := uni.New(ev.Seed(), 8, nil)
	gen := wh.NewCPGen(u)
	la := wh.LogCfg{Origin: logA(), Key: u.K1}
	real4, _ := gen.Get(la, u.Main, 4, "plain")
	realExt, _ := gen.Get(la, u.Main, 5, "ext")
	real6k, _ := gen.Get(la, u.Main, 6, "pad6000")
	real4k, _ := gen.Get(la, u.Main, 7, "pad4096")
	var evals int64

	// ---- generator side: round trip of written bodies.
	olds := []uint64{0, 1, 9, 10, 99, math.MaxUint32, 1 << 32, math.MaxInt64, 1 << 63, math.MaxUint64}
	var proofs [][][]byte
	for n := 0; n <= 64; n++ {
		var p [][]byte
		for i := 0; i < n; i++ {
			h := make([]byte, 32)
			for j := range h {
				h[j] = byte(i*7 + j*3 + n)
			}
			p = append(p, h)
		}
		proofs = append(proofs, p)
	}
	lens := []int{1, 2, 3, 31, 32, 33, 63, 64}
	// ... and of every other boundary hash length (64 x 64 bytes makes the
	// part before the separator longer than a 4096-byte read buffer).
	for _, l := range []int{1, 33, 63, 64} {
		for n := 1; n <= 64; n++ {
			var p [][]byte
			for i := 0; i < n; i++ {
				h := make([]byte, l)
				for j := range h {
					h[j] = byte(i*11 + j*5 + n + l)
				}
				p = append(p, h)
			}
			proofs = append(proofs, p)
		}
	}
	fills := []func(n int) []byte{
		func(n int) []byte { return bytes.Repeat([]byte{0x00}, n) },
		func(n int) []byte { return bytes.Repeat([]byte{0xff}, n) },
		func(n int) []byte { return bytes.Repeat([]byte{0xfb, 0xef, 0xbe}, n)[:n] }, // base64 '+' heavy
		func(n int) []byte { return bytes.Repeat([]byte{0xff, 0xff, 0xfc}, n)[:n] }, // '/' heavy
	}
	var hashes [][]byte
	for _, l := range lens {
		for _, f := range fills {
			hashes = append(hashes, f(l))
		}
	}
	maxList := 2
	if tier == "thorough" {
		maxList = 3
	}
	var rec func(cur [][]byte)
	rec = func(cur [][]byte) {
		if len(cur) > 0 {
			proofs = append(proofs, append([][]byte{}, cur...))
		}
		if len(cur) == maxList {
			return
		}
		for _, h := range hashes {
			rec(append(cur, h))
		}
	}
	rec(nil)
	chunks := []string{"x", "\n", "\n\n", "\r\n", "\xff", "— n AAAA\n", ""}
	var cps [][]byte
	var recC func(cur string, d int)
	seenCP := map[string]bool{}
	recC = func(cur string, d int) {
		if !seenCP[cur] {
			seenCP[cur] = true
			cps = append(cps, []byte(cur))
		}
		if d == 4 {
			return
		}
		for _, c := range chunks {
			recC(cur+c, d+1)
		}
	}
	recC("", 0)
	cps = append(cps, real4, realExt, real6k, real4k)
	// Checkpoints around every power-of-two length up to 1 MiB (a size cap or
	// a fixed buffer cuts at one of them): a really signed checkpoint padded
	// to exactly that many bytes.
	for k := 13; k <= 20; k++ {
		for _, d := range []int{-1, 0, 1} {
			big, _ := gen.Get(la, u.Main, 7, fmt.Sprintf("pad%d", (1<<k)+d))
			cps = append(cps, big)
		}
	}
	run.Set("roundtrip_old_sizes", len(olds))
	run.Set("roundtrip_proofs", len(proofs))
	run.Set("roundtrip_checkpoints", len(cps))
	// Retention: what parseBody returned for the PREVIOUS body must still be
	// what it returned after the next body has been parsed (a result that
	// aliases a reused buffer changes under the caller's feet).
	var prevBody, prevCP, prevCPCopy []byte
	var prevProof, prevProofCopy [][]byte
	retained := func() {
		if prevBody == nil {
			return
		}
		run.Add("retention_checks", 1)
		if !bytes.Equal(prevCP, prevCPCopy) || !eqProof(prevProof, prevProofCopy) {
			what := "checkpoint bytes"
			if bytes.Equal(prevCP, prevCPCopy) {
				what = "proof hashes"
			}
			run.Report("result-not-retained "+strings.ReplaceAll(what, " ", "-"), fmt.Sprintf("the %s parseBody returned for body %q changed when the next body was parsed", what, short(string(prevBody))),
				map[string]any{"kind": "parse-body", "body_b64": base64.StdEncoding.EncodeToString(prevBody), "origin": "retention"})
		}
	}
	rt := func(old uint64, p [][]byte, cp []byte, writer string) {
		var body []byte
		if writer == "harness" {
			body = c10Body(old, p, cp)
		} else {
			// Shape of cmd/feedbastion/main.go:131-136 (string concatenation).
			s := fmt.Sprintf("old %d\n", old)
			for _, h := range p {
				s += base64.StdEncoding.EncodeToString(h) + "\n"
			}
			s += "\n"
			s += string(cp)
			body = []byte(s)
		}
		gold, gp, gcp, err := bastion.VerifParseBody(bytes.NewReader(body))
		evals++
		c11Mark(body)
		retained()
		prevBody, prevCP, prevProof = body, gcp, gp
		prevCPCopy = append([]byte{}, gcp...)
		prevProofCopy = nil
		for _, h := range gp {
			prevProofCopy = append(prevProofCopy, append([]byte{}, h...))
		}
		c11Delivery(run, body, c11Parse{old: gold, proof: gp, cp: gcp, err: err}, false)
		if err != nil || gold != old || !eqProof(gp, p) || !bytes.Equal(gcp, cp) {
			kind := "refused"
			if err == nil {
				kind = mismatchKind(gold, old, gp, p, gcp, cp)
			}
			run.Report("round-trip "+kind, fmt.Sprintf("body written as (old=%d, %d hashes, %d checkpoint bytes) read back as (old=%d, %d hashes, %d bytes, err=%v)", old, len(p), len(cp), gold, len(gp), len(gcp), err),
				map[string]any{"kind": "parse-body", "body_b64": base64.StdEncoding.EncodeToString(body), "origin": "round-trip"})
		}
	}
	// Full product would be 10 x |proofs| x |cps|; vary one dimension fully
	// against boundary values of the others (each value of each dimension is
	// used with every value of the smaller dimensions).
	for _, old := range olds {
		for _, p := range proofs {
			rt(old, p, real4, "harness")
		}
		for _, cp := range cps {
			rt(old, proofs[2], cp, "harness")
			rt(old, proofs[0], cp, "feedbastion-shape")
		}
	}
	for _, p := range proofs[:80] {
		for _, cp := range cps {
			rt(7, p, cp, "harness")
		}
	}
	run.Set("roundtrip_bodies", evals)
	run.Sample(map[string]any{"round_trip_body": string(c10Body(1<<63, proofs[2], []byte("x\n\n\xff")))})

	// The repository's own WRITER of such bodies (cmd/feedbastion's
	// bastionClient.Update, run in the real binary): what it writes for (proof,
	// checkpoint) must read back as those hashes and those checkpoint bytes.
	evals += c11Writer(run, proofs, [][]byte{real4, realExt, real6k, []byte("%"), []byte("%%\n"), []byte("a%2Fb\n7\n"), []byte("50% done\n"), []byte("x%"), []byte("%!(NOVERB)%s%d%v\n"), []byte("\xff%s\n\n\xfe"), []byte("x\n\n— n AAAA\n")})
	// Proof.Marshal -> Unmarshal for every list, including the empty one.
	var pm int64
	// Each list is read back into a fresh receiver and into ONE receiver that
	// is reused for every list (a decoder that only fills an empty receiver
	// leaves the previous list in place).
	var reused witness.Proof
	for pi, p := range append(append([][][]byte{}, proofs...), proofs[0], proofs[3], proofs[0]) {
		txt := witness.Proof(p).Marshal()
		if rerr := reused.Unmarshal([]byte(txt)); rerr != nil || !eqProof([][]byte(reused), p) {
			run.Report("proof-text-round-trip reused-receiver", fmt.Sprintf("list #%d of %d hashes marshalled to %q reads back into a receiver that held the previous list as %d hashes, err=%v", pi, len(p), short(txt), len(reused), rerr),
				map[string]any{"kind": "proof-text", "text_b64": base64.StdEncoding.EncodeToString([]byte(txt))})
			reused = nil
		}
		var back witness.Proof
		err := back.Unmarshal([]byte(txt))
		pm++
		if err != nil || !eqProof([][]byte(back), p) {
			kind := "non-empty"
			if len(p) == 0 {
				kind = "empty-list"
			}
			run.Report("proof-text-round-trip "+kind, fmt.Sprintf("Proof of %d hashes marshalled to %q reads back as %d hashes, err=%v", len(p), short(txt), len(back), err),
				map[string]any{"kind": "proof-text", "text_b64": base64.StdEncoding.EncodeToString([]byte(txt))})
		}
	}
	run.Set("proof_roundtrips", pm)
	evals += pm

	// ---- refusal side: all token strings up to L tokens.
	tokens := []string{"old", " ", "0", "7", "18446744073709551616", "-", "x", "\n", "QUJD", "=", "*", "\r"}
	L := 5
	if tier == "thorough" {
		L = 6
	}
	var tokEvals int64
	var wg sync.WaitGroup
	var mu sync.Mutex
	for _, first := range tokens {
		wg.Add(1)
		go func(first string) {
			defer wg.Done()
			n := int64(0)
			var gen func(cur []byte, d int)
			gen = func(cur []byte, d int) {
				c11Judge(run, cur, "token-string")
				n++
				if d == L {
					return
				}
				for _, t := range tokens {
					gen(append(cur[:len(cur):len(cur)], t...), d+1)
				}
			}
			gen([]byte(first), 1)
			mu.Lock()
			tokEvals += n
			mu.Unlock()
		}(first)
	}
	wg.Wait()
	c11Judge(run, []byte{}, "token-string")
	tokEvals++
	run.Set("token_strings", tokEvals)
	run.Set("token_alphabet", tokens)
	run.Set("token_max_len", L)
	evals += tokEvals

	// ---- 1-edit neighbourhood of three valid bodies.
	seeds := [][]byte{c10Body(4, u.Main.Proof(4, 6), real4), c10Body(0, nil, realExt), c10Body(1<<40, proofs[3], []byte("x\n")), c10Body(10, proofs[1], []byte("x\n"))}
	var nb int64
	for _, s := range append(append([][]byte{}, seeds...), c10Body(1<<63, proofs[65+4*64-1], realExt), c10Body(3, proofs[64], real4), c10Body(2, proofs[2], real6k), c10Body(2, nil, real4k)) {
		c11Judge(run, s, "delivery-seed")
		nb++
	}
	for _, s := range seeds {
		for _, m := range editNeighbourhood(s, []string{"old ", "\n", "=", "QUJD\n", " ", "5", "\r", "-", "\x00", "x", "0x", "_", "+", "0b", "0o", "e1", ".", "\t"}) {
			c11Judge(run, m, "1-edit")
			nb++
		}
	}
	run.Set("neighbourhood_bodies", nb)
	evals += nb
	run.Set("delivery_patterns_replayed", c11Deliveries.Load())
	run.Set("evaluations", evals)
	run.Set("distinct_nontrivial", c11Distinct())
	run.Set("exhaustive", true)
	run.Set("rule", fmt.Sprintf("generator side: old sizes {0,1,9,10,99,2^32-1,2^32,2^63-1,2^63,2^64-1} x proofs (every length 0..64 of 1-, 32-, 33-, 63- and 64-byte hashes; all lists of <= %d hashes with lengths {1,2,3,31,32,33,63,64} x 4 boundary fillings) x checkpoint bytes (all strings of <= 4 chunks over {x, LF, LFLF, CRLF, 0xff, a signature-like line, empty} + real checkpoints, incl. signed checkpoints of exactly 2^k-1, 2^k and 2^k+1 bytes for k = 13..20), written by the harness writer and in the shape of cmd/feedbastion; parseBody must return exactly what was written; Proof.Marshal/Unmarshal over every proof list incl. the empty one, into a fresh receiver and into one reused receiver. Refusal side: ALL strings of <= %d tokens over a 12-token alphabet and the complete 1-edit neighbourhood (every prefix, single-byte deletion, insertion of 18 tokens at every position, every single-bit flip) of four valid bodies, judged by a reference parser with classes accept / must-refuse (no well-formed old-size line, proof line not base64, ends before the blank separator) / unspecified; refusals must return zero values. Retention: the result returned for one body is compared again after the next body was parsed. Delivery: every body above is also read one byte at a time and in 3-byte pieces, whole and in pieces with the final bytes arriving together with io.EOF (4095/4096-byte pieces when longer than 4096 bytes), and eight valid bodies (incl. 64 x 64-byte and 64 x 32-byte proofs, 4096- and 6000-byte checkpoints) additionally with one short read at every offset and, when <= 600 bytes, two short reads at every pair of offsets; the reading must not depend on it. distinct_nontrivial = number of distinct bodies/lists evaluated (token strings that concatenate to the same bytes are counted once)", maxList, L))
	run.Assumption("leniencies the property does not name (CRLF line ends, leading zeros, non-canonical base64 padding bits, lines longer than 4096 bytes) are classified 'unspecified': executed, required to return zero values on refusal, otherwise not judged")
	return run.Finish()
}

func short(s string) string {
	if len(s) > 60 {
		return s[:60] + "..."
	}
	return s
}

// editNeighbourhood returns the complete 1-edit neighbourhood of s.
func editNeighbourhood(s []byte, inserts []string) [][]byte {
	seen := map[string]bool{}
	var out [][]byte
	add := func(b []byte) {
		if !seen[string(b)] {
			seen[string(b)] = true
			out = append(out, append([]byte{}, b...))
		}
	}
	for i := 0; i <= len(s); i++ {
		add(s[:i]) // every prefix
	}
	for i := 0; i < len(s); i++ {
		add(append(append([]byte{}, s[:i]...), s[i+1:]...)) // deletion
		for bit := 0; bit < 8; bit++ {
			m := append([]byte{}, s...)
			m[i] ^= 1 << bit
			add(m)
		}
	}
	for i := 0; i <= len(s); i++ {
		for _, ins := range inserts {
			add(append(append(append([]byte{}, s[:i]...), ins...), s[i:]...))
		}
	}
	return out
}

// c11Writer hands every case to the real cmd/feedbastion binary (built next to
// the harness; an added init() calls the repository's bastionClient.Update
// with a capturing transport) and parses what it wrote with the real parseBody.
// The tool always announces old size 0 (it cannot know the witness's state),
// so the old size is not compared.
func c11Writer(run *ev.Run, proofs [][][]byte, cps [][]byte) int64 {
	self, _ := os.Executable()
	bin := filepath.Join(filepath.Dir(self), "feedbastion")
	if _, err := os.Stat(bin); err != nil {
		ev.Internal("C11 writer leg: %s is missing (scripts/build.sh builds it)", bin)
	}
	type wcase struct {
		p  [][]byte
		cp []byte
	}
	var cases []wcase
	for _, cp := range cps {
		for i, p := range proofs {
			if i > 70 && i%9 != 0 {
				continue
			}
			cases = append(cases, wcase{p, cp})
		}
	}
	dir, _ := os.MkdirTemp(c06Scratch(), "c11w-")
	defer os.RemoveAll(dir)
	in := filepath.Join(dir, "cases.jsonl")
	var sb strings.Builder
	for _, c := range cases {
		var hs []string
		for _, h := range c.p {
			hs = append(hs, base64.StdEncoding.EncodeToString(h))
		}
		b, _ := json.Marshal(map[string]any{"old": 0, "cp": base64.StdEncoding.EncodeToString(c.cp), "proof": hs})
		sb.Write(b)
		sb.WriteByte('\n')
	}
	_ = os.WriteFile(in, []byte(sb.String()), 0o644)
	cmd := exec.Command(bin)
	cmd.Env = append(os.Environ(), "VERIF_FEEDBASTION_CASES="+in)
	out, err := cmd.Output()
	lines := strings.Split(strings.TrimSuffix(string(out), "\n"), "\n")
	if err != nil || len(lines) != len(cases) {
		run.Report("writer-failed", fmt.Sprintf("cmd/feedbastion's writer did not produce one body per case (%d of %d, err=%v)", len(lines), len(cases), err), map[string]any{"kind": "writer"})
		return 0
	}
	for i, c := range cases {
		body, _ := base64.StdEncoding.DecodeString(lines[i])
		_, gp, gcp, perr := bastion.VerifParseBody(bytes.NewReader(body))
		if perr != nil || !eqProof(gp, c.p) || !bytes.Equal(gcp, c.cp) {
			kind := "refused"
			if perr == nil {
				kind = mismatchKind(0, 0, gp, c.p, gcp, c.cp)
			}
			run.Report("writer-round-trip "+kind, fmt.Sprintf("the body cmd/feedbastion writes for (%d hashes, %d checkpoint bytes %q) reads back as (%d hashes, %d bytes %q, err=%v)", len(c.p), len(c.cp), short(string(c.cp)), len(gp), len(gcp), short(string(gcp)), perr),
				map[string]any{"kind": "parse-body", "body_b64": base64.StdEncoding.EncodeToString(body), "origin": "writer"})
		}
	}
	run.Set("writer_bodies", len(cases))
	return int64(len(cases))
}
