package checks

import (
	"errors"
	"context"
	"github.com/transparency-dev/witness/verifmc/ref6962"
	"strconv"
	"bytes"
	"encoding/base64"
	"encoding/json"
	"fmt"
	"os"
	"os/exec"
	"path/filepath"
	"runtime"
	"strings"
	"sync"
	"syscall"
	"time"

	"github.com/transparency-dev/witness/verifmc/drvwrap"
	"github.com/transparency-dev/witness/verifmc/ev"
	"github.com/transparency-dev/witness/verifmc/uni"
	"github.com/transparency-dev/witness/verifmc/wh"
	"google.golang.org/grpc/codes"
	"google.golang.org/grpc/status"
)

func init() {
	Registry["C06"] = c06
	Workers["c06run"] = c06RunWorker
	Workers["c06verify"] = c06VerifyWorker
	Replayers["crash"] = c06Replay
}

func c06Universe() (*uni.U, *wh.CPGen, wh.LogCfg, wh.LogCfg) {
	u := uni.New(ev.Seed(), 9, []int{0, 4})
	gen := wh.NewCPGen(u)
	return u, gen, wh.LogCfg{Origin: logA(), Key: u.K1}, wh.LogCfg{Origin: logB(), Key: u.K2}
}

type c06Step struct {
	Req    wh.Req
	Expect string // accepted / refused class according to the fault-free model
}

func c06History(name string, u *uni.U, gen *wh.CPGen, la, lb wh.LogCfg) []c06Step {
	m, f4 := u.Main, u.Forks[1]
	req := func(l wh.LogCfg, b *uni.Branch, old, n int) wh.Req {
		cp, meta := gen.Get(l, b, n, "plain")
		return wh.Req{LogID: l.ID(), Old: uint64(old), CP: cp, Proof: b.Proof(old, n), Meta: meta,
			Label: fmt.Sprintf("%s old=%d %s@%d", l.Origin, old, b.Name, n)}
	}
	switch name {
	case "H1":
		return []c06Step{{req(la, m, 0, 4), wh.OK}, {req(la, m, 4, 6), wh.OK}, {req(la, m, 6, 6), wh.OK}}
	case "H3":
		// A log that is still empty: first use at size 0, the same-size
		// re-submission every polling round makes, then another log.
		return []c06Step{{req(la, m, 0, 0), wh.OK}, {req(la, m, 0, 0), wh.OK}, {req(lb, m, 0, 3), wh.OK}, {req(la, m, 0, 0), wh.OK}}
	case "H2":
		return []c06Step{{req(la, m, 0, 4), wh.OK}, {req(lb, m, 0, 3), wh.OK}, {req(la, m, 4, 6), wh.OK},
			{req(la, f4, 6, 8), wh.BadProof}, {req(lb, m, 3, 5), wh.OK}, {req(la, m, 6, 6), wh.OK}, {req(la, f4, 6, 6), wh.RootMismatch}, {req(la, m, 6, 9), wh.OK}}
	}
	return nil
}

// c06RunWorker: verifmc worker c06run <db> <history> <killAt> <phase>
// Runs the history on a file-backed SQLite store; SIGKILLs itself at driver
// operation killAt (phase pre|post; killAt < 0: never). Emits, each with one
// write(2): "OPS <n>" at the end of a complete run, "BEGIN <i>" before and
// "ACK <i> <base64>" / "NACK <i> <class>" after each Update.
func c06RunWorker(args []string) int {
	// All database work happens on this goroutine; pin it to one OS thread so
	// that strace's per-thread injection counter equals the global order.
	runtime.LockOSThread()
	db, hist, phase := args[0], args[1], args[3]
	var killAt int
	fmt.Sscanf(args[2], "%d", &killAt)
	wh.InstallLogicalClock()
	u, gen, la, lb := c06Universe()
	steps := c06History(hist, u, gen, la, lb)
	var probeEnv *wh.Env
	env := wh.NewEnv(u, wh.Config{Store: "file:" + db, Logs: []wh.LogCfg{la, lb}, DrvSetup: func(d *drvwrap.Driver) {
		d.SetHook(func(op string, k int, ph string) drvwrap.Action {
			if k == killAt && ph == phase {
				// What a reader is served at this very instant (it normally
				// waits for the connection the update holds; 300 ms later the
				// process dies either way).
				served := make(chan string, 2)
				for _, l := range []wh.LogCfg{la, lb} {
					go func(l wh.LogCfg) {
						if b, err := probeEnv.W.GetCheckpoint(l.ID()); err == nil {
							served <- fmt.Sprintf("SERVED %s %s", l.ID(), base64.StdEncoding.EncodeToString(b))
						}
					}(l)
				}
				deadline := time.After(300 * time.Millisecond)
			wait:
				for i := 0; i < 2; i++ {
					select {
					case s := <-served:
						_, _ = os.Stdout.Write([]byte(s + "\n"))
					case <-deadline:
						break wait
					}
				}
				_ = syscall.Kill(os.Getpid(), syscall.SIGKILL)
				select {}
			}
			return drvwrap.Action{}
		})
	}})
	probeEnv = env
	emit := func(s string) { _, _ = os.Stdout.Write([]byte(s + "\n")) }
	var marks []string
	for i, st := range steps {
		emit(fmt.Sprintf("BEGIN %d", i))
		marks = append(marks, fmt.Sprintf("%d", env.Drv.Count()))
		out := env.Do(st.Req)
		if out.Err == nil {
			emit(fmt.Sprintf("ACK %d %s", i, base64.StdEncoding.EncodeToString(out.Bytes)))
		} else {
			emit(fmt.Sprintf("NACK %d %s", i, out.Class))
		}
	}
	emit(fmt.Sprintf("OPS %d %s %s", env.Drv.Count(), strings.Join(marks, ","), strings.Join(env.Drv.Trace(), ",")))
	env.Close()
	return 0
}

type c06Verify struct {
	Stored map[string]string `json:"stored"` // logID -> base64 bytes
	Logs   []string          `json:"logs"`
	// API: what the restarted witness itself answers: "notfound", "error: ..."
	// or the base64 bytes, per configured log; APILogs = GetLogs().
	API     map[string]string `json:"api"`
	APILogs []string          `json:"api_logs"`
	Probes  map[string]string `json:"probes"` // "<logID> fork"/"<logID> growth" -> class
	Err     string            `json:"err"`
}

// c06VerifyWorker: verifmc worker c06verify <db> : a fresh process reopens the
// store (SQLite recovers from a hot journal here), reports the state, then
// probes the restarted witness.
func c06VerifyWorker(args []string) int {
	wh.InstallLogicalClock()
	u, gen, la, lb := c06Universe()
	env := wh.NewEnv(u, wh.Config{Store: "file:" + args[0], Logs: []wh.LogCfg{la, lb}})
	defer env.Close()
	res := c06Verify{Stored: map[string]string{}, Probes: map[string]string{}, API: map[string]string{}}
	snap := env.Snap()
	res.Logs = snap.Logs
	for id, b := range snap.ByID {
		res.Stored[id] = base64.StdEncoding.EncodeToString([]byte(b))
	}
	if l, err := env.W.GetLogs(); err == nil {
		res.APILogs = l
	} else {
		res.APILogs = []string{"error: " + err.Error()}
	}
	for _, l := range []wh.LogCfg{la, lb} {
		id := l.ID()
		b, err := env.W.GetCheckpoint(id)
		switch {
		case err != nil && status.Code(err) == codes.NotFound:
			res.API[id] = "notfound"
		case err != nil:
			res.API[id] = "error: " + err.Error()
		default:
			res.API[id] = base64.StdEncoding.EncodeToString(b)
		}
	}
	for _, l := range []wh.LogCfg{la, lb} {
		id := l.ID()
		st, ok := wh.StateOf(gen, env.Stored(id))
		if ok && !st.Has {
			// Nothing stored: the restarted witness must accept a first use
			// (e.g. the interrupted update submitted again).
			cp, meta := gen.Get(l, u.Main, 3, "plain")
			res.Probes[id+" first-use"] = env.Do(wh.Req{LogID: id, CP: cp, Meta: meta}).Class
			continue
		}
		if !ok || !st.Has || st.Size == 0 || int(st.Size)+1 > u.N {
			continue
		}
		s := int(st.Size)
		fk := u.Forks[0]
		cpF, mF := gen.Get(l, fk, s+1, "plain")
		res.Probes[id+" fork"] = env.Do(wh.Req{LogID: id, Old: st.Size, CP: cpF, Proof: fk.Proof(s, s+1), Meta: mF}).Class
		cpS, mS := gen.Get(l, fk, s, "plain")
		res.Probes[id+" fork-same-size"] = env.Do(wh.Req{LogID: id, Old: st.Size, CP: cpS, Meta: mS}).Class
		cpG, mG := gen.Get(l, st.Branch, s+1, "plain")
		res.Probes[id+" growth"] = env.Do(wh.Req{LogID: id, Old: st.Size, CP: cpG, Proof: st.Branch.Proof(s, s+1), Meta: mG}).Class
	}
	b, _ := json.Marshal(res)
	fmt.Println(string(b))
	return 0
}

type c06Point struct {
	Hist  string
	K     int
	Phase string
	Mode  string // "driver" or "syscall"
}

// c06Judge decides one crash point from the worker's output and the verify
// result.
func c06Judge(run *ev.Run, u *uni.U, gen *wh.CPGen, la, lb wh.LogCfg, steps []c06Step, pt c06Point, out []byte, v c06Verify, trace string) {
	acked := map[string][]byte{} // logID -> last acknowledged bytes
	servedAtKill := map[string][]byte{}
	inflight := -1
	for _, line := range strings.Split(strings.TrimSpace(string(out)), "\n") {
		f := strings.Fields(line)
		if len(f) < 2 {
			continue
		}
		var i int
		fmt.Sscanf(f[1], "%d", &i)
		switch f[0] {
		case "BEGIN":
			inflight = i
		case "ACK":
			b, _ := base64.StdEncoding.DecodeString(f[2])
			acked[steps[i].Req.LogID] = b
			inflight = -1
		case "NACK":
			inflight = -1
		case "SERVED":
			if len(f) >= 3 {
				b, _ := base64.StdEncoding.DecodeString(f[2])
				servedAtKill[f[1]] = b
			}
		}
	}
	where := "between updates"
	if inflight >= 0 {
		where = fmt.Sprintf("during step %d (%s, fault-free verdict %s)", inflight, steps[inflight].Req.Label, steps[inflight].Expect)
	}
	rep := map[string]any{"kind": "crash", "history": pt.Hist, "mode": pt.Mode, "k": pt.K, "phase": pt.Phase, "op": trace}
	desc := func(s string) string {
		return fmt.Sprintf("history %s, SIGKILL %s %s #%d (%s), %s: %s", pt.Hist, pt.Phase, pt.Mode, pt.K, trace, where, s)
	}
	sig := func(k string) string {
		kind := "none"
		if inflight >= 0 {
			kind = steps[inflight].Expect
		}
		return fmt.Sprintf("%s mode=%s inflight=%s", k, pt.Mode, kind)
	}
	if v.Err != "" {
		run.Report(sig("reopen-failed"), desc("the store could not be reopened: "+v.Err), rep)
		return
	}
	run.Hist("crash_where", func() string {
		if inflight < 0 {
			return "between-updates"
		}
		return "in-flight-" + steps[inflight].Expect
	}())
	// What a reader was served at the instant of the kill is in force after the
	// restart (or superseded by a larger checkpoint): a checkpoint that was
	// handed out and is gone lets the restarted witness cosign another one of
	// that size.
	for _, l := range []wh.LogCfg{la, lb} {
		sv, ok := servedAtKill[l.ID()]
		if !ok {
			continue
		}
		run.Add("reads_served_at_the_kill", 1)
		stored, _ := base64.StdEncoding.DecodeString(v.Stored[l.ID()])
		a, oka := wh.StateOf(gen, sv)
		b, okb := wh.StateOf(gen, c06Bytes(string(stored)))
		if oka && a.Has && (!okb || !b.Has || b.Size < a.Size || (b.Size == a.Size && string(b.Root) != string(a.Root))) {
			run.Report(sig("served-before-the-kill-but-not-durable"), desc(fmt.Sprintf("a reader of %s was served a cosigned checkpoint of size %d at the instant of the kill; after the restart the store holds size %d / nothing: what the witness handed out is gone", l.Origin, a.Size, b.Size)), rep)
		}
	}
	for _, l := range []wh.LogCfg{la, lb} {
		id := l.ID()
		stored, _ := base64.StdEncoding.DecodeString(v.Stored[id])
		if len(stored) == 0 {
			stored = nil
		}
		// (i) complete, validly cosigned.
		if stored != nil {
			text, sigs, ok := uni.SplitNote(stored)
			good := ok
			if ok {
				if _, n := countValid(l.Key.Verif, text, sigs); n < 1 {
					good = false
				}
				for _, wv := range []interface {
					Name() string
					KeyHash() uint32
					Verify([]byte, []byte) bool
				}{u.W1.Verif, u.W1.CosigVerif} {
					if ln, n := countValid(wv, text, sigs); ln != 1 || n != 1 {
						good = false
					}
				}
			}
			if !good {
				run.Report(sig("stored-not-a-valid-cosigned-checkpoint"), desc("after restart the stored checkpoint of "+l.Origin+" is not a complete validly cosigned checkpoint"), rep)
				continue
			}
		}
		// (ii) old or new for the in-flight log, exactly the acknowledged
		// one for every other log.
		last := acked[id]
		switch {
		case bytes.Equal(stored, last):
			run.Hist("state_after_restart", "last-acknowledged")
		case inflight >= 0 && steps[inflight].Req.LogID == id && steps[inflight].Expect == wh.OK && stored != nil && func() bool {
			text, _, _ := uni.SplitNote(stored)
			return text == steps[inflight].Req.Meta.Text
		}():
			run.Hist("state_after_restart", "being-written")
		default:
			what := "a checkpoint that is neither the last acknowledged one nor the one being written"
			if stored == nil && last != nil {
				what = "nothing, although an update had been acknowledged (acknowledged update lost)"
			} else if last != nil {
				a, _ := wh.StateOf(gen, last)
				b, okb := wh.StateOf(gen, stored)
				if okb && (b.Size < a.Size) {
					what = fmt.Sprintf("size %d although size %d had been acknowledged (acknowledged update lost)", b.Size, a.Size)
				} else if okb && string(stored) != string(last) && b.Key() == a.Key() {
					what = "an older cosignature than the acknowledged one (acknowledged update lost)"
				}
			}
			run.Report(sig("state-after-restart"), desc("log "+l.Origin+" holds "+what), rep)
		}
		// (iv) the restarted witness still refuses what is inconsistent and
		// follows the honest log.
		// What the restarted witness itself serves must be what the table holds.
		if api, ok := v.API[id]; ok {
			want := "notfound"
			if stored != nil {
				want = base64.StdEncoding.EncodeToString(stored)
			}
			if api != want {
				what := "different bytes than the table holds"
				switch {
				case strings.HasPrefix(api, "error"):
					what = api
				case api == "" || api == "notfound":
					what = "nothing / empty bytes although a checkpoint is stored"
				case stored == nil:
					what = "bytes without a 'not found' error although no checkpoint is stored"
				}
				run.Report(sig("served-after-restart"), desc("GetCheckpoint of the restarted witness for "+l.Origin+" returns "+what), rep)
			}
		}
		listed := false
		for _, x := range v.APILogs {
			if x == id {
				listed = true
			}
			if strings.HasPrefix(x, "error") {
				run.Report(sig("getlogs-after-restart"), desc("GetLogs of the restarted witness fails: "+x), rep)
			}
		}
		if listed != (stored != nil) {
			run.Report(sig("log-list-after-restart"), desc(fmt.Sprintf("after restart the log list names %s: %v, but a checkpoint is stored: %v", l.Origin, listed, stored != nil)), rep)
		}
		for probe, want := range map[string]string{" fork": wh.BadProof, " fork-same-size": wh.RootMismatch, " growth": wh.OK, " first-use": wh.OK} {
			if got, ok := v.Probes[id+probe]; ok && got != want {
				run.Report(sig("restart-probe"+strings.TrimSpace(probe)+" got="+got), desc(fmt.Sprintf("the restarted witness answered the %s probe for %s with %s, want %s", strings.TrimSpace(probe), l.Origin, got, want)), rep)
			}
		}
	}
	run.Distinct(fmt.Sprintf("%s|%s|%d|%s", pt.Hist, pt.Mode, pt.K, pt.Phase))
}

func c06Scratch() string {
	d := os.Getenv("VERIF_SCRATCH")
	if d == "" {
		d, _ = os.MkdirTemp("", "verifmc-c06-")
	}
	return d
}

func c06(tier string) int {
	run := ev.NewRun("C06", tier, "fault_enumeration")
	u, gen, la, lb := c06Universe()
	self, _ := os.Executable()
	scratch := c06Scratch()
	hists := []string{"H1", "H2", "H3"}
	total := int64(0)
	for _, hn := range hists {
		steps := c06History(hn, u, gen, la, lb)
		// Reference run (no kill): number of driver operations.
		ref := filepath.Join(scratch, "ref-"+hn+".db")
		out, err := c06Worker(self, "c06run", ref, hn, "-1", "pre")
		if err == errC06WorkerStuck {
			// Neither a pass nor a violation: the scripted, fault-free history
			// does not even finish on this tree (a store that keeps the pool's
			// only connection to itself also starves the harness's own reads).
			ev.Internal("C06: the crash-free reference run of %s did not finish within %s", hn, c06WorkerLimit)
		}
		if err != nil {
			ev.Internal("C06 reference run failed: %v", err)
		}
		var nops int
		var trace []string
		for _, line := range strings.Split(string(out), "\n") {
			if strings.HasPrefix(line, "OPS ") {
				f := strings.Fields(line)
				fmt.Sscanf(f[1], "%d", &nops)
				trace = strings.Split(f[3], ",")
			}
		}
		for i, st := range steps {
			acked := strings.Contains("\n"+string(out), fmt.Sprintf("\nACK %d ", i))
			if acked != (st.Expect == wh.OK) {
				ev.Internal("C06 reference run of %s: step %d did not behave as scripted (%s)", hn, i, st.Expect)
			}
		}
		if nops == 0 {
			ev.Internal("C06 reference run reported no operations: %s", tail(out))
		}
		os.Remove(ref)
		run.Set("driver_ops["+hn+"]", nops)
		run.Set("driver_op_trace["+hn+"]", strings.Join(trace, ","))
		var pts []c06Point
		for k := 0; k < nops; k++ {
			for _, ph := range []string{"pre", "post"} {
				pts = append(pts, c06Point{hn, k, ph, "driver"})
			}
		}
		var wg sync.WaitGroup
		sem := make(chan struct{}, workers())
		var mu sync.Mutex
		for _, pt := range pts {
			wg.Add(1)
			go func(pt c06Point) {
				defer wg.Done()
				sem <- struct{}{}
				defer func() { <-sem }()
				db := filepath.Join(scratch, fmt.Sprintf("c06-%s-%d-%s.db", pt.Hist, pt.K, pt.Phase))
				defer func() { os.Remove(db); os.Remove(db + "-journal"); os.Remove(db + "-wal"); os.Remove(db + "-shm") }()
				o, _ := c06Worker(self, "c06run", db, pt.Hist, fmt.Sprint(pt.K), pt.Phase)
				if strings.Contains(string(o), "OPS ") {
					// post-phase of an operation that reports failure is never
					// reached (e.g. next -> EOF counts as success, fine) —
					// the run completed without being killed.
					mu.Lock()
					run.Add("points_not_reached", 1)
					mu.Unlock()
				}
				vo, err := c06Worker(self, "c06verify", db)
				var v c06Verify
				if err != nil || json.Unmarshal(lastLine(vo), &v) != nil {
					v.Err = fmt.Sprintf("verify process failed: %v: %s", err, tail(vo))
				}
				mu.Lock()
				total++
				c06Judge(run, u, gen, la, lb, steps, pt, o, v, trace[pt.K])
				if total%41 == 1 {
					run.Sample(map[string]any{"history": pt.Hist, "kill": fmt.Sprintf("%s driver op #%d (%s)", pt.Phase, pt.K, trace[pt.K]), "worker_output_lines": len(strings.Split(strings.TrimSpace(string(o)), "\n")), "stored_after_restart": len(v.Stored), "probes": v.Probes})
				}
				mu.Unlock()
			}(pt)
		}
		wg.Wait()
	}
	total += c06Syscalls(run, u, gen, la, lb, hists)
	total += c06Binary(run, u, gen, la, lb)
	for _, k := range []string{"last-acknowledged", "being-written"} {
		if run.HistGet("state_after_restart", k) == 0 {
			run.Vacuous("no crash point left the store at %s", k)
		}
	}
	run.Set("evaluations", total)
	run.Set("crash_points", total)
	run.Set("exhaustive", true)
	run.Set("rule", "for histories H1 (first use, growth, refresh of one log), H2 (two logs interleaved, a refused fork growth and a refused same-size fork between the writes) and H3 (a log that is still empty: first use at size 0 and its same-size re-submissions, another log in between): the worker process is SIGKILLed before and after EVERY database/sql driver operation (open/begin/prepare/query/next/rows-close/stmt-close/exec/commit/rollback, numbered by a wrapping driver) of a crash-free reference run on a file-backed SQLite store; a FRESH process reopens the store (SQLite recovers from the hot journal) and reports the state and probes; additionally a kill at every file syscall (pwrite64/fsync/fdatasync/unlink/ftruncate) on the database and its journal via strace injection. Binary tier: the real cmd/omniwitness binary (its own flags, its own way of opening --db_file, omniwitness.Main, serverless feeders polling stub logs over loopback HTTP) is SIGKILLed after each acknowledged update of a two-log history and restarted twice on the same file. Oracle: stored rows are complete validly cosigned notes; in-flight log = last acknowledged or being written, others exactly last acknowledged; restarted witness refuses forks and accepts growth. distinct_nontrivial = distinct crash points")
	run.Assumption("process kill, not power loss: everything the kernel accepted survives; torn sectors and lost un-fsynced writes are not explored")
	// Fault leg: an update is acknowledged only when its commit succeeded
	// (every single SQL-driver / interface fault in the C07 histories; an
	// acknowledged update must be what the table holds).
	runFaults(run, "C06", tier, false)
	c06HugeSizes(run)
	// Upgrade leg: the acknowledged state in a file the earlier release wrote.
	legacyDBLeg(run, "C06")
	return run.Finish()
}

func c06Replay(m map[string]any) int {
	u, gen, la, lb := c06Universe()
	self, _ := os.Executable()
	scratch := c06Scratch()
	hn, _ := m["history"].(string)
	k := int(m["k"].(float64))
	ph, _ := m["phase"].(string)
	if mode, _ := m["mode"].(string); mode == "binary" {
		run := ev.NewRun("C06-replay", "quick", "fault_enumeration")
		run.Scratch = true
		c06BinaryPoint(run, u, gen, la, lb, k, true)
		if run.Violations() > 0 {
			fmt.Println("REPRODUCED")
			return 1
		}
		fmt.Println("not reproduced")
		return 0
	}
	steps := c06History(hn, u, gen, la, lb)
	db := filepath.Join(scratch, "replay.db")
	defer os.Remove(db)
	o, _ := c06Worker(self, "c06run", db, hn, fmt.Sprint(k), ph)
	vo, _ := c06Worker(self, "c06verify", db)
	fmt.Printf("worker output before kill:\n%s\nstate after restart:\n%s\n", o, vo)
	var v c06Verify
	_ = json.Unmarshal(lastLine(vo), &v)
	run := ev.NewRun("C06-replay", "quick", "fault_enumeration")
	c06Judge(run, u, gen, la, lb, steps, c06Point{hn, k, ph, "driver"}, o, v, fmt.Sprint(m["op"]))
	if run.Violations() > 0 {
		fmt.Println("REPRODUCED")
		return 1
	}
	fmt.Println("not reproduced")
	return 0
}

// c06HugeSizes: acknowledged => durable also at the numeric boundaries of the
// tree size (a log can sign any uint64 size): on a file-backed SQLite store,
// first use at sizes around 2^31, 2^32, 2^63 and 2^64, honest growth across
// each boundary (uniform tree, exact RFC 6962 proofs) and a refresh; after
// every acknowledged update the store is closed and re-opened by a fresh
// witness, which must hold exactly what was acknowledged.
func c06HugeSizes(run *ev.Run) {
	u := uni.New(ev.Seed(), 2, nil)
	la := wh.LogCfg{Origin: logA() + "/huge", Key: u.K1}
	fam := ref6962.NewUniform([]byte("uniform-leaf-durable"))
	cp := func(n uint64) ([]byte, wh.Meta) {
		r := fam.Root(n)
		text := uni.Body(la.Origin, n, r[:])
		return u.Sign(text, la.Key.Signer), wh.Meta{Origin: la.Origin, KeyName: wh.KeyID(la.Key.Verif), Size: n, Root: r[:], Text: text}
	}
	steps := [][2]uint64{{1, 1<<31 - 1}, {1<<31 - 1, 1 << 31}, {1 << 31, 1<<32 + 1}, {1, 1<<63 - 1}, {1<<63 - 1, 1 << 63}, {1, 1 << 63}, {1 << 63, 1<<63 + 7}, {5, ^uint64(0)}, {1<<63 + 7, ^uint64(0)}}
	var n int64
	for i, st := range steps {
		db := filepath.Join(c06Scratch(), fmt.Sprintf("huge-%d.db", i))
		_ = os.Remove(db)
		open := func() *wh.Env { return wh.NewEnv(u, wh.Config{Store: "file:" + db, Logs: []wh.LogCfg{la}}) }
		e := open()
		c0, m0 := cp(st[0])
		if out := e.Do(wh.Req{LogID: la.ID(), CP: c0, Meta: m0}); out.Class != wh.OK {
			ev.Internal("C06 huge sizes: first use at %d refused: %v", st[0], out.Err)
		}
		acked := string(e.Stored(la.ID()))
		for _, to := range []uint64{st[1], st[1]} { // growth, then a refresh at the new size
			from := st[0]
			if to == st[1] && acked != "" {
				if s, ok := uniSize(acked); ok {
					from = s
				}
			}
			c1, m1 := cp(to)
			var pr [][]byte
			if from < to {
				pr = ref6962.Bytes(fam.Proof(from, to))
			}
			out := e.Do(wh.Req{LogID: la.ID(), Old: from, CP: c1, Proof: pr, Meta: m1})
			n++
			rep := map[string]any{"kind": "huge-durable", "from": fmt.Sprint(from), "to": fmt.Sprint(to)}
			if out.Class == wh.OK {
				acked = string(out.Bytes)
			} else {
				run.Report(fmt.Sprintf("honest-step-refused-at-boundary from-class=%s to-class=%s", c19SizeClass(from), c19SizeClass(to)), fmt.Sprintf("file-backed SQL store: honest step %d -> %d with an exact proof was refused: %v", from, to, out.Err), rep)
			}
			e.Close()
			e = open()
			if got := string(e.Stored(la.ID())); got != acked {
				gs, _ := uniSize(got)
				run.Report(fmt.Sprintf("acknowledged-but-not-durable from-class=%s to-class=%s", c19SizeClass(from), c19SizeClass(to)), fmt.Sprintf("file-backed SQL store: the update %d -> %d was acknowledged, but after closing and re-opening the store it holds size %d, not what was acknowledged", from, to, gs), rep)
				acked = got
			}
		}
		e.Close()
		_ = os.Remove(db)
	}
	run.Set("huge_size_updates_reopened", n)
	run.Add("evaluations", n)
}

// uniSize extracts the size line of a checkpoint.
func uniSize(cp string) (uint64, bool) {
	l := strings.SplitN(cp, "\n", 3)
	if len(l) < 2 {
		return 0, false
	}
	v, err := strconv.ParseUint(l[1], 10, 64)
	return v, err == nil
}

const c06WorkerLimit = 3 * time.Minute

var errC06WorkerStuck = errors.New("verif: worker did not finish")

// c06Worker runs one worker process (they take milliseconds) under a limit.
func c06Worker(self string, args ...string) ([]byte, error) {
	ctx, cancel := context.WithTimeout(context.Background(), c06WorkerLimit)
	defer cancel()
	out, err := exec.CommandContext(ctx, self, append([]string{"worker"}, args...)...).Output()
	if ctx.Err() != nil {
		return out, errC06WorkerStuck
	}
	return out, err
}
