package checks

import (
	"bytes"
	"context"
	"fmt"
	"github.com/transparency-dev/witness/internal/witness"
	"io"
	"net/http"
	"strconv"
	"strings"
	"sync"
	"time"

	f_log "github.com/transparency-dev/formats/log"
	"github.com/transparency-dev/merkle/proof"
	"github.com/transparency-dev/merkle/rfc6962"
	"github.com/transparency-dev/witness/internal/client"
	"github.com/transparency-dev/witness/internal/config"
	"github.com/transparency-dev/witness/internal/feeder"
	"github.com/transparency-dev/witness/internal/feeder/sumdb"
	"github.com/transparency-dev/witness/verifmc/ev"
	"github.com/transparency-dev/witness/verifmc/ref6962"
	"github.com/transparency-dev/witness/verifmc/stublog"
	"github.com/transparency-dev/witness/verifmc/uni"
	"github.com/transparency-dev/witness/verifmc/wh"
	"golang.org/x/mod/sumdb/tlog"
)

func init() { Registry["C18"] = c18 }

type pathRecorder struct {
	mu    sync.Mutex
	paths []string
}

func (p *pathRecorder) RoundTrip(r *http.Request) (*http.Response, error) {
	// As net/http's transport: a request whose context has ended fails.
	if err := r.Context().Err(); err != nil {
		return nil, err
	}
	p.mu.Lock()
	// The path as it goes on the wire (a '/' sent as %2F is another path to
	// every server that does not decode before matching).
	p.paths = append(p.paths, r.URL.EscapedPath())
	p.mu.Unlock()
	// A body of plausible tile size, so that a client-side cache (if one is
	// ever added) treats the answer like a real tile.
	return &http.Response{StatusCode: 200, Status: "200 OK", Body: io.NopCloser(bytes.NewReader(make([]byte, 256*32))), Request: r, Header: http.Header{}}, nil
}

// sumdbServer serves /latest and tlog tiles (height 8) of a generated tree at
// a chosen size, validating every tile coordinate against that size.
type sumdbServer struct {
	hashes []tlog.Hash // stored hashes for the full tree
	size   int64
	latest []byte
	mu     sync.Mutex
	bad    []string
	reqs   []string
	// prefix: the path component of the log's base URL ("" or "/a/b").
	prefix string
	// faultAt/faultKind: the faultAt-th request (0-based) is answered wrongly,
	// once: "truncated" / "zeros" (200 with a damaged body), "http-500",
	// "conn-error". Everything before and after is answered correctly.
	faultAt   int
	faultKind string
	nreq      int
	// contentType, when set, labels every answer (a static mirror serving the
	// extensionless tile files as text/plain); crlf counts served bodies that
	// contain the byte pair CR LF.
	contentType string
	crlf        int
}

func (s *sumdbServer) ReadHashes(idx []int64) ([]tlog.Hash, error) {
	out := make([]tlog.Hash, len(idx))
	for i, x := range idx {
		if x < 0 || int(x) >= len(s.hashes) {
			return nil, fmt.Errorf("hash index %d out of range", x)
		}
		out[i] = s.hashes[x]
	}
	return out, nil
}

// RoundTrip answers like net/http's transport in front of a compressing
// server: plainly, unless the request itself asks for gzip (then net/http
// hands the compressed bytes to the caller).
func (s *sumdbServer) RoundTrip(r *http.Request) (*http.Response, error) {
	resp, err := s.roundTrip(r)
	return stublog.CompressIfAsked(r, resp), err
}

func (s *sumdbServer) roundTrip(r *http.Request) (*http.Response, error) {
	// As net/http's transport: a request whose context has ended fails.
	if err := r.Context().Err(); err != nil {
		return nil, err
	}
	mk := func(code int, body []byte) (*http.Response, error) {
		h := http.Header{}
		if s.contentType != "" {
			h.Set("Content-Type", s.contentType)
			if code == 200 && bytes.Contains(body, []byte("\r\n")) {
				s.mu.Lock()
				s.crlf++
				s.mu.Unlock()
			}
		}
		return &http.Response{StatusCode: code, Status: fmt.Sprintf("%d", code), Body: io.NopCloser(bytes.NewReader(body)), Request: r, Header: h}, nil
	}
	p := r.URL.EscapedPath() // as on the wire
	s.mu.Lock()
	s.reqs = append(s.reqs, p)
	me := s.nreq
	s.nreq++
	s.mu.Unlock()
	if s.faultKind != "" && me == s.faultAt {
		inner := *s
		inner.faultKind = ""
		resp, err := (&inner).roundTrip(r)
		s.mu.Lock()
		s.bad = append(s.bad, inner.bad...)
		s.mu.Unlock()
		if err != nil || resp.StatusCode != 200 {
			return resp, err
		}
		body, _ := io.ReadAll(resp.Body)
		switch s.faultKind {
		case "truncated":
			return mk(200, body[:len(body)/2])
		case "zeros":
			return mk(200, make([]byte, len(body)))
		case "http-500":
			return mk(500, nil)
		default:
			return nil, fmt.Errorf("verif: connection reset")
		}
	}
	if !strings.HasPrefix(p, s.prefix+"/") {
		s.mu.Lock()
		s.bad = append(s.bad, fmt.Sprintf("%s: not below the log's base URL path %q", p, s.prefix))
		s.mu.Unlock()
		return mk(404, nil)
	}
	p = strings.TrimPrefix(p, s.prefix)
	if p == "/latest" {
		return mk(200, s.latest)
	}
	t, err := tlog.ParseTilePath(strings.TrimPrefix(p, "/"))
	if err != nil {
		s.mu.Lock()
		s.bad = append(s.bad, fmt.Sprintf("%s: not a tile path the reference tlog understands: %v", p, err))
		s.mu.Unlock()
		return mk(404, nil)
	}
	// The canonical path of that tile must be what was requested.
	if "/"+t.Path() != p {
		s.mu.Lock()
		s.bad = append(s.bad, fmt.Sprintf("%s: non-canonical spelling of %s", p, t.Path()))
		s.mu.Unlock()
		return mk(404, nil)
	}
	// Existence in the tree of the served size: a partial tile only with its
	// true width, a complete tile only as the full tile.
	avail := (s.size >> (uint(t.H) * uint(t.L))) - t.N<<uint(t.H)
	full := int64(1) << uint(t.H)
	switch {
	case t.H != 8 || t.L < 0:
		s.bad = append(s.bad, fmt.Sprintf("%s: unexpected tile height/level", p))
		return mk(404, nil)
	case avail <= 0:
		s.mu.Lock()
		s.bad = append(s.bad, fmt.Sprintf("%s: tile does not exist in a tree of size %d", p, s.size))
		s.mu.Unlock()
		return mk(404, nil)
	case int64(t.W) == full && avail < full:
		s.mu.Lock()
		s.bad = append(s.bad, fmt.Sprintf("%s: full tile requested but only %d hashes exist at size %d", p, avail, s.size))
		s.mu.Unlock()
		return mk(404, nil)
	case int64(t.W) < full && avail >= full:
		s.mu.Lock()
		s.bad = append(s.bad, fmt.Sprintf("%s: partial tile of width %d requested although the tile is complete at size %d", p, t.W, s.size))
		s.mu.Unlock()
		return mk(404, nil)
	case int64(t.W) < full && int64(t.W) != avail:
		s.mu.Lock()
		s.bad = append(s.bad, fmt.Sprintf("%s: partial width %d, true width at size %d is %d", p, t.W, s.size, avail))
		s.mu.Unlock()
		return mk(404, nil)
	}
	data, err := tlog.ReadTileData(t, s)
	if err != nil {
		return mk(500, nil)
	}
	return mk(200, data)
}

type c18Witness struct {
	latest []byte
	old    uint64
	proof  [][]byte
	cp     []byte
	calls  int
	// verify: refuse (as the real witness does) a step whose proof the RFC
	// 6962 reference rejects; refused counts those.
	verify  func(old uint64, cp []byte, p [][]byte) bool
	refused int
}

func (w *c18Witness) GetLatestCheckpoint(context.Context, string) ([]byte, error) {
	return w.latest, nil
}
func (w *c18Witness) Update(_ context.Context, _ string, old uint64, cp []byte, p [][]byte) ([]byte, error) {
	if w.verify != nil && !w.verify(old, cp, p) {
		w.refused++
		return w.latest, witness.ErrInvalidProof
	}
	w.calls++
	w.old, w.proof, w.cp = old, p, cp
	return cp, nil
}

func c18(tier string) int {
	run := ev.NewRun("C18", tier, "exploration")
	wh.InstallLogicalClock()
	var evals int64

	evals += c18Addressing(run)

	// ------------------------------------------------ proofs through the real feeder
	maxN := 300
	if tier == "thorough" {
		maxN = 1200
	}
	origin := "go.sum database tree"
	const bigN = 70000
	u := uni.New(ev.Seed(), bigN, nil)
	la := wh.LogCfg{Origin: origin, Key: u.K1}
	// Stored hashes of the whole tree, via the reference tlog.
	srvAll := &sumdbServer{}
	for i := 0; i < bigN; i++ {
		hs, err := tlog.StoredHashes(int64(i), u.Main.Data[i], srvAll)
		if err != nil {
			ev.Internal("StoredHashes: %v", err)
		}
		srvAll.hashes = append(srvAll.hashes, hs...)
	}
	// Sanity: tlog's root equals the RFC 6962 reference root.
	th, _ := tlog.TreeHash(int64(bigN), srvAll)
	if !bytes.Equal(th[:], u.Main.Root(bigN)) {
		ev.Internal("tlog root and ref6962 root disagree")
	}
	cps := map[int][]byte{}
	for n := 1; n <= maxN; n++ {
		cps[n] = u.Sign(uni.Body(origin, uint64(n), u.Main.Root(n)), u.K1.Signer)
	}
	for _, n := range []int{4096, 65535, 65536, 65537, 65613, bigN} {
		cps[n] = u.Sign(uni.Body(origin, uint64(n), u.Main.Root(n)), u.K1.Signer)
	}
	cl, _ := config.NewLog(origin, u.K1.VKey, "http://sumdb.test")
	const feedPrefix = "/mirror/sum.golang.org"
	clP, _ := config.NewLog(origin, u.K1.VKey, "http://sumdb.test"+feedPrefix)
	type pair struct {
		from, to int
		prefixed bool
		// ctype: the server labels its answers with this Content-Type.
		ctype string
	}
	var pairs []pair
	for to := 2; to <= maxN; to++ {
		for from := 1; from < to; from++ {
			pairs = append(pairs, pair{from: from, to: to})
			// ... and behind a base URL with a path component (all pairs up to 40, then the tile boundaries).
			if to <= 40 || to%256 <= 1 || from%256 == 0 {
				pairs = append(pairs, pair{from: from, to: to, prefixed: true})
			}
			// ... and from a server that labels everything text/plain (binary
			// tiles must arrive byte-exact whatever the label).
			if to%5 == 0 || to >= 256 && from%16 == 1 {
				pairs = append(pairs, pair{from: from, to: to, ctype: "text/plain; charset=utf-8"})
			}
		}
	}
	// Pairs whose proofs touch full tiles above level 0 (to >= 65536), incl.
	// the same tile index at two levels in one proof computation.
	for _, to := range []int{65535, 65536, 65537, 65613, bigN} {
		for _, from := range []int{1, 100, 128, 255, 256, 257, 300, 511, 512, 4096, 65535, 65536} {
			if from < to {
				pairs = append(pairs, pair{from: from, to: to}, pair{from: from, to: to, prefixed: true}, pair{from: from, to: to, ctype: "text/plain; charset=utf-8"}, pair{from: from, to: to, ctype: "text/html"})
			}
		}
	}
	// A complete level-0 tile whose bytes contain CR LF (about one in eight
	// does): proofs that need it, served with a text label.
	for k := int64(0); k < bigN/256; k++ {
		data, err := tlog.ReadTileData(tlog.Tile{H: 8, L: 0, N: k, W: 256}, srvAll)
		if err == nil && bytes.Contains(data, []byte("\r\n")) {
			from, to := int(k)*256+3, int(k+1)*256+7
			cpsGet(cps, u, origin, to)
			for _, ct := range []string{"text/plain; charset=utf-8", "text/plain", "application/octet-stream", ""} {
				pairs = append(pairs, pair{from: from, to: to, ctype: ct}, pair{from: 1, to: to, ctype: ct})
			}
			run.Set("crlf_tile", fmt.Sprintf("tile/8/0/%d", k))
			break
		}
	}
	var mu sync.Mutex
	var cycles, crlfServed int64
	ch := make(chan pair, 1024)
	var wg sync.WaitGroup
	for w := 0; w < workers(); w++ {
		wg.Add(1)
		go func() {
			defer wg.Done()
			// A real witness per worker, re-seeded per pair via a fresh env only
			// every time (cheap in-memory).
			for p := range ch {
				srv := &sumdbServer{hashes: srvAll.hashes, size: int64(p.to), latest: cps[p.to]}
				cl := cl
				if p.prefixed {
					srv.prefix, cl = feedPrefix, clP
				}
				srv.contentType = p.ctype
				witCP := u.Sign(uni.Body(origin, uint64(p.from), u.Main.Root(p.from)), u.K1.Signer, u.W1.CosigSigner)
				sw := &c18Witness{latest: witCP}
				ctx, release := wh.NoRetryContext(context.Background())
				err := c18FeedLog(ctx, cl, sw, &http.Client{Transport: srv}, 0)
				release()
				rep := map[string]any{"kind": "sumdb-proof", "from": p.from, "to": p.to, "base_url_with_path": p.prefixed, "content_type": p.ctype}
				sig := func(k string) string {
					return fmt.Sprintf("%s from-tile-boundary=%v to-tile-boundary=%v", k, p.from%256 == 0, p.to%256 == 0)
				}
				mu.Lock()
				cycles++
				crlfServed += int64(srv.crlf)
				mu.Unlock()
				if len(srv.bad) > 0 {
					run.Report(sig("tile-request"), fmt.Sprintf("feeding %d -> %d: %s", p.from, p.to, srv.bad[0]), rep)
					continue
				}
				if err != nil || sw.calls != 1 {
					run.Report(sig("feed-failed"), fmt.Sprintf("feeding %d -> %d over a correct SumDB-style server failed: err=%v, Update calls=%d", p.from, p.to, err, sw.calls), rep)
					continue
				}
				if sw.old != uint64(p.from) || !bytes.Equal(sw.cp, cps[p.to]) {
					run.Report(sig("update-arguments"), fmt.Sprintf("feeding %d -> %d: Update got old=%d", p.from, p.to, sw.old), rep)
					continue
				}
				ok, _ := ref6962.Verify(uint64(p.from), uint64(p.to), sw.proof, u.Main.Root(p.from), u.Main.Root(p.to))
				merr := proof.VerifyConsistency(rfc6962.DefaultHasher, uint64(p.from), uint64(p.to), sw.proof, u.Main.Root(p.from), u.Main.Root(p.to))
				if !ok || merr != nil {
					run.Report(sig("proof-invalid"), fmt.Sprintf("feeding %d -> %d: the feeder's proof (%d hashes) is rejected by the RFC 6962 reference (%v) / merkle (%v)", p.from, p.to, len(sw.proof), ok, merr), rep)
					continue
				}
				// Accepted by the real witness holding cp(from): every 7th pair
				// and all pairs touching a tile boundary (the proof has already
				// been verified by two independent verifiers above).
				if (p.from+p.to)%7 == 0 || p.from%256 <= 1 || p.to%256 <= 1 || p.from%256 == 255 || p.to%256 == 255 {
					e := wh.NewEnv(u, wh.Config{Store: "mem", Logs: []wh.LogCfg{la}})
					e.Do(wh.Req{LogID: la.ID(), CP: cps[p.from]})
					out := e.Do(wh.Req{LogID: la.ID(), Old: sw.old, CP: sw.cp, Proof: sw.proof})
					e.Close()
					mu.Lock()
					run.Add("pairs_submitted_to_real_witness", 1)
					mu.Unlock()
					if out.Class != wh.OK {
						run.Report(sig("witness-refused"), fmt.Sprintf("feeding %d -> %d: the real witness refused the feeder's step: %v", p.from, p.to, out.Err), rep)
					}
				}
				_ = f_log.Checkpoint{}
			}
		}()
	}
	for _, p := range pairs {
		ch <- p
	}
	close(ch)
	wg.Wait()
	// One wrong answer, then correct ones: the feeder retries and gets there
	// (a tile or checkpoint fetched once must not poison later attempts). For
	// pairs that need complete tiles, every request position x four kinds of
	// wrong answer; the retry loop's back-off timers fire at once, at most 4.
	var transient int64
	for _, p := range []pair{{from: 300, to: 700}, {from: 100, to: 600}, {from: 255, to: 513}, {from: 1, to: 300}} {
		dry := &sumdbServer{hashes: srvAll.hashes, size: int64(p.to), latest: cpsGet(cps, u, origin, p.to)}
		witCP := u.Sign(uni.Body(origin, uint64(p.from), u.Main.Root(p.from)), u.K1.Signer, u.W1.CosigSigner)
		ctx0, rel0 := wh.NoRetryContext(context.Background())
		_ = c18FeedLog(ctx0, cl, &c18Witness{latest: witCP}, &http.Client{Transport: dry}, 0)
		rel0()
		for at := 0; at < dry.nreq; at++ {
			for _, kind := range []string{"truncated", "zeros", "http-500", "conn-error"} {
				srv := &sumdbServer{hashes: srvAll.hashes, size: int64(p.to), latest: dry.latest, faultAt: at, faultKind: kind}
				// A witness that verifies proofs, as the real one does (x/mod's
				// tlog.TileHashReader lets a zeroed full level-0 tile through -
				// measured - so the feeder may well submit a wrong proof after a
				// damaged answer; the witness refuses it and the feeder retries).
				sw := &c18Witness{latest: witCP, verify: func(old uint64, _ []byte, pr [][]byte) bool {
					ok, _ := ref6962.Verify(old, uint64(p.to), pr, u.Main.Root(int(old)), u.Main.Root(p.to))
					return old == uint64(p.from) && ok
				}}
				ctx, cancel := context.WithCancel(context.Background())
				fired := 0
				unhook := wh.GoroutineTimerHook(func(time.Duration) bool {
					fired++
					if fired > 4 {
						cancel()
						return false
					}
					return true
				})
				err := c18FeedLog(ctx, cl, sw, &http.Client{Transport: srv}, 0)
				unhook()
				cancel()
				transient++
				if len(srv.bad) > 0 {
					run.Report("tile-request after-one-wrong-answer kind="+kind, fmt.Sprintf("feeding %d -> %d with request #%d answered wrongly once (%s): %s", p.from, p.to, at, kind, srv.bad[0]), map[string]any{"kind": "sumdb-transient", "from": p.from, "to": p.to, "at": at, "fault": kind})
					continue
				}
				// The fetch of /latest is not retried inside a cycle (the cycle
				// fails and the next poll repeats it): only proofs are.
				if at == 0 {
					continue
				}
				if err != nil || sw.calls != 1 || sw.old != uint64(p.from) {
					run.Report("no-recovery-after-one-wrong-answer kind="+kind, fmt.Sprintf("feeding %d -> %d: request #%d (%s) was answered wrongly once (%s), every later answer was correct, but after %d immediate retries the cycle ended with err=%v and %d Update calls", p.from, p.to, at, srv.reqs[at], kind, fired, err, sw.calls), map[string]any{"kind": "sumdb-transient", "from": p.from, "to": p.to, "at": at, "fault": kind})
					continue
				}
				if sw.refused > 0 {
					run.Add("wrong_proofs_submitted_after_a_damaged_tile_and_refused_by_the_witness", int64(sw.refused))
				}
			}
		}
	}
	// Tiles are raw hashes: any first byte is legitimate. Small trees whose first
	// leaf is searched so that the first tile begins with a byte that
	// content-sniffing code treats specially ('<' of markup, '{' '[' of JSON, a
	// UTF-8 BOM, white space, NUL, '#', '%'); every step 1..7 -> 8 must be fed
	// with a proof the reference accepts.
	for _, b0 := range []byte{'<', '{', '[', ' ', '\n', '\t', '\r', 0xEF, 0x00, '#', '%', '-', 0xFF} {
		var data [][]byte
		for i := 0; ; i++ {
			d := []byte(fmt.Sprintf("verif: sniffed leaf %d", i))
			if h := tlog.RecordHash(d); h[0] == b0 {
				data = append(data, d)
				break
			}
		}
		for i := 1; i < 8; i++ {
			data = append(data, []byte(fmt.Sprintf("verif: sniffed tree %02x leaf %d", b0, i)))
		}
		tree := ref6962.NewTree(data)
		sv := &sumdbServer{}
		for i, d := range data {
			hs, err := tlog.StoredHashes(int64(i), d, sv)
			if err != nil {
				ev.Internal("StoredHashes: %v", err)
			}
			sv.hashes = append(sv.hashes, hs...)
		}
		root := func(n int) []byte { r := tree.Root(n); return r[:] }
		for from := 1; from < 8; from++ {
			srv := &sumdbServer{hashes: sv.hashes, size: 8, latest: u.Sign(uni.Body(origin, 8, root(8)), u.K1.Signer)}
			sw := &c18Witness{latest: u.Sign(uni.Body(origin, uint64(from), root(from)), u.K1.Signer, u.W1.CosigSigner)}
			ctx, release := wh.NoRetryContext(context.Background())
			err := c18FeedLog(ctx, cl, sw, &http.Client{Transport: srv}, 0)
			release()
			cycles++
			run.Add("feed_cycles_on_trees_with_a_chosen_first_tile_byte", 1)
			ok := false
			if err == nil && sw.calls == 1 {
				ok, _ = ref6962.Verify(uint64(from), 8, sw.proof, root(from), root(8))
			}
			if !ok {
				run.Report(fmt.Sprintf("feed-failed first-tile-byte=0x%02x", b0), fmt.Sprintf("a log whose first hash tile begins with byte 0x%02x: feeding %d -> 8 over a correct SumDB-style server failed (err=%v, Update calls=%d, proof accepted by the reference: %v)", b0, from, err, sw.calls, ok), map[string]any{"kind": "sumdb-sniff", "byte": int(b0), "from": from})
				break
			}
		}
	}
	// Polling mode: ONE FeedLog call (interval > 0) follows the log through
	// several growths (whatever the feeder keeps between cycles - clients,
	// contexts, readers - must keep working).
	{
		var pmu sync.Mutex
		cur := 300
		srvFor := func() *sumdbServer {
			pmu.Lock()
			defer pmu.Unlock()
			return &sumdbServer{hashes: srvAll.hashes, size: int64(cur), latest: cpsGet(cps, u, origin, cur)}
		}
		var bad []string
		outage := 0 // the next so many requests are answered 503 (an outage of the log that ends)
		tr := roundTripFunc(func(r *http.Request) (*http.Response, error) {
			if err := r.Context().Err(); err != nil {
				return nil, err
			}
			pmu.Lock()
			down := outage > 0
			if down {
				outage--
			}
			pmu.Unlock()
			if down {
				return &http.Response{StatusCode: 503, Status: "503 Service Unavailable", Body: io.NopCloser(strings.NewReader("try later")), Header: http.Header{}, Request: r}, nil
			}
			sv := srvFor()
			resp, err := sv.RoundTrip(r)
			pmu.Lock()
			bad = append(bad, sv.bad...)
			pmu.Unlock()
			return resp, err
		})
		pw := &c18PollWitness{latest: u.Sign(uni.Body(origin, 100, u.Main.Root(100)), u.K1.Signer, u.W1.CosigSigner), size: 100, u: u, origin: origin}
		ctx, cancel := context.WithCancel(context.Background())
		done := make(chan error, 1)
		go func() { done <- c18FeedLog(ctx, cl, pw, &http.Client{Transport: tr}, 40*time.Millisecond) }()
		for step, size := range []int{300, 700, 1100, 1200, 1201} {
			pmu.Lock()
			cur = size
			if step == 1 || step == 3 {
				// Whatever the client keeps per failed request (a slot, a
				// connection, a counter) adds up over an outage.
				outage = 7
			}
			pmu.Unlock()
			deadline := time.Now().Add(60 * time.Second)
			for pw.Size() != uint64(size) && time.Now().Before(deadline) {
				time.Sleep(20 * time.Millisecond)
			}
			if got := pw.Size(); got != uint64(size) {
				run.Report(fmt.Sprintf("polling-feeder-stops-following growth-step=%d", step), fmt.Sprintf("one FeedLog call polling every 40 ms: the log grew to %d (growth step %d) but after 60 s the witness is still at %d; refused submissions: %d", size, step, got, pw.Refused()), map[string]any{"kind": "sumdb-polling", "step": step})
				break
			}
		}
		cancel()
		select {
		case <-done:
		case <-time.After(30 * time.Second):
			run.Report("polling-feeder-does-not-stop", "sumdb.FeedLog did not return within 30 s of its context being cancelled", map[string]any{"kind": "sumdb-polling"})
		}
		pmu.Lock()
		if len(bad) > 0 {
			run.Report("tile-request polling", fmt.Sprintf("polling feeder: %s", bad[0]), map[string]any{"kind": "sumdb-polling"})
		}
		pmu.Unlock()
		run.Add("polling_growth_steps", 5)
	}
	run.Set("cycles_with_one_wrong_answer", transient)
	run.Set("text_labelled_answers_containing_crlf", crlfServed)
	if crlfServed == 0 {
		run.Vacuous("no tile served with a text/* label contained CR LF")
	}
	for _, p := range pairs {
		if p.to-p.from == 1 || p.from == 1 {
			run.Distinct(fmt.Sprintf("pair|%d|%d", p.from, p.to))
		}
	}
	run.Sample(map[string]any{"feed_cycle": "witness at 255, SumDB-style server at 257", "checks": "tile paths exist at size 257 with true widths; proof verifies under ref6962, merkle and is accepted by the real witness"})
	run.Set("feed_cycles", cycles)
	run.Set("size_pairs", len(pairs))
	run.Set("max_size", maxN)
	evals += cycles
	run.Set("evaluations", evals)
	run.Set("distinct_nontrivial", int(evals))
	run.Set("exhaustive", true)
	run.Set("rule", fmt.Sprintf("base URLs: host only, and (reduced coordinate set / pairs up to 40 + tile boundaries + the large pairs) with a one- and a two-segment path component - every request must stay below the base; addressing: for every level 0..7, every index 0..2100 plus every carry boundary of the x%%03d encoding up to 10^9 (+-1), widths 1..256 (all widths on indices <= 40 and around multiples of 1000, 8 boundary widths elsewhere): the path requested by SumDBClient.TileData / FullLeavesAtOffset / PartialLeavesAtOffset (observed at the HTTP transport) equals tlog.Tile.Path(). Content: 13 eight-leaf trees whose first tile begins with '<', '{', '[', white space, a BOM byte, NUL, '#', '%', '-', 0xFF - every step k -> 8. Polling: one FeedLog call follows five growths, two of them after an outage of seven 503 answers. Proofs: the real sumdb.FeedLog (interval 0) for ALL pairs 1 <= from < to <= %d plus 59 pairs reaching up to 70 000 leaves (full tiles above level 0, the same tile index at two levels within one proof) against an in-process server that serves /latest and tlog tiles of a generated tree and rejects any tile that does not exist at that size or is requested with a wrong width; the proof handed to the witness must verify with the independent RFC 6962 reference and merkle/proof, and (boundary pairs and every 7th pair) be accepted by the real witness. distinct_nontrivial = coordinates + feed cycles, all distinct by construction", maxN))
	return run.Finish()
}

// cpsGet returns (and caches) the log's checkpoint at size n.
func cpsGet(cps map[int][]byte, u *uni.U, origin string, n int) []byte {
	if b, ok := cps[n]; ok {
		return b
	}
	cps[n] = u.Sign(uni.Body(origin, uint64(n), u.Main.Root(n)), u.K1.Signer)
	return cps[n]
}

// c18Addressing: every tile coordinate requested by the SumDB client against
// the reference tlog path (shared with C14, whose feeders depend on it).
func c18Addressing(run *ev.Run) int64 {
	var evals int64
	// ------------------------------------------------ addressing
	rec := &pathRecorder{}
	u0 := uni.New(ev.Seed(), 2, nil)
	sc := client.NewSumDB(8, u0.K1.Verif, "http://sumdb.test", &http.Client{Transport: rec})
	last := func() string {
		rec.mu.Lock()
		defer rec.mu.Unlock()
		if len(rec.paths) != 1 {
			n := len(rec.paths)
			rec.paths = rec.paths[:0]
			return fmt.Sprintf("<%d requests instead of 1>", n)
		}
		p := rec.paths[0]
		rec.paths = rec.paths[:0]
		return p
	}
	idxSet := map[int64]bool{}
	for i := int64(0); i <= 2100; i++ {
		idxSet[i] = true
	}
	for _, base := range []int64{1000, 1000000, 1000000000} {
		for _, m := range []int64{1, 2, 9, 10, 99, 100, 999} {
			for _, d := range []int64{-1, 0, 1} {
				if v := base*m + d; v >= 0 && v <= 1000000001 {
					idxSet[v] = true
				}
			}
		}
	}
	idxSet[999999] = true
	idxSet[999999999] = true
	idxSet[123456789] = true
	widths := []int{}
	for w := 1; w <= 256; w++ {
		widths = append(widths, w)
	}
	wsub := []int{1, 2, 9, 10, 99, 100, 255, 256}
	var addrBad int
	for n := range idxSet {
		ws := wsub
		if n <= 40 || n%1000 == 999 || n%1000 == 0 {
			ws = widths
		}
		for level := 0; level <= 7; level++ {
			for _, w := range ws {
				partial := w
				if w == 256 {
					partial = -1 // as the feeder's tile reader maps the full width
				}
				_, _ = sc.TileData(level, int(n), partial)
				got := last()
				want := "/" + tlog.Tile{H: 8, L: level, N: n, W: w}.Path()
				evals++
				if w == 256 && got == want {
					// The client documents "partial > 0 => partial tile": 0
					// names the full tile just as the feeder's -1 does.
					_, _ = sc.TileData(level, int(n), 0)
					got = last()
					evals++
				}
				if got != want {
					addrBad++
					run.Report(fmt.Sprintf("tile-path kind=hash carry=%v partial=%v", n >= 1000, w < 256), fmt.Sprintf("TileData(level=%d, offset=%d, width=%d) requested %s, the reference tlog path is %s", level, n, w, got, want), map[string]any{"kind": "tile-path", "level": level, "n": n, "w": w})
				}
			}
		}
		// data tiles
		_, _ = sc.FullLeavesAtOffset(int(n))
		got := last()
		want := "/" + tlog.Tile{H: 8, L: -1, N: n, W: 256}.Path()
		evals++
		if got != want {
			run.Report(fmt.Sprintf("tile-path kind=data-full carry=%v", n >= 1000), fmt.Sprintf("FullLeavesAtOffset(%d) requested %s, reference %s", n, got, want), map[string]any{"kind": "tile-path", "level": -1, "n": n, "w": 256})
		}
		for _, w := range wsub[:7] {
			_, _ = sc.PartialLeavesAtOffset(int(n), w)
			got := last()
			want := "/" + tlog.Tile{H: 8, L: -1, N: n, W: w}.Path()
			evals++
			if got != want {
				run.Report(fmt.Sprintf("tile-path kind=data-partial carry=%v", n >= 1000), fmt.Sprintf("PartialLeavesAtOffset(%d, %d) requested %s, reference %s", n, w, got, want), map[string]any{"kind": "tile-path", "level": -1, "n": n, "w": w})
			}
		}
	}
	// The same under base URLs that have a path component (a sumdb behind a
	// proxy or mirror): every request stays below the base.
	for _, prefix := range []string{"/mirror", "/sumdb/sum.golang.org"} {
		scp := client.NewSumDB(8, u0.K1.Verif, "http://sumdb.test"+prefix, &http.Client{Transport: rec})
		for _, n := range []int64{0, 1, 255, 999, 1000, 1001, 999999, 1000000, 123456789} {
			for level := 0; level <= 7; level++ {
				for _, w := range wsub {
					partial := w
					if w == 256 {
						partial = -1
					}
					_, _ = scp.TileData(level, int(n), partial)
					got := last()
					want := prefix + "/" + tlog.Tile{H: 8, L: level, N: n, W: w}.Path()
					evals++
					if got != want {
						run.Report(fmt.Sprintf("tile-path kind=hash base-url-with-path carry=%v partial=%v", n >= 1000, w < 256), fmt.Sprintf("base URL http://sumdb.test%s: TileData(level=%d, offset=%d, width=%d) requested %s, want %s", prefix, level, n, w, got, want), map[string]any{"kind": "tile-path", "level": level, "n": n, "w": w, "prefix": prefix})
					}
				}
			}
			_, _ = scp.FullLeavesAtOffset(int(n))
			got := last()
			evals++
			if want := prefix + "/" + (tlog.Tile{H: 8, L: -1, N: n, W: 256}).Path(); got != want {
				run.Report("tile-path kind=data-full base-url-with-path", fmt.Sprintf("base URL http://sumdb.test%s: FullLeavesAtOffset(%d) requested %s, want %s", prefix, n, got, want), map[string]any{"kind": "tile-path", "level": -1, "n": n, "w": 256, "prefix": prefix})
			}
		}
		_, _ = scp.LatestCheckpoint()
		evals++
		if got := last(); got != prefix+"/latest" {
			run.Report("latest-path base-url-with-path", fmt.Sprintf("base URL http://sumdb.test%s: LatestCheckpoint requested %s", prefix, got), map[string]any{"kind": "tile-path", "prefix": prefix})
		}
	}
	run.Set("tile_coordinates_checked", evals)
	run.Set("tile_indices", len(idxSet))
	run.Sample(map[string]any{"TileData": "level=3 offset=1000999 width=37", "expected": "/" + tlog.Tile{H: 8, L: 3, N: 1000999, W: 37}.Path()})

	return evals
}

type roundTripFunc func(*http.Request) (*http.Response, error)

func (f roundTripFunc) RoundTrip(r *http.Request) (*http.Response, error) { return f(r) }

// c18PollWitness holds one log's latest checkpoint and accepts a step only
// with a proof the RFC 6962 reference accepts (as the real witness does).
type c18PollWitness struct {
	mu      sync.Mutex
	latest  []byte
	size    uint64
	refused int
	u       *uni.U
	origin  string
}

func (w *c18PollWitness) Size() uint64 { w.mu.Lock(); defer w.mu.Unlock(); return w.size }
func (w *c18PollWitness) Refused() int { w.mu.Lock(); defer w.mu.Unlock(); return w.refused }
func (w *c18PollWitness) GetLatestCheckpoint(context.Context, string) ([]byte, error) {
	w.mu.Lock()
	defer w.mu.Unlock()
	return w.latest, nil
}
func (w *c18PollWitness) Update(_ context.Context, _ string, old uint64, cp []byte, p [][]byte) ([]byte, error) {
	w.mu.Lock()
	defer w.mu.Unlock()
	text, _, ok := uni.SplitNote(cp)
	var n uint64
	if ok {
		if l := strings.SplitN(text, "\n", 3); len(l) >= 2 {
			n, _ = strconv.ParseUint(l[1], 10, 64)
		}
	}
	if old != w.size {
		w.refused++
		return w.latest, witness.ErrCheckpointStale
	}
	if n < w.size || n > uint64(len(w.u.Main.Data)) {
		w.refused++
		return w.latest, witness.ErrInvalidProof
	}
	if n > w.size {
		if good, _ := ref6962.Verify(w.size, n, p, w.u.Main.Root(int(w.size)), w.u.Main.Root(int(n))); !good {
			w.refused++
			return w.latest, witness.ErrInvalidProof
		}
	}
	w.size = n
	w.latest = w.u.Sign(text, w.u.K1.Signer, w.u.W1.CosigSigner)
	return w.latest, nil
}

// c18FeedLog is sumdb.FeedLog with a panic of the code under test turned into
// the error of that cycle (a feed that panics did not deliver a proof).
func c18FeedLog(ctx context.Context, l config.Log, w feeder.Witness, c *http.Client, interval time.Duration) (err error) {
	defer func() {
		if p := recover(); p != nil {
			err = fmt.Errorf("sumdb.FeedLog panicked: %v", p)
		}
	}()
	return sumdb.FeedLog(ctx, l, w, c, interval)
}
