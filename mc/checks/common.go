// Package checks holds one file per property; each exposes a function
// registered in Registry and run by cmd/verifmc.
package checks

import (
	"fmt"
	"os"
	"runtime"

	"github.com/transparency-dev/witness/verifmc/ev"
	"github.com/transparency-dev/witness/verifmc/wh"
	"golang.org/x/mod/sumdb/tlog"
)

// Check runs one property at one tier and returns the exit code.
type Check func(tier string) int

// Registry maps property ids to checks.
var Registry = map[string]Check{}

// Replayers maps replay kinds to replay functions.
var Replayers = map[string]func(map[string]any) int{}

func workers() int {
	if os.Getenv("VERIF_WORKERS") != "" {
		var n int
		fmt.Sscanf(os.Getenv("VERIF_WORKERS"), "%d", &n)
		if n > 0 {
			return n
		}
	}
	n := runtime.NumCPU()
	if n > 16 {
		n = 16
	}
	return n
}

func logA() string { return "verif.example/log-a" }
func logB() string { return "verif.example/log-b" }
func logC() string { return "verif.example/log-c" }

// tlogVerdict is the third opinion on a consistency proof (x/mod tlog).
func tlogVerdict(s, n uint64, proof [][]byte, r1, r2 []byte) (ok bool, applicable bool) {
	if s == 0 || s >= n || len(r1) != 32 || len(r2) != 32 || n > 1<<62 {
		return false, false
	}
	var tp tlog.TreeProof
	for _, p := range proof {
		if len(p) != 32 {
			return false, true
		}
		var h tlog.Hash
		copy(h[:], p)
		tp = append(tp, h)
	}
	var h1, h2 tlog.Hash
	copy(h1[:], r1)
	copy(h2[:], r2)
	return tlog.CheckTree(tp, int64(n), h2, int64(s), h1) == nil, true
}

// retKind classifies the bytes returned by Update.
func retKind(s *wh.Step) string {
	id := s.Req.LogID
	switch {
	case s.Out.Bytes == nil:
		return "nil"
	case string(s.Out.Bytes) == s.Before.ByID[id] && s.Before.ByID[id] != "":
		return "stored"
	case s.Out.Class == wh.OK && string(s.Out.Bytes) == s.After.ByID[id]:
		return "new"
	}
	return "other"
}

var _ = ev.Seed

// Workers maps worker-subprocess names to entry points.
var Workers = map[string]func(args []string) int{}
