package checks

import (
	"database/sql"
	"fmt"
	"os"
	"path/filepath"
	"sort"

	_ "github.com/mattn/go-sqlite3"
	"github.com/transparency-dev/witness/verifmc/ev"
	"github.com/transparency-dev/witness/verifmc/uni"
	"github.com/transparency-dev/witness/verifmc/wh"
)

// legacyDBLeg (shared by C01, C06, C08, C16): the witness is started on a
// database file that an EARLIER RELEASE wrote - the on-disk format of the
// pinned commit, reproduced here statement by statement (table
// chkpts(logID BLOB PRIMARY KEY, chkpt BLOB, range BLOB); rows written with
// INSERT OR REPLACE and the log ID bound as a Go string, i.e. stored as TEXT) -
// holding validly cosigned checkpoints of two logs. The current tree's store and
// witness open it (Init runs, as at every start):
//
//	C06/C16  every log's checkpoint is served byte-identical to what the file
//	         holds; the log list names each log exactly once
//	C01      a same-size fork and a fork growth of what the file holds are refused
//	C08      the honest next step and a same-size re-submission are accepted
//
// A store whose current code cannot read what its previous version wrote has
// lost every acknowledged update at the upgrade.
func legacyDBLeg(run *ev.Run, prop string) {
	u := uni.New(ev.Seed(), 9, []int{0})
	gen := wh.NewCPGen(u)
	la := wh.LogCfg{Origin: logA() + "/legacy", Key: u.K1}
	lb := wh.LogCfg{Origin: logB() + "/legacy", Key: u.K2}
	dir, err := os.MkdirTemp(c06Scratch(), "legacy-")
	if err != nil {
		ev.Internal("legacy database leg: scratch: %v", err)
	}
	defer os.RemoveAll(dir)
	path := filepath.Join(dir, "witness.db")
	held := map[string][]byte{}
	size := map[string]int{la.ID(): 5, lb.ID(): 3}
	func() {
		db, err := sql.Open("sqlite3", path)
		if err != nil {
			ev.Internal("legacy database leg: %v", err)
		}
		defer db.Close()
		if _, err := db.Exec(`CREATE TABLE IF NOT EXISTS chkpts (
		logID BLOB PRIMARY KEY,
		chkpt BLOB,
		range BLOB
		)`); err != nil {
			ev.Internal("legacy database leg: %v", err)
		}
		for _, l := range []wh.LogCfg{la, lb} {
			n := size[l.ID()]
			cp := u.Sign(uni.Body(l.Origin, uint64(n), u.Main.Root(n)), l.Key.Signer, u.W1.Signer, u.W1.CosigSigner)
			held[l.ID()] = cp
			// As the pinned release's writer: ID bound as a string, range NULL.
			if _, err := db.Exec(`INSERT OR REPLACE INTO chkpts (logID, chkpt, range) VALUES (?, ?, ?)`, l.ID(), cp, nil); err != nil {
				ev.Internal("legacy database leg: %v", err)
			}
		}
	}()
	e := wh.NewEnv(u, wh.Config{Store: "file:" + path, Logs: []wh.LogCfg{la, lb}, Guard: true})
	defer func() {
		if !e.Blocked {
			e.Close()
		}
	}()
	rep := func(what string) map[string]any {
		return map[string]any{"kind": "legacy-database", "what": what}
	}
	run.Add("legacy_database_probes", 1)
	// Reads.
	if prop == "C06" || prop == "C16" || prop == "C05" {
		for _, l := range []wh.LogCfg{la, lb} {
			got, err := e.W.GetCheckpoint(l.ID())
			if err != nil || string(got) != string(held[l.ID()]) {
				run.Report("upgrade-loses-acknowledged-state read", fmt.Sprintf("a database written by the earlier release holds a cosigned checkpoint of %s at size %d; the current witness started on that file serves err=%v / %d bytes (exact: %v)", l.Origin, size[l.ID()], err, len(got), string(got) == string(held[l.ID()])), rep("read"))
			}
		}
		logs, err := e.W.GetLogs()
		sort.Strings(logs)
		want := []string{la.ID(), lb.ID()}
		sort.Strings(want)
		if err != nil || fmt.Sprint(logs) != fmt.Sprint(want) {
			run.Report("upgrade-loses-acknowledged-state log-list", fmt.Sprintf("started on a database written by the earlier release the log list is %d entries (err=%v), want exactly the two logs the file holds", len(logs), err), rep("log-list"))
		}
	}
	for _, l := range []wh.LogCfg{la, lb} {
		s := size[l.ID()]
		f := u.Forks[0]
		if prop == "C01" || prop == "C06" || prop == "C05" {
			before := e.Snap()
			cpS, mS := gen.Get(l, f, s, "plain")
			cpG, mG := gen.Get(l, f, s+1, "plain")
			cp0, m0 := gen.Get(l, f, s-1, "plain")
			for _, pr := range []wh.Req{
				{LogID: l.ID(), Old: uint64(s), CP: cpS, Meta: mS, Label: "same-size fork"},
				{LogID: l.ID(), Old: 0, CP: cpS, Meta: mS, Label: "same-size fork offered as a first submission"},
				{LogID: l.ID(), Old: uint64(s), CP: cpG, Proof: f.Proof(s, s+1), Meta: mG, Label: "fork growth"},
				{LogID: l.ID(), Old: 0, CP: cp0, Meta: m0, Label: "smaller fork offered as a first submission"},
			} {
				out := e.Do(pr)
				if e.Blocked {
					run.Report("upgrade store-blocked", "started on a database written by the earlier release a request did not return within 60 s", rep("blocked"))
					return
				}
				if out.Class == wh.OK || !e.Snap().Equal(before) {
					run.Report("upgrade-forgets-history probe="+pr.Label, fmt.Sprintf("the database written by the earlier release holds %s at size %d; the current witness started on it answered a %s with %s / changed its state: a second history cosigned", l.Origin, s, pr.Label, out.Class), rep(pr.Label))
					return
				}
			}
		}
		if prop == "C08" || prop == "C06" {
			cpR, mR := gen.Get(l, u.Main, s, "plain")
			cpG, mG := gen.Get(l, u.Main, s+2, "plain")
			for _, pr := range []wh.Req{
				{LogID: l.ID(), Old: uint64(s), CP: cpR, Meta: mR, Label: "honest same-size re-submission"},
				{LogID: l.ID(), Old: uint64(s), CP: cpG, Proof: u.Main.Proof(s, s+2), Meta: mG, Label: "honest growth"},
			} {
				out := e.Do(pr)
				if e.Blocked {
					run.Report("upgrade store-blocked", "started on a database written by the earlier release a request did not return within 60 s", rep("blocked"))
					return
				}
				if out.Class != wh.OK {
					run.Report("honest-step-refused-after-upgrade verdict="+out.Class, fmt.Sprintf("the database written by the earlier release holds %s at size %d; the current witness started on it answered the %s with %s (%v)", l.Origin, s, pr.Label, out.Class, out.Err), rep(pr.Label))
					return
				}
			}
		}
	}
	run.Hist("legacy_database", prop+": state of the earlier release served, defended and extended")
}
