package checks

import "github.com/transparency-dev/witness/verifmc/ev"

func c03StorageFailures(run *ev.Run) { runFaults(run, "C03", "quick", true) }
