package checks

import (
	"github.com/transparency-dev/witness/verifmc/ev"
	"github.com/transparency-dev/witness/verifmc/wh"
)

func pathExhaustive(run *ev.Run, prop string, mon func(*wh.Step)) {}
func c03StorageFailures(run *ev.Run)                               { runFaults(run, "C03", "quick", true) }
