package checks

import (
	"github.com/transparency-dev/witness/verifmc/ev"
	"github.com/transparency-dev/witness/verifmc/uni"
	"github.com/transparency-dev/witness/verifmc/wh"
)

func c03StorageFailures(run *ev.Run)                               { runFaults(run, "C03", "quick", true) }

func c10EndToEnd(run *ev.Run, u *uni.U, gen *wh.CPGen, la, lb wh.LogCfg) {}
