package checks

import (
	"encoding/json"
	"os/exec"
	"bytes"
	"context"
	"encoding/base64"
	"fmt"
	"github.com/transparency-dev/witness/internal/persistence"
	"github.com/transparency-dev/witness/verifmc/choice"
	"github.com/transparency-dev/witness/verifmc/lspwrap"
	"net/http"
	"os"
	"net/http/httptest"
	"strings"
	"sync/atomic"
	"testing/iotest"
	"time"

	"github.com/transparency-dev/witness/internal/config"
	"github.com/transparency-dev/witness/internal/feeder"
	"github.com/transparency-dev/witness/internal/feeder/bastion"
	"github.com/transparency-dev/witness/omniwitness"
	"github.com/transparency-dev/witness/verifmc/ev"
	"github.com/transparency-dev/witness/verifmc/uni"
	"github.com/transparency-dev/witness/verifmc/wh"
	"golang.org/x/time/rate"
)

func init() { Registry["C10"] = c10 }

// httpResp is what the endpoint answered.
type httpResp struct {
	Status int
	CT     string
	Body   string
	Writes int
}

// c10Body writes an add-checkpoint body in the tlog-witness format.
func c10Body(old uint64, proof [][]byte, cp []byte) []byte {
	var b bytes.Buffer
	fmt.Fprintf(&b, "old %d\n", old)
	for _, h := range proof {
		b.WriteString(base64.StdEncoding.EncodeToString(h))
		b.WriteByte('\n')
	}
	b.WriteByte('\n')
	b.Write(cp)
	return b.Bytes()
}

func c10Serve(h http.Handler, body []byte) httpResp { return c10ServeMode(h, body, "whole") }

// c10ServeMode: mode "whole" = body in one piece with Content-Length;
// "bytewise" = no Content-Length (chunked upload) and one byte per Read.
func c10ServeMode(h http.Handler, body []byte, mode string) httpResp {
	req := httptest.NewRequest(http.MethodPost, "/add-checkpoint", bytes.NewReader(body))
	if mode == "bytewise" {
		// ... and the last byte arrives together with io.EOF.
		req = httptest.NewRequest(http.MethodPost, "/add-checkpoint", iotest.DataErrReader(iotest.OneByteReader(bytes.NewReader(body))))
		req.ContentLength = -1
		req.TransferEncoding = []string{"chunked"}
	}
	rec := httptest.NewRecorder()
	h.ServeHTTP(rec, req)
	return httpResp{Status: rec.Code, CT: rec.Header().Get("Content-Type"), Body: rec.Body.String()}
}

// countingWitness records calls that reach the witness.
type countingWitness struct {
	in    feeder.Witness
	calls atomic.Int64
}

func (c *countingWitness) GetLatestCheckpoint(ctx context.Context, id string) ([]byte, error) {
	c.calls.Add(1)
	return c.in.GetLatestCheckpoint(ctx, id)
}

func (c *countingWitness) Update(ctx context.Context, id string, old uint64, cp []byte, p [][]byte) ([]byte, error) {
	c.calls.Add(1)
	return c.in.Update(ctx, id, old, cp, p)
}

func c10Logs(ls ...wh.LogCfg) []config.Log {
	var out []config.Log
	for _, l := range ls {
		cl, err := config.NewLog(l.Origin, l.Key.VKey, "http://unused.example/")
		if err != nil {
			panic(err)
		}
		out = append(out, cl)
	}
	return out
}

// c10Expect maps the protocol model to the HTTP answer.
func c10Expect(e *wh.Env, st wh.MState, r wh.Req) (status int, ct string, body string, exp wh.Expect) {
	first, _, ok := strings.Cut(string(r.CP), "\n")
	if !ok {
		return 400, "", "", wh.Expect{Class: "malformed", Claimed: true, Next: st}
	}
	id := uni.ID(first)
	lc, known := e.LogByID[id]
	if !known {
		return 404, "", "", wh.Expect{Class: wh.Unknown, Claimed: true, Next: st}
	}
	if id != r.LogID {
		// The endpoint files the checkpoint under the ID of its first line.
		return 0, "", "", wh.Expect{Claimed: false, Next: st}
	}
	exp = wh.Model(&lc, st, r)
	switch exp.Class {
	case wh.OK:
		return 200, "", "", exp
	case wh.NoSig:
		return 403, "", "", exp
	case wh.OldInvalid:
		return 400, "", "", exp
	case wh.Stale:
		return 409, "text/x.tlog.size", fmt.Sprintf("%d\n", st.Size), exp
	case wh.RootMismatch:
		return 409, "", "", exp
	case wh.BadProof:
		return 422, "", "", exp
	}
	return 500, "", "", exp
}

func c10Monitor(run *ev.Run) func(*wh.Step) {
	return func(s *wh.Step) {
		resp := s.Aux.(httpResp)
		status, ct, body, exp := c10Expect(s.Env, s.StBefore, s.Req)
		if !exp.Claimed {
			run.Add("cells_outside_claim", 1)
			return
		}
		cell := fmt.Sprintf("%s->%d", exp.Class, status)
		run.Hist("expected_answers", cell)
		run.Distinct(fmt.Sprintf("%s|%s|%s", s.StBefore.Key(), cell, s.Req.Label))
		if run.HistGet("expected_answers", cell) == 1 {
			run.Sample(map[string]any{"state": s.StBefore.Key(), "request": s.Req.Label, "expected": cell, "observed_status": resp.Status, "observed_body": resp.Body})
		}
		sig := func(k string) string {
			return fmt.Sprintf("%s verdict=%s expected-status=%d got-status=%d stored=%s", k, exp.Class, status, resp.Status, stKind(s.StBefore))
		}
		rep := s.Replay()
		rep["http"] = map[string]any{"status": resp.Status, "content_type": resp.CT, "body": resp.Body}
		if resp.Status != status {
			run.Report(sig("status"), fmt.Sprintf("request %q in state %s: endpoint answered %d, the tlog-witness protocol requires %d (%s)", s.Req.Label, s.StBefore.Key(), resp.Status, status, exp.Class), rep)
			return
		}
		if s.StAfter.Key() != exp.Next.Key() {
			run.Report(sig("state-after"), fmt.Sprintf("request %q: witness state after is %s, model says %s", s.Req.Label, s.StAfter.Key(), exp.Next.Key()), rep)
			return
		}
		switch status {
		case 200:
			// Body = cosignature line(s), each verifying under the published
			// witness key over the submitted text.
			lines := strings.Split(strings.TrimSuffix(resp.Body, "\n"), "\n")
			if resp.Body == "" || !strings.HasSuffix(resp.Body, "\n") {
				run.Report(sig("200-body-format"), fmt.Sprintf("request %q: 200 body is not newline-terminated signature lines: %q", s.Req.Label, resp.Body), rep)
				return
			}
			v := s.Env.U.W1.CosigVerif
			l, ok := countValid(v, s.Req.Meta.Text, lines)
			if l < 1 || ok != l || l != len(lines) {
				run.Report(sig("200-body-signature"), fmt.Sprintf("request %q: 200 body has %d lines, %d for the published witness key, %d valid over the submitted text", s.Req.Label, len(lines), l, ok), rep)
			}
		case 409:
			if ct != "" {
				if resp.CT != ct || resp.Body != body {
					run.Report(sig("409-stale-body"), fmt.Sprintf("request %q: stale answer must be Content-Type %s body %q, got %q %q", s.Req.Label, ct, body, resp.CT, resp.Body), rep)
				}
			} else if resp.CT == "text/x.tlog.size" {
				run.Report(sig("409-mismatch-marked-as-size"), fmt.Sprintf("request %q: root mismatch answered with the stale-size content type", s.Req.Label), rep)
			}
		}
	}
}

func c10(tier string) int {
	run := ev.NewRun("C10", tier, "model_checking")
	wh.InstallLogicalClock()
	n := 6
	if tier == "thorough" {
		n = 9
	}
	u := uni.New(ev.Seed(), n, []int{0, 3})
	gen := wh.NewCPGen(u)
	la := wh.LogCfg{Origin: logA(), Key: u.K1}
	lb := wh.LogCfg{Origin: logB(), Key: u.K2}
	setup := func(e *wh.Env) {
		e.X["handler"] = bastion.VerifNewHandler(omniwitness.VerifWitnessAdapter(e.W), c10Logs(la, lb), u.W1.CosigVerif, rate.Inf, 1, true)
	}
	do := func(e *wh.Env, r wh.Req) (wh.Outcome, any) {
		// Both stores see the same alphabet; the sql run delivers every body as
		// a chunked upload one byte at a time, the mem run in one piece.
		mode := "whole"
		if e.Cfg.Store == "sql" {
			mode = "bytewise"
		}
		resp := c10ServeMode(e.X["handler"].(http.Handler), c10Body(r.Old, r.Proof, r.CP), mode)
		out := wh.Outcome{Class: fmt.Sprintf("http-%d", resp.Status), Bytes: []byte(resp.Body)}
		if resp.Status == 200 {
			out.Class = wh.OK
		}
		return out, resp
	}
	alpha := wh.AlphaOpts{MaxN: n, Forged: true, HugeOlds: true, RichProof: true, Shapes: []string{"plain", "blankext"}}
	states, trans := 0, int64(0)
	for _, store := range []string{"mem", "sql"} {
		fn := func(st wh.MState) []wh.Req {
			reqs := wh.Alphabet(gen, la, st, alpha)
			// Unknown origin: a checkpoint of a log this witness does not know.
			cp := u.Sign(uni.Body("verif.example/unknown", 3, u.Main.Root(3)), u.K1.Signer)
			reqs = append(reqs, wh.Req{LogID: la.ID(), CP: cp, Meta: wh.Meta{Broken: true}, Label: "unknown origin"})
			// Origins that differ from a configured one only by spacing / case /
			// an extra character: not configured, hence 404 - never routed to
			// the configured log.
			for _, near := range []string{la.Origin + " ", " " + la.Origin, strings.ToUpper(la.Origin), la.Origin + "0", la.Origin + "\r", la.Origin[:len(la.Origin)-1]} {
				ncp := u.Sign(uni.Body(near, 3, u.Main.Root(3)), u.K1.Signer)
				reqs = append(reqs, wh.Req{LogID: la.ID(), CP: ncp, Meta: wh.Meta{Broken: true}, Label: fmt.Sprintf("near origin %q", near)})
			}
			return reqs
		}
		st, tr := wh.Search(wh.SearchOpts{U: u, Gen: gen, Store: store, Log: la, Extra: []wh.LogCfg{lb}, AlphaFn: fn,
			Workers: workers(), OnStep: c10Monitor(run), Run: run, DoFn: do, SetupFn: setup})
		states += st
		trans += tr
	}
	c10Malformed(run, u, gen, la, lb)
	c10RateLimit(run, u, gen, la, lb)
	c10RateRecovery(run, "C10")
	// Context leg: the client goes away before or at any storage call.
	ctxLeg(run, "C10")
	// The verdict classes and an origin sweep under the Prometheus metric factory.
	c10Prom(run)
	c10Overlap(run, u, gen, la, lb)
	c10HugeSizes(run, u, la, lb)
	c10Faults(run, u, gen, la, lb)
	c10EndToEnd(run, u, gen, la, lb)
	for _, c := range []string{"accepted->200", "no-valid-signature->403", "unknown-log->404", "old-size-invalid->400", "stale->409", "root-mismatch->409", "invalid-proof->422", "malformed->400"} {
		if run.HistGet("expected_answers", c) == 0 {
			run.Vacuous("answer class %s never exercised", c)
		}
	}
	run.Set("states", states)
	run.Set("transitions", trans)
	run.Set("traces_validated_against_impl", trans)
	run.Set("evaluations", trans+run.Get("malformed_bodies")+run.Get("rate_limit_requests"))
	run.Set("exhaustive", true)
	run.Set("rule", fmt.Sprintf("explicit-state BFS where every transition is an HTTP request to the real add-checkpoint handler (built as FeedBastion builds it, behind the same 16 KiB MaxBytesHandler; bodies delivered in one piece with Content-Length in the in-memory run and as a chunked upload one byte per Read in the sql run, malformed bodies both ways; plus every ordered pair of 7 requests overlapped deterministically inside one handler: B served completely while A is between body parsing and the witness, answers compared with the sequential order on a twin; plus the size-dependent answers for stored sizes around 2^31, 2^32, 2^53, 2^63 and 2^64; plus four requests under every placement of up to two interface-level storage faults: 200 only if the store holds the submitted checkpoint) in front of the real witness behind the real witnessAdapter; states are witness states reached through the endpoint (sizes 0..%d, forks at 0 and 3, both stores); alphabet = the C01 alphabet rendered as request bodies + unknown origin; oracle = wmodel composed with the protocol's status map, 200 bodies verified as cosignature lines over the submitted text, 409 stale bodies compared with the true size; plus malformed bodies and three rate-limit regimes. distinct_nontrivial = distinct (state, expected answer, request)", n))
	run.Assumption("the search is in process (httptest recorder); a 53-request transition tour (every verdict class in every state along none -> 2 -> 4 -> 6 -> 8) is also sent over a real TLS 1.3 + HTTP/2 reverse connection through the exported FeedBastion and compared, answer by answer, with the in-process handler on a twin witness")
	return run.Finish()
}

// c10Malformed: malformed bodies get 400, never reach the witness, in the
// empty state and with a stored checkpoint.
func c10Malformed(run *ev.Run, u *uni.U, gen *wh.CPGen, la, lb wh.LogCfg) {
	good, meta := gen.Get(la, u.Main, 4, "plain")
	_ = meta
	p := u.Main.Proof(2, 4)
	valid := c10Body(2, p, good)
	bodies := map[string][]byte{
		"empty body":               {},
		"no old line":              append([]byte("\n"), good...),
		"old line without number":  append([]byte("old \n\n"), good...),
		"old line negative":        append([]byte("old -1\n\n"), good...),
		"old overflow":             append([]byte("old 18446744073709551616\n\n"), good...),
		"wrong keyword":            append([]byte("new 2\n\n"), good...),
		"bad base64 proof line":    append([]byte("old 2\n!!!notbase64!!!\n\n"), good...),
		"missing blank line":       []byte("old 2\n" + base64.StdEncoding.EncodeToString(p[0]) + "\n"),
		"only old line":            []byte("old 2\n"),
		"checkpoint of one line":   []byte("old 0\n\njust-one-line-without-newline"),
		"checkpoint empty":         []byte("old 0\n\n"),
		"body over 16 KiB":         append(append([]byte{}, valid...), bytes.Repeat([]byte("x"), 17*1024)...),
		"proof region over 16 KiB": append([]byte("old 2\n"+strings.Repeat(base64.StdEncoding.EncodeToString(make([]byte, 32))+"\n", 400)+"\n"), good...),
	}
	for _, pm := range []struct {
		pre  bool
		mode string
	}{{false, "whole"}, {true, "whole"}, {false, "bytewise"}, {true, "bytewise"}} {
		pre := pm.pre
		for name, b := range bodies {
			e := wh.NewEnv(u, wh.Config{Store: "mem", Logs: []wh.LogCfg{la, lb}})
			cw := &countingWitness{in: omniwitness.VerifWitnessAdapter(e.W)}
			h := bastion.VerifNewHandler(cw, c10Logs(la, lb), u.W1.CosigVerif, rate.Inf, 1, true)
			if pre {
				cp, _ := gen.Get(la, u.Main, 2, "plain")
				if r := c10Serve(h, c10Body(0, nil, cp)); r.Status != 200 {
					c10SeedRefused(run, "malformed", r.Status)
				}
			}
			before := e.Snap()
			calls := cw.calls.Load()
			resp := c10ServeMode(h, b, pm.mode)
			run.Add("malformed_bodies", 1)
			run.Hist("expected_answers", "malformed->400")
			run.Distinct(fmt.Sprintf("malformed|%v|%s|%s", pre, name, pm.mode))
			rep := map[string]any{"kind": "http-body", "seeded": pre, "name": name, "body_b64": base64.StdEncoding.EncodeToString(b)}
			if resp.Status != 400 {
				run.Report(fmt.Sprintf("malformed-body status=%d name=%s", resp.Status, name), fmt.Sprintf("malformed body (%s) answered %d, want 400", name, resp.Status), rep)
			}
			if !e.Snap().Equal(before) {
				run.Report("malformed-body changed state name="+name, fmt.Sprintf("malformed body (%s) changed the witness state", name), rep)
			}
			if cw.calls.Load() != calls && resp.Status == 400 && name != "checkpoint of one line" {
				// reaching the witness is not forbidden by the property; recorded only.
				run.Add("malformed_bodies_that_reached_the_witness", 1)
			}
			e.Close()
		}
	}
}

// c10RateLimit: limit 0 => always 429 and the witness is never called; rate.Inf
// => never 429; limit r with burst floor(r) and m back-to-back requests over
// elapsed time d: at most floor(r) + r*d + 1 are not 429.
func c10RateLimit(run *ev.Run, u *uni.U, gen *wh.CPGen, la, lb wh.LogCfg) {
	cp, _ := gen.Get(la, u.Main, 2, "plain")
	body := c10Body(0, nil, cp)
	for _, regime := range []struct {
		name  string
		limit rate.Limit
		burst int
		m     int
	}{{"zero", 0, 0, 50}, {"inf", rate.Inf, 0, 50}, {"5-per-second", 5, 5, 200}, {"0.5-per-second", 0.5, 0, 20}} {
		e := wh.NewEnv(u, wh.Config{Store: "mem", Logs: []wh.LogCfg{la, lb}})
		cw := &countingWitness{in: omniwitness.VerifWitnessAdapter(e.W)}
		h := bastion.VerifNewHandler(cw, c10Logs(la, lb), u.W1.CosigVerif, regime.limit, regime.burst, true)
		t0 := time.Now()
		served, pushed := 0, 0
		for i := 0; i < regime.m; i++ {
			calls := cw.calls.Load()
			br := &readCounter{r: bytes.NewReader(body)}
			req := httptest.NewRequest(http.MethodPost, "/", br)
			rec := httptest.NewRecorder()
			h.ServeHTTP(rec, req)
			run.Add("rate_limit_requests", 1)
			if rec.Code == 429 {
				pushed++
				if cw.calls.Load() != calls || br.n > 0 {
					run.Report("rate-limited-request-processed regime="+regime.name, fmt.Sprintf("a request answered 429 reached the witness or had its body read (%d bytes)", br.n), map[string]any{"kind": "rate-limit", "regime": regime.name})
				}
			} else {
				served++
			}
		}
		el := time.Since(t0).Seconds()
		run.Hist("rate_limit", fmt.Sprintf("%s served=%d pushed-back=%d", regime.name, served, pushed))
		run.Distinct("rate|" + regime.name)
		switch regime.name {
		case "zero":
			if served != 0 {
				run.Report("rate-limit-zero-served", fmt.Sprintf("limit 0: %d of %d requests were served", served, regime.m), map[string]any{"kind": "rate-limit", "regime": regime.name})
			}
		case "inf":
			if pushed != 0 {
				run.Report("rate-limit-inf-pushed-back", fmt.Sprintf("no limit: %d of %d requests were answered 429", pushed, regime.m), map[string]any{"kind": "rate-limit", "regime": regime.name})
			}
		default:
			max := float64(regime.burst) + float64(regime.limit)*el + 1
			if float64(served) > max {
				run.Report("rate-limit-exceeded regime="+regime.name, fmt.Sprintf("limit %v burst %d: %d requests served in %.3fs, more than %.1f", regime.limit, regime.burst, served, el, max), map[string]any{"kind": "rate-limit", "regime": regime.name})
			}
			if regime.burst > 0 && served == 0 {
				run.Report("rate-limit-served-nothing regime="+regime.name, "a positive limit with a burst served no request at all", map[string]any{"kind": "rate-limit", "regime": regime.name})
			}
		}
		e.Close()
	}
}

// c10RateRecovery: pushed-back requests are not processed - and they do not
// count against later requests either: after a burst far above the configured
// rate and a quiet period long enough for a token-bucket of that rate to hold
// a token again (sleeping longer only adds tokens, so slowness cannot raise an
// alarm), an honest growth step through the endpoint is answered on its
// merits (200), not 429. Shared by C10 (429 only for requests over the rate)
// and C08 (refused requests never stop an honest step).
func c10RateRecovery(run *ev.Run, prop string) {
	u := uni.New(ev.Seed(), 8, nil)
	gen := wh.NewCPGen(u)
	la := wh.LogCfg{Origin: logA(), Key: u.K1}
	lb := wh.LogCfg{Origin: logB(), Key: u.K2}
	cp2, _ := gen.Get(la, u.Main, 2, "plain")
	cp4, _ := gen.Get(la, u.Main, 4, "plain")
	junk := []byte("old x\n\nnot a checkpoint")
	for _, regime := range []struct {
		limit rate.Limit
		burst int
		flood int
		quiet time.Duration
	}{{5, 5, 200, 600 * time.Millisecond}, {20, 1, 400, 300 * time.Millisecond}, {2, 2, 60, 1200 * time.Millisecond}} {
		for _, kind := range []string{"valid-resubmissions", "malformed-bodies"} {
			e := wh.NewEnv(u, wh.Config{Store: "mem", Logs: []wh.LogCfg{la, lb}})
			h := bastion.VerifNewHandler(omniwitness.VerifWitnessAdapter(e.W), c10Logs(la, lb), u.W1.CosigVerif, regime.limit, regime.burst, true)
			name := fmt.Sprintf("%v-per-second-burst-%d flood=%s", regime.limit, regime.burst, kind)
			if r := c10Serve(h, c10Body(0, nil, cp2)); r.Status != 200 {
				run.Report("rate-limit-first-request-not-served regime="+name, fmt.Sprintf("limit %v burst %d: the very first request was answered %d", regime.limit, regime.burst, r.Status), map[string]any{"kind": "rate-limit", "regime": name})
				e.Close()
				continue
			}
			pushed := 0
			for i := 0; i < regime.flood; i++ {
				b := c10Body(2, nil, cp2)
				if kind == "malformed-bodies" {
					b = junk
				}
				if c10Serve(h, b).Status == 429 {
					pushed++
				}
			}
			time.Sleep(regime.quiet)
			r := c10Serve(h, c10Body(2, u.Main.Proof(2, 4), cp4))
			run.Add("rate_recovery_probes", 1)
			run.Hist("rate_recovery", fmt.Sprintf("%s pushed-back=%d-of-%d then=%d", name, pushed/50*50, regime.flood, r.Status))
			if r.Status != 200 {
				run.Report(fmt.Sprintf("honest-step-after-pushback status=%d", r.Status), fmt.Sprintf("limit %v/s burst %d: %d of %d %s were pushed back (429); %s later - enough for the bucket to hold a token again - an honest growth 2->4 was answered %d, want 200", regime.limit, regime.burst, pushed, regime.flood, kind, regime.quiet, r.Status), map[string]any{"kind": "rate-limit", "regime": name})
			}
			e.Close()
		}
	}
	_ = prop
}

type readCounter struct {
	r *bytes.Reader
	n int
}

func (r *readCounter) Read(p []byte) (int, error) {
	n, err := r.r.Read(p)
	r.n += n
	return n, err
}

// reentrantWitness serves a second request through the same handler at the
// moment the first request's Update is about to reach the witness: a
// deterministic overlap of two requests inside one handler (request A's body
// has been parsed, request B is parsed and answered, then A continues).
type reentrantWitness struct {
	in    feeder.Witness
	armed bool
	hook  func()
}

func (w *reentrantWitness) GetLatestCheckpoint(ctx context.Context, id string) ([]byte, error) {
	return w.in.GetLatestCheckpoint(ctx, id)
}

func (w *reentrantWitness) Update(ctx context.Context, id string, old uint64, cp []byte, p [][]byte) ([]byte, error) {
	if w.armed {
		w.armed = false
		w.hook()
	}
	return w.in.Update(ctx, id, old, cp, p)
}

// c10Overlap: every ordered pair (A, B) of requests from a small menu, B
// served completely while A is between body parsing and the witness; both
// answers must be what the sequential order B; A gives on a twin witness, and
// every 200 body must be a valid cosignature over the text THAT request
// submitted.
func c10Overlap(run *ev.Run, u *uni.U, gen *wh.CPGen, la, lb wh.LogCfg) {
	type reqT struct {
		name string
		l    wh.LogCfg
		body []byte
		text string
	}
	mk := func(name string, l wh.LogCfg, b *uni.Branch, old, n int, shape string, proof [][]byte) reqT {
		cp, meta := gen.Get(l, b, n, shape)
		return reqT{name, l, c10Body(uint64(old), proof, cp), meta.Text}
	}
	m := u.Main
	menu := []reqT{
		mk("growth A 2->4", la, m, 2, 4, "plain", m.Proof(2, 4)),
		mk("growth A 2->5 (ext)", la, m, 2, 5, "ext", m.Proof(2, 5)),
		mk("refresh A @2", la, m, 2, 2, "plain", nil),
		mk("bad proof A 2->4", la, m, 2, 4, "plain", m.Proof(1, 4)),
		mk("growth B 2->3", lb, m, 2, 3, "plain", m.Proof(2, 3)),
		mk("growth B 2->6 (bigger)", lb, m, 2, 6, "ext", m.Proof(2, 6)),
		mk("stale B old=1", lb, m, 1, 3, "plain", m.Proof(1, 3)),
	}
	seed := func(h http.Handler) {
		for _, l := range []wh.LogCfg{la, lb} {
			cp, _ := gen.Get(l, m, 2, "plain")
			if r := c10Serve(h, c10Body(0, nil, cp)); r.Status != 200 {
				c10SeedRefused(run, "overlap", r.Status)
			}
		}
	}
	for _, a := range menu {
		for _, b := range menu {
			// Twin: B then A, sequentially.
			te := wh.NewEnv(u, wh.Config{Store: "mem", Logs: []wh.LogCfg{la, lb}})
			th := bastion.VerifNewHandler(omniwitness.VerifWitnessAdapter(te.W), c10Logs(la, lb), u.W1.CosigVerif, rate.Inf, 1, true)
			seed(th)
			wantB := c10Serve(th, b.body)
			wantA := c10Serve(th, a.body)
			te.Close()
			// Overlapped.
			e := wh.NewEnv(u, wh.Config{Store: "mem", Logs: []wh.LogCfg{la, lb}})
			rw := &reentrantWitness{in: omniwitness.VerifWitnessAdapter(e.W)}
			h := bastion.VerifNewHandler(rw, c10Logs(la, lb), u.W1.CosigVerif, rate.Inf, 1, true)
			seed(h)
			var gotB httpResp
			rw.hook = func() { gotB = c10Serve(h, b.body) }
			rw.armed = true
			gotA := c10Serve(h, a.body)
			reached := !rw.armed
			e.Close()
			run.Add("overlapped_request_pairs", 1)
			if !reached {
				// A never reached the witness (refused by the handler itself): no overlap.
				continue
			}
			rep := map[string]any{"kind": "overlap", "a": a.name, "b": b.name}
			chk := func(which string, q reqT, got, want httpResp) {
				sig := fmt.Sprintf("overlapping-requests %s same-log=%v", which, a.l.Origin == b.l.Origin)
				if got.Status != want.Status {
					run.Report(sig+fmt.Sprintf(" status=%d want=%d", got.Status, want.Status), fmt.Sprintf("request A %q with request B %q served while A was between parsing and the witness: %s (%q) answered %d, sequentially (B then A) it is %d", a.name, b.name, which, q.name, got.Status, want.Status), rep)
					return
				}
				if got.Status == 200 {
					lines := strings.Split(strings.TrimSuffix(got.Body, "\n"), "\n")
					if l, ok := countValid(u.W1.CosigVerif, q.text, lines); l < 1 || ok != l {
						run.Report(sig+" cosignature-not-over-submitted-text", fmt.Sprintf("request A %q overlapped by B %q: the 200 body of %s does not verify over the text that request submitted", a.name, b.name, which), rep)
					}
				}
			}
			chk("A", a, gotA, wantA)
			chk("B", b, gotB, wantB)
		}
	}
}

// c10Faults: "200 only when the submitted checkpoint was accepted" under
// storage failures - for a few requests, every placement of up to two
// interface-level storage faults inside the witness behind the handler: a 200
// answer means the store holds the submitted text (and the body is a valid
// cosignature over it); any other answer to a faulted request leaves the
// state unchanged (unless the fault took effect before it was reported).
func c10Faults(run *ev.Run, u *uni.U, gen *wh.CPGen, la, lb wh.LogCfg) {
	m := u.Main
	type reqT struct {
		name  string
		old   int
		n     int
		proof [][]byte
	}
	reqs := []reqT{{"first use", 0, 2, nil}, {"growth 2->4", 2, 4, m.Proof(2, 4)}, {"refresh @2", 2, 2, nil}, {"bad proof 2->4", 2, 4, m.Proof(1, 4)}}
	var n int64
	for _, store := range []string{"mem", "sql"} {
		for _, rq := range reqs {
			st, err := choice.Explore(2, func(c *choice.C) {
				active, afterEffect := false, false
				cfg := wh.Config{Store: store, Logs: []wh.LogCfg{la, lb}}
				cfg.Wrap = func(p persistence.LogStatePersistence) persistence.LogStatePersistence {
					return lspwrap.New(p, lspwrap.Hooks{Fault: func(op, id string) (error, bool) {
						if !active {
							return nil, false
						}
						opts := ifaceOptions(op, true)
						if len(opts) == 1 {
							return nil, false
						}
						switch k := opts[c.Choose(len(opts), op)]; k {
						case "ok":
							return nil, false
						case "err-after-effect":
							afterEffect = true
							return errInjected, true
						default:
							return faultErr(k), false
						}
					}})
				}
				e := wh.NewEnv(u, cfg)
				defer e.Close()
				h := bastion.VerifNewHandler(omniwitness.VerifWitnessAdapter(e.W), c10Logs(la, lb), u.W1.CosigVerif, rate.Inf, 1, true)
				if rq.old > 0 {
					cp, _ := gen.Get(la, m, rq.old, "plain")
					if r := c10Serve(h, c10Body(0, nil, cp)); r.Status != 200 {
						c10SeedRefused(run, "faults", r.Status)
					}
				}
				cp, meta := gen.Get(la, m, rq.n, "plain")
				before := e.Snap()
				active = true
				resp := c10Serve(h, c10Body(uint64(rq.old), rq.proof, cp))
				active = false
				after := e.Snap()
				faulted := c.Deviations() > 0
				run.Hist("fault_answers", fmt.Sprintf("%s faulted=%v -> %d", rq.name, faulted, resp.Status))
				rep := map[string]any{"kind": "http-fault", "store": store, "request": rq.name, "faults": c.Trace(), "choices": c.Choices()}
				sig := func(k string) string {
					return fmt.Sprintf("%s request=%s status=%d store=%s", k, strings.ReplaceAll(rq.name, " ", "-"), resp.Status, store)
				}
				if resp.Status == 200 {
					text, _, ok := uni.SplitNote([]byte(after.ByID[la.ID()]))
					if !ok || text != meta.Text {
						run.Report(sig("200-but-not-stored"), fmt.Sprintf("%s with storage faults %v: answered 200 but the store does not hold the submitted checkpoint", rq.name, c.Trace()), rep)
						return
					}
					lines := strings.Split(strings.TrimSuffix(resp.Body, "\n"), "\n")
					if l, v := countValid(u.W1.CosigVerif, meta.Text, lines); l < 1 || v != l {
						run.Report(sig("200-body-signature-under-fault"), fmt.Sprintf("%s with storage faults %v: 200 body is not a valid cosignature over the submitted text", rq.name, c.Trace()), rep)
					}
					return
				}
				if !after.Equal(before) && !afterEffect {
					run.Report(sig("not-200-but-state-changed"), fmt.Sprintf("%s with storage faults %v: answered %d but the stored state changed", rq.name, c.Trace(), resp.Status), rep)
				}
			})
			if err != nil {
				ev.Internal("C10 fault exploration: %v", err)
			}
			n += st.Executions
		}
	}
	run.Set("http_fault_executions", n)
	run.Add("evaluations", n)
}

// c10HugeSizes: the size-dependent answers for stored sizes around 2^31, 2^32,
// 2^63 and 2^64 (a log can sign any size; first use accepts it): a stale old
// size gets 409 with the TRUE stored size as decimal body, an old size above
// the submitted size 400, the same size with another root 409.
func c10HugeSizes(run *ev.Run, u *uni.U, la, lb wh.LogCfg) {
	rootA, rootB := bytes.Repeat([]byte{0xa1}, 32), bytes.Repeat([]byte{0xb2}, 32)
	for _, size := range []uint64{7, 1<<31 - 1, 1 << 31, 1<<32 - 1, 1 << 32, 1<<53 + 1, 1<<63 - 1, 1 << 63, 1<<63 + 10, ^uint64(0) - 1, ^uint64(0)} {
		e := wh.NewEnv(u, wh.Config{Store: "mem", Logs: []wh.LogCfg{la, lb}})
		h := bastion.VerifNewHandler(omniwitness.VerifWitnessAdapter(e.W), c10Logs(la, lb), u.W1.CosigVerif, rate.Inf, 1, true)
		cp := u.Sign(uni.Body(la.Origin, size, rootA), la.Key.Signer)
		rep := map[string]any{"kind": "huge-size", "size": fmt.Sprint(size)}
		sig := func(k string, st int) string {
			return fmt.Sprintf("%s stored-size-class=%s status=%d", k, c19SizeClass(size), st)
		}
		if r := c10Serve(h, c10Body(0, nil, cp)); r.Status != 200 {
			run.Report(sig("huge-first-use", r.Status), fmt.Sprintf("first use of a log-signed checkpoint of size %d answered %d", size, r.Status), rep)
			e.Close()
			continue
		}
		run.Add("huge_size_probes", 1)
		// stale: old 0 (and old = size-1), same checkpoint.
		for _, old := range []uint64{0, size - 1} {
			if old == size {
				continue
			}
			r := c10Serve(h, c10Body(old, nil, cp))
			want := fmt.Sprintf("%d\n", size)
			if r.Status != 409 || r.CT != "text/x.tlog.size" || r.Body != want {
				run.Report(sig("huge-stale-answer", r.Status), fmt.Sprintf("stored size %d, stale old size %d: answered %d %q body %q, want 409 text/x.tlog.size %q", size, old, r.Status, r.CT, r.Body, want), rep)
			}
		}
		// same size, other root: 409 (conflict), state unchanged.
		other := u.Sign(uni.Body(la.Origin, size, rootB), la.Key.Signer)
		if r := c10Serve(h, c10Body(size, nil, other)); r.Status != 409 {
			run.Report(sig("huge-root-mismatch", r.Status), fmt.Sprintf("stored size %d, same size with another root: answered %d, want 409", size, r.Status), rep)
		}
		// old size above the submitted checkpoint's size: 400 (only expressible below 2^64-1).
		if size < ^uint64(0) {
			if r := c10Serve(h, c10Body(size+1, nil, cp)); r.Status != 400 {
				run.Report(sig("huge-old-above-checkpoint", r.Status), fmt.Sprintf("stored size %d, the same checkpoint submitted with old size %d: answered %d, want 400", size, size+1, r.Status), rep)
			}
		}
		// refresh: 200.
		if r := c10Serve(h, c10Body(size, nil, cp)); r.Status != 200 {
			run.Report(sig("huge-refresh", r.Status), fmt.Sprintf("stored size %d, refresh: answered %d, want 200", size, r.Status), rep)
		}
		e.Close()
	}
}

// c10SeedRefused: a valid first submission (old size 0, no proof, a checkpoint
// the log signed) to the real handler in front of an empty real witness was
// not answered 200 - the same oracle as the main sweep's (verdict accepted =>
// 200). The leg that needed the seeded state cannot go on; the run ends here.
func c10SeedRefused(run *ev.Run, leg string, status int) {
	run.Report(fmt.Sprintf("status verdict=accepted expected-status=200 got-status=%d stored=none", status),
		fmt.Sprintf("a valid first submission (old size 0, empty proof, log-signed checkpoint of size 2) was answered %d, want 200 (while preparing the %s leg; exploration cut here)", status, leg), map[string]any{"kind": "seed-refused", "leg": leg})
	run.Set("exhaustive", false)
	os.Exit(run.Finish())
}

// c03Endpoint (C03's view of the add-checkpoint endpoint): the same kind of
// search as C10's, smaller, over checkpoint shapes incl. extension lines with
// a blank line among them; whenever the endpoint does not answer 200 the
// witness's state (every log, log list) is byte-identical before and after and
// the answer carries no cosignature of the submitted text.
func c03Endpoint(run *ev.Run) {
	u := uni.New(ev.Seed(), 4, []int{0})
	gen := wh.NewCPGen(u)
	la := wh.LogCfg{Origin: logA(), Key: u.K1}
	lb := wh.LogCfg{Origin: logB(), Key: u.K2}
	setup := func(e *wh.Env) {
		e.X["handler"] = bastion.VerifNewHandler(omniwitness.VerifWitnessAdapter(e.W), c10Logs(la, lb), u.W1.CosigVerif, rate.Inf, 1, true)
	}
	do := func(e *wh.Env, r wh.Req) (wh.Outcome, any) {
		resp := c10ServeMode(e.X["handler"].(http.Handler), c10Body(r.Old, r.Proof, r.CP), "whole")
		out := wh.Outcome{Class: fmt.Sprintf("http-%d", resp.Status), Bytes: []byte(resp.Body)}
		if resp.Status == 200 {
			out.Class = wh.OK
		}
		return out, resp
	}
	mon := func(s *wh.Step) {
		run.Hist("endpoint_answers", s.Out.Class)
		if s.Out.Class == wh.OK {
			return
		}
		rep := s.Replay()
		rep["http"] = true
		sig := fmt.Sprintf("class=endpoint-%s stored=%s submitted-shape=%s", s.Out.Class, stKind(s.StBefore), s.Req.Meta.Shape)
		if !s.After.Equal(s.Before) {
			run.Report("state-changed "+sig, fmt.Sprintf("request %q through the add-checkpoint endpoint was answered %s, yet the witness's stored state changed", s.Req.Label, s.Out.Class), rep)
		}
		if s.Req.Meta.Text != "" {
			lines := strings.Split(strings.TrimSuffix(string(s.Out.Bytes), "\n"), "\n")
			if _, ok := countValid(u.W1.CosigVerif, s.Req.Meta.Text, lines); ok > 0 {
				run.Report("cosignature-released "+sig, fmt.Sprintf("request %q was answered %s with a valid witness cosignature of the submitted text in the body", s.Req.Label, s.Out.Class), rep)
			}
		}
	}
	for _, store := range []string{"mem", "sql"} {
		st, tr := wh.Search(wh.SearchOpts{U: u, Gen: gen, Store: store, Log: la, Extra: []wh.LogCfg{lb}, Alpha: wh.AlphaOpts{MaxN: 4, Forged: true, Shapes: []string{"plain", "ext", "blankext", "junk1", "stale-own-valid", "stale-own-invalid"}},
			Workers: workers(), OnStep: mon, Run: run, DoFn: do, SetupFn: setup})
		run.Add("states", int64(st))
		run.Add("transitions", tr)
		run.Add("traces_validated_against_impl", tr)
		run.Add("evaluations", tr)
		run.Add("endpoint_transitions", tr)
	}
}

// c10Prom: the named requests of every verdict class and the origin sweep
// through the handler in a worker process whose metric factory is the
// Prometheus one (the default of cmd/omniwitness; shared with C19): every
// answer is one of the documented statuses - a handler that panics while
// counting the answer has not answered.
func c10Prom(run *ev.Run) {
	self, _ := os.Executable()
	cmd := exec.Command(self, "worker", "c19prom")
	cmd.Env = append(os.Environ(), "VERIF_METRICS=prometheus")
	out, err := cmd.Output()
	var res struct {
		N      int64
		Panics []struct{ Name, Body, Panic string }
		Bad    []struct {
			Name, Body string
			Status     int
		}
	}
	if err != nil || json.Unmarshal(lastLine(out), &res) != nil {
		ev.Internal("C10 prometheus worker failed: %v: %s", err, tail(out))
	}
	for _, p := range res.Panics {
		run.Report("no-answer metrics=prometheus request="+strings.SplitN(p.Name, "[", 2)[0], fmt.Sprintf("with the Prometheus metric factory (the default of cmd/omniwitness) request %s got no answer from the endpoint: the handler panicked: %s", p.Name, p.Panic), map[string]any{"kind": "http-body-prometheus", "body_b64": p.Body})
	}
	run.Set("endpoint_requests_with_prometheus_metrics", res.N)
}
