package checks

import (
	"sync/atomic"
	"fmt"
	"strings"
	"sync"

	"github.com/transparency-dev/witness/verifmc/ev"
	"github.com/transparency-dev/witness/verifmc/uni"
	"github.com/transparency-dev/witness/verifmc/wh"
)

func init() { Registry["C08"] = c08 }

// c08Event is one element of a prior history.
type c08Event struct {
	Deep bool
	Name string
	// Make builds the request given the current model state (nil = not
	// applicable in this state).
	Make func(st wh.MState) *wh.Req
}

func c08(tier string) int {
	run := ev.NewRun("C08", tier, "model_checking")
	wh.InstallLogicalClock()
	n, depth := 17, 2
	sizes := []int{0, 1, 4, 7}
	if tier == "thorough" {
		n, depth = 65, 2
		sizes = []int{0, 1, 3, 4, 8, 33}
	}
	// Depth 3 is explored over a reduced event set and with a reduced probe
	// set (see deepShapes / the probe filter below).
	deepShapes := map[string]bool{"plain": true, "ext": true, "junk97": true, "junk98": true, "stale-own-valid": true}
	deepSizes := map[int]bool{0: true, 1: true, 4: true}
	maxDepth := depth + 1
	u := uni.New(ev.Seed(), n, []int{0})
	gen := wh.NewCPGen(u)
	la := wh.LogCfg{Origin: logA(), Key: u.K1}
	id := la.ID()
	m, f := u.Main, u.Forks[0]

	var events []c08Event
	// padK: the submitted note is exactly K bytes long, so that byte-length
	// boundaries (4 KiB buffers, the bastion's 16 KiB cap, 64 KiB, the note
	// format's 1 000 000) fall between what is submitted and what is stored
	// once cosigned. junkJ: the same for the 100-signature-line limit.
	for _, shape := range []string{"plain", "ext", "otherlog", "stale-own-valid", "junk1", "junk96", "junk97", "junk98", "junk99", "junk100", "pad4096", "pad16384", "pad65536", "pad999000", "pad1000000", "namesake-future", "namesake-past", "namesake-legacy"} {
		for _, sz := range sizes {
			shape, sz := shape, sz
			if strings.HasPrefix(shape, "pad") && sz != 1 && sz != 4 {
				continue
			}
			events = append(events, c08Event{Deep: deepShapes[shape] && deepSizes[sz], Name: fmt.Sprintf("honest(%s,%d)", shape, sz), Make: func(st wh.MState) *wh.Req {
				s := 0
				if st.Has {
					s = int(st.Size)
					if sz < s || (s == 0 && sz > 0) {
						return nil
					}
				}
				cp, meta := gen.Get(la, m, sz, shape)
				return &wh.Req{LogID: id, Old: uint64(s), CP: cp, Proof: m.Proof(s, sz), Meta: meta, Label: fmt.Sprintf("honest %s main@%d from %d", shape, sz, s)}
			}})
		}
	}
	refused := func(name string, mk func(st wh.MState) *wh.Req) {
		events = append(events, c08Event{Deep: name == "stale" || name == "fork-growth" || name == "garbage-sig", Name: "refused(" + name + ")", Make: mk})
	}
	refused("other-key", func(st wh.MState) *wh.Req { r := gen.Forged(la, m, 5)[0]; return &r })
	refused("garbage-sig", func(st wh.MState) *wh.Req { r := gen.Forged(la, m, 5)[1]; return &r })
	refused("truncated", func(st wh.MState) *wh.Req { r := gen.Forged(la, m, 5)[2]; return &r })
	refused("stale", func(st wh.MState) *wh.Req {
		if !st.Has {
			return nil
		}
		cp, meta := gen.Get(la, m, n, "plain")
		return &wh.Req{LogID: id, Old: st.Size + 1, CP: cp, Proof: m.Proof(int(st.Size)+1, n), Meta: meta, Label: "stale old=s+1"}
	})
	refused("old-too-large", func(st wh.MState) *wh.Req {
		if !st.Has {
			return nil
		}
		cp, meta := gen.Get(la, m, int(st.Size), "plain")
		return &wh.Req{LogID: id, Old: st.Size + 3, CP: cp, Meta: meta, Label: "old too large"}
	})
	refused("fork-same-size", func(st wh.MState) *wh.Req {
		if !st.Has || st.Size == 0 {
			return nil
		}
		cp, meta := gen.Get(la, f, int(st.Size), "plain")
		return &wh.Req{LogID: id, Old: st.Size, CP: cp, Meta: meta, Label: "fork at same size"}
	})
	refused("fork-growth", func(st wh.MState) *wh.Req {
		if !st.Has || st.Size == 0 || int(st.Size) >= n {
			return nil
		}
		cp, meta := gen.Get(la, f, n, "junk97")
		return &wh.Req{LogID: id, Old: st.Size, CP: cp, Proof: f.Proof(int(st.Size), n), Meta: meta, Label: "fork growth with adversarial proof, 97 junk sigs"}
	})
	refused("bad-proof", func(st wh.MState) *wh.Req {
		if !st.Has || st.Size == 0 || int(st.Size)+2 > n {
			return nil
		}
		cp, meta := gen.Get(la, m, n, "plain")
		return &wh.Req{LogID: id, Old: st.Size, CP: cp, Proof: m.Proof(int(st.Size)+1, n), Meta: meta, Label: "bad proof"}
	})

	// Enumerate all event sequences up to depth (applicable ones only).
	type hist struct {
		names []string
		reqs  []wh.Req
		st    wh.MState
		deep  bool // consists of reduced-set events only
	}
	cfg := wh.Config{Store: "mem", Logs: []wh.LogCfg{la}}
	var histories []hist
	var grow func(h hist, d int)
	grow = func(h hist, d int) {
		histories = append(histories, h)
		if d == maxDepth {
			return
		}
		for _, evn := range events {
			if d >= depth && !(evn.Deep && h.deep) {
				continue
			}
			r := evn.Make(h.st)
			if r == nil {
				continue
			}
			// Execute the history on the real witness to learn the state.
			e := wh.NewEnv(u, cfg)
			for _, pr := range h.reqs {
				e.Do(pr)
			}
			out := e.Do(*r)
			cur := e.Stored(id)
			e.Close()
			st, ok := wh.StateOf(gen, cur)
			nh := hist{names: append(append([]string{}, h.names...), evn.Name+"="+out.Class), reqs: append(append([]wh.Req{}, h.reqs...), *r), st: st, deep: h.deep && evn.Deep}
			run.Hist("history_events", evn.Name[:strings.Index(evn.Name, "(")]+"="+out.Class)
			if !ok {
				run.Report("history-foreign-state", fmt.Sprintf("history %v left unknown bytes in the store", nh.names), nil)
				continue
			}
			grow(nh, d+1)
		}
	}
	grow(hist{deep: true}, 0)
	run.Set("prior_histories", len(histories))

	var trans int64
	var mu sync.Mutex
	var sqlBlocked atomic.Bool
	statesSeen := map[string]bool{}
	ch := make(chan hist)
	var wg sync.WaitGroup
	for w := 0; w < workers(); w++ {
		wg.Add(1)
		go func() {
			defer wg.Done()
			for h := range ch {
				s := 0
				if h.st.Has {
					s = int(h.st.Size)
				}
				for _, store := range []string{"mem", "sql"} {
					if store == "sql" && sqlBlocked.Load() {
						continue // reported once; every further replay would wait another minute
					}
					c := cfg
					c.Store = store
					lo := s
					if !h.st.Has {
						lo = 0
					}
					for t := lo; t <= n; t++ {
						if tier != "thorough" && store == "sql" && t > s+3 && t != n {
							continue
						}
						if len(h.reqs) > depth && t > s+2 && t != n {
							continue // depth-3 histories: reduced probe set
						}
						e := wh.NewEnv(u, c)
						for _, pr := range h.reqs {
							e.Do(pr)
						}
						cp, meta := gen.Get(la, m, t, "plain")
						r := wh.Req{LogID: id, Old: uint64(s), CP: cp, Proof: m.Proof(s, t), Meta: meta, Label: fmt.Sprintf("honest probe main %d->%d", s, t)}
						if !h.st.Has {
							r.Old = 0
							r.Proof = [][]byte{}
						}
						out := e.Do(r)
						if e.Blocked {
							if !sqlBlocked.Swap(true) {
								run.Report("store-blocked after="+lastAccepted(h.names), fmt.Sprintf("%s store: after history %v a call did not return within 60 s (the store's only connection is held by something an earlier request leaked): no honest step can be taken any more", store, h.names), nil)
							}
							break
						}
						e.Close()
						mu.Lock()
						trans++
						statesSeen[store+"|"+strings.Join(h.names, ";")] = true
						mu.Unlock()
						run.Hist("probe_outcomes", out.Class)
						if out.Class == wh.OK {
							run.Distinct(fmt.Sprintf("%s|%v|%d", store, h.names, t))
							continue
						}
						var path []any
						for _, pr := range h.reqs {
							path = append(path, pr.JSON())
						}
						rep := map[string]any{"kind": "witness-path", "store": store, "logs": []any{map[string]any{"origin": la.Origin, "key": la.Key.Name}},
							"universe": map[string]any{"n": n}, "path": path, "request": r.JSON(), "history": h.names,
							"observed": map[string]any{"class": out.Class, "err": fmt.Sprint(out.Err)}, "expected": map[string]any{"class": wh.OK}}
						switch {
						case strings.Contains(fmt.Sprint(out.Err), "couldn't parse stored checkpoint"):
							run.Report("stored-checkpoint-unreadable "+lastAccepted(h.names),
								fmt.Sprintf("after history %v the witness cannot re-open its own stored checkpoint: honest step %d->%d refused (%v)", h.names, s, t, out.Err), rep)
						case h.st.Has && s == 0 && t > 0:
							run.Report(fmt.Sprintf("stored_size=0 submitted_size>0 verdict=%s", out.Class),
								fmt.Sprintf("after history %v the witness holds a size-0 checkpoint and refuses the honest step 0->%d (%v)", h.names, t, out.Err), rep)
						default:
							run.Report(fmt.Sprintf("honest-step-refused verdict=%s after=%s", out.Class, lastAccepted(h.names)),
								fmt.Sprintf("after history %v the honest step %d->%d was refused: %s (%v)", h.names, s, t, out.Class, out.Err), rep)
						}
					}
				}
			}
		}()
	}
	for _, h := range histories {
		ch <- h
	}
	close(ch)
	wg.Wait()
	for i, h := range histories {
		if i%37 == 0 {
			run.Sample(map[string]any{"prior_history": h.names, "then": "honest probes from the reached size to every size up to N on a fresh replay"})
		}
	}
	if tier == "thorough" {
		c08Uniform(run, &trans)
	}
	run.Set("states", len(statesSeen))
	run.Set("transitions", trans)
	run.Set("traces_validated_against_impl", trans)
	run.Set("evaluations", trans)
	run.Set("exhaustive", true)
	run.Set("rule", fmt.Sprintf("all prior histories of <= %d events (plus one more event over a reduced set: shapes plain/ext/junk97/junk98/stale-own at sizes 0,1,4 and refused stale/fork-growth/garbage-sig, probed to s, s+1, s+2 and N) over {honest accept in shapes plain/ext/otherlog/stale-own/junk1,96,97,98,99,100 at sizes %v with an unverifiable line under the witness key name (future / ancient timestamp, legacy-shaped) and notes of exactly 4096, 16384, 65536, 999000 and 1000000 bytes at sizes 1 and 4; refused: other key, garbage signature, truncated, stale, old too large, fork at same size, fork growth with adversarial proof, bad proof}, executed on the real witness; from every reached state an honest probe (log's own signature only, old = current size, ref6962 proof, empty when sizes are equal or old size is 0) to EVERY size up to %d on a fresh replay, both stores; oracle: accepted. distinct_nontrivial = distinct accepted (store, history, target size)", depth, sizes, n))
	run.Assumption("the honest log is the main branch of the universe; the probe carries only the log's signature line")
	// Fault leg: after any single storage failure the log is not wedged - the
	// fault-free suffix of the C07 histories (honest growth) is accepted and
	// nothing blocks.
	runFaults(run, "C08", tier, false)
	return run.Finish()
}

func lastAccepted(names []string) string {
	for i := len(names) - 1; i >= 0; i-- {
		if strings.HasSuffix(names[i], "="+wh.OK) {
			return "last-accepted=" + names[i][:strings.Index(names[i], ",")] + ")"
		}
	}
	return "last-accepted=none"
}

func c08Uniform(run *ev.Run, trans *int64) {
	var st int
	uniformTable(run, "C08", &st, trans)
}
