package checks

import (
	"sync/atomic"
	"fmt"
	"strings"
	"sync"

	"github.com/transparency-dev/witness/verifmc/ev"
	"github.com/transparency-dev/witness/verifmc/uni"
	"github.com/transparency-dev/witness/verifmc/wh"
)

func init() { Registry["C08"] = c08 }

// c08Event is one element of a prior history.
type c08Event struct {
	Deep bool
	Name string
	// Make builds the request given the current model state (nil = not
	// applicable in this state).
	Make func(st wh.MState) *wh.Req
}

func c08(tier string) int {
	run := ev.NewRun("C08", tier, "model_checking")
	wh.InstallLogicalClock()
	n, depth := 17, 2
	sizes := []int{0, 1, 4, 7}
	if tier == "thorough" {
		n, depth = 65, 2
		sizes = []int{0, 1, 3, 4, 8, 33}
	}
	// Depth 3 is explored over a reduced event set and with a reduced probe
	// set (see deepShapes / the probe filter below).
	deepShapes := map[string]bool{"plain": true, "ext": true, "junk97": true, "junk98": true, "stale-own-valid": true}
	deepSizes := map[int]bool{0: true, 1: true, 4: true}
	maxDepth := depth + 1
	u := uni.New(ev.Seed(), n, []int{0})
	gen := wh.NewCPGen(u)
	la := wh.LogCfg{Origin: logA(), Key: u.K1}
	id := la.ID()
	m, f := u.Main, u.Forks[0]

	var events []c08Event
	// padK: the submitted note is exactly K bytes long, so that byte-length
	// boundaries (4 KiB buffers, the bastion's 16 KiB cap, 64 KiB, the note
	// format's 1 000 000) fall between what is submitted and what is stored
	// once cosigned. junkJ: the same for the 100-signature-line limit.
	for _, shape := range []string{"plain", "ext", "otherlog", "stale-own-valid", "junk1", "junk96", "junk97", "junk98", "junk99", "junk100", "pad4096", "pad16384", "pad65536", "pad999000", "pad1000000", "namesake-future", "namesake-past", "namesake-legacy"} {
		for _, sz := range sizes {
			shape, sz := shape, sz
			if strings.HasPrefix(shape, "pad") && sz != 1 && sz != 4 {
				continue
			}
			events = append(events, c08Event{Deep: deepShapes[shape] && deepSizes[sz], Name: fmt.Sprintf("honest(%s,%d)", shape, sz), Make: func(st wh.MState) *wh.Req {
				s := 0
				if st.Has {
					s = int(st.Size)
					if sz < s || (s == 0 && sz > 0) {
						return nil
					}
				}
				cp, meta := gen.Get(la, m, sz, shape)
				return &wh.Req{LogID: id, Old: uint64(s), CP: cp, Proof: m.Proof(s, sz), Meta: meta, Label: fmt.Sprintf("honest %s main@%d from %d", shape, sz, s)}
			}})
		}
	}
	refused := func(name string, mk func(st wh.MState) *wh.Req) {
		events = append(events, c08Event{Deep: name == "stale" || name == "fork-growth" || name == "garbage-sig", Name: "refused(" + name + ")", Make: mk})
	}
	refused("other-key", func(st wh.MState) *wh.Req { r := gen.Forged(la, m, 5)[0]; return &r })
	refused("garbage-sig", func(st wh.MState) *wh.Req { r := gen.Forged(la, m, 5)[1]; return &r })
	refused("truncated", func(st wh.MState) *wh.Req { r := gen.Forged(la, m, 5)[2]; return &r })
	refused("stale", func(st wh.MState) *wh.Req {
		if !st.Has {
			return nil
		}
		cp, meta := gen.Get(la, m, n, "plain")
		return &wh.Req{LogID: id, Old: st.Size + 1, CP: cp, Proof: m.Proof(int(st.Size)+1, n), Meta: meta, Label: "stale old=s+1"}
	})
	refused("old-too-large", func(st wh.MState) *wh.Req {
		if !st.Has {
			return nil
		}
		cp, meta := gen.Get(la, m, int(st.Size), "plain")
		return &wh.Req{LogID: id, Old: st.Size + 3, CP: cp, Meta: meta, Label: "old too large"}
	})
	refused("fork-same-size", func(st wh.MState) *wh.Req {
		if !st.Has || st.Size == 0 {
			return nil
		}
		cp, meta := gen.Get(la, f, int(st.Size), "plain")
		return &wh.Req{LogID: id, Old: st.Size, CP: cp, Meta: meta, Label: "fork at same size"}
	})
	refused("fork-growth", func(st wh.MState) *wh.Req {
		if !st.Has || st.Size == 0 || int(st.Size) >= n {
			return nil
		}
		cp, meta := gen.Get(la, f, n, "junk97")
		return &wh.Req{LogID: id, Old: st.Size, CP: cp, Proof: f.Proof(int(st.Size), n), Meta: meta, Label: "fork growth with adversarial proof, 97 junk sigs"}
	})
	refused("bad-proof", func(st wh.MState) *wh.Req {
		if !st.Has || st.Size == 0 || int(st.Size)+2 > n {
			return nil
		}
		cp, meta := gen.Get(la, m, n, "plain")
		return &wh.Req{LogID: id, Old: st.Size, CP: cp, Proof: m.Proof(int(st.Size)+1, n), Meta: meta, Label: "bad proof"}
	})

	// Enumerate all event sequences up to depth (applicable ones only).
	type hist struct {
		names []string
		reqs  []wh.Req
		st    wh.MState
		deep  bool // consists of reduced-set events only
	}
	cfg := wh.Config{Store: "mem", Logs: []wh.LogCfg{la}}
	var histories []hist
	var grow func(h hist, d int)
	grow = func(h hist, d int) {
		histories = append(histories, h)
		if d == maxDepth {
			return
		}
		for _, evn := range events {
			if d >= depth && !(evn.Deep && h.deep) {
				continue
			}
			r := evn.Make(h.st)
			if r == nil {
				continue
			}
			// Execute the history on the real witness to learn the state.
			e := wh.NewEnv(u, cfg)
			for _, pr := range h.reqs {
				e.Do(pr)
			}
			out := e.Do(*r)
			cur := e.Stored(id)
			e.Close()
			st, ok := wh.StateOf(gen, cur)
			nh := hist{names: append(append([]string{}, h.names...), evn.Name+"="+out.Class), reqs: append(append([]wh.Req{}, h.reqs...), *r), st: st, deep: h.deep && evn.Deep}
			run.Hist("history_events", evn.Name[:strings.Index(evn.Name, "(")]+"="+out.Class)
			if !ok {
				run.Report("history-foreign-state", fmt.Sprintf("history %v left unknown bytes in the store", nh.names), nil)
				continue
			}
			grow(nh, d+1)
		}
	}
	grow(hist{deep: true}, 0)
	run.Set("prior_histories", len(histories))

	var trans int64
	var mu sync.Mutex
	var sqlBlocked atomic.Bool
	statesSeen := map[string]bool{}
	ch := make(chan hist)
	var wg sync.WaitGroup
	for w := 0; w < workers(); w++ {
		wg.Add(1)
		go func() {
			defer wg.Done()
			for h := range ch {
				s := 0
				if h.st.Has {
					s = int(h.st.Size)
				}
				for _, store := range []string{"mem", "sql"} {
					if store == "sql" && sqlBlocked.Load() {
						continue // reported once; every further replay would wait another minute
					}
					c := cfg
					c.Store = store
					lo := s
					if !h.st.Has {
						lo = 0
					}
					for t := lo; t <= n; t++ {
						if tier != "thorough" && store == "sql" && t > s+3 && t != n {
							continue
						}
						if len(h.reqs) > depth && t > s+2 && t != n {
							continue // depth-3 histories: reduced probe set
						}
						e := wh.NewEnv(u, c)
						for _, pr := range h.reqs {
							e.Do(pr)
						}
						cp, meta := gen.Get(la, m, t, "plain")
						r := wh.Req{LogID: id, Old: uint64(s), CP: cp, Proof: m.Proof(s, t), Meta: meta, Label: fmt.Sprintf("honest probe main %d->%d", s, t)}
						if !h.st.Has {
							r.Old = 0
							r.Proof = [][]byte{}
						}
						out := e.Do(r)
						if e.Blocked {
							if !sqlBlocked.Swap(true) {
								run.Report("store-blocked after="+lastAccepted(h.names), fmt.Sprintf("%s store: after history %v a call did not return within 60 s (the store's only connection is held by something an earlier request leaked): no honest step can be taken any more", store, h.names), nil)
							}
							break
						}
						e.Close()
						mu.Lock()
						trans++
						statesSeen[store+"|"+strings.Join(h.names, ";")] = true
						mu.Unlock()
						run.Hist("probe_outcomes", out.Class)
						if out.Class == wh.OK {
							run.Distinct(fmt.Sprintf("%s|%v|%d", store, h.names, t))
							continue
						}
						var path []any
						for _, pr := range h.reqs {
							path = append(path, pr.JSON())
						}
						rep := map[string]any{"kind": "witness-path", "store": store, "logs": []any{map[string]any{"origin": la.Origin, "key": la.Key.Name}},
							"universe": map[string]any{"n": n}, "path": path, "request": r.JSON(), "history": h.names,
							"observed": map[string]any{"class": out.Class, "err": fmt.Sprint(out.Err)}, "expected": map[string]any{"class": wh.OK}}
						switch {
						case strings.Contains(fmt.Sprint(out.Err), "couldn't parse stored checkpoint"):
							run.Report("stored-checkpoint-unreadable "+lastAccepted(h.names),
								fmt.Sprintf("after history %v the witness cannot re-open its own stored checkpoint: honest step %d->%d refused (%v)", h.names, s, t, out.Err), rep)
						case h.st.Has && s == 0 && t > 0:
							run.Report(fmt.Sprintf("stored_size=0 submitted_size>0 verdict=%s", out.Class),
								fmt.Sprintf("after history %v the witness holds a size-0 checkpoint and refuses the honest step 0->%d (%v)", h.names, t, out.Err), rep)
						default:
							run.Report(fmt.Sprintf("honest-step-refused verdict=%s after=%s", out.Class, lastAccepted(h.names)),
								fmt.Sprintf("after history %v the honest step %d->%d was refused: %s (%v)", h.names, s, t, out.Class, out.Err), rep)
						}
					}
				}
			}
		}()
	}
	for _, h := range histories {
		ch <- h
	}
	close(ch)
	wg.Wait()
	for i, h := range histories {
		if i%37 == 0 {
			run.Sample(map[string]any{"prior_history": h.names, "then": "honest probes from the reached size to every size up to N on a fresh replay"})
		}
	}
	if tier == "thorough" {
		c08Uniform(run, &trans)
	}
	trans += c08Soak(run, u, gen, la, tier)
	// ... and through the bastion endpoint: a flood of pushed-back requests
	// must not keep an honest step out once the rate is respected again.
	c10RateRecovery(run, "C08")
	// Concurrent leg: readers and writers overlapping - no schedule ends with a
	// thread that can never proceed (a store that deadlocks answers no honest
	// step ever again).
	c05Concurrent(run, "C08", tier)
	// Upgrade leg: nothing an earlier release stored stops the next honest step.
	legacyDBLeg(run, "C08")
	run.Set("states", len(statesSeen))
	run.Set("transitions", trans)
	run.Set("traces_validated_against_impl", trans)
	run.Set("evaluations", trans)
	run.Set("exhaustive", true)
	run.Set("rule", fmt.Sprintf("all prior histories of <= %d events (plus one more event over a reduced set: shapes plain/ext/junk97/junk98/stale-own at sizes 0,1,4 and refused stale/fork-growth/garbage-sig, probed to s, s+1, s+2 and N) over {honest accept in shapes plain/ext/otherlog/stale-own/junk1,96,97,98,99,100 at sizes %v with an unverifiable line under the witness key name (future / ancient timestamp, legacy-shaped) and notes of exactly 4096, 16384, 65536, 999000 and 1000000 bytes at sizes 1 and 4; refused: other key, garbage signature, truncated, stale, old too large, fork at same size, fork growth with adversarial proof, bad proof}, executed on the real witness; plus long histories in one dimension: each refused request (11 kinds, an unknown log ID, and all of them in rotation) repeated %d times on one witness with an honest same-size probe after every repetition and an honest growth at the end, both stores, every call under a 60 s watchdog; from every reached state an honest probe (log's own signature only, old = current size, ref6962 proof, empty when sizes are equal or old size is 0) to EVERY size up to %d on a fresh replay, both stores; oracle: accepted. distinct_nontrivial = distinct accepted (store, history, target size)", depth, sizes, c08SoakReps(tier), n))
	run.Assumption("the honest log is the main branch of the universe; the probe carries only the log's signature line")
	// Fault leg: after any single storage failure the log is not wedged - the
	// fault-free suffix of the C07 histories (honest growth) is accepted and
	// nothing blocks.
	runFaults(run, "C08", tier, false)
	return run.Finish()
}

func lastAccepted(names []string) string {
	for i := len(names) - 1; i >= 0; i-- {
		if strings.HasSuffix(names[i], "="+wh.OK) {
			return "last-accepted=" + names[i][:strings.Index(names[i], ",")] + ")"
		}
	}
	return "last-accepted=none"
}

func c08Uniform(run *ev.Run, trans *int64) {
	var st int
	uniformTable(run, "C08", &st, trans)
}

func c08SoakReps(tier string) int {
	if tier == "thorough" {
		return 3000
	}
	return 300
}

// c08Soak: histories that are long in one dimension - ONE kind of refused
// request repeated many times on the same witness (whatever a refusal leaves
// behind per request - a slot, a handle, a counter - adds up), with an honest
// same-size step after every repetition and an honest growth at the end.
func c08Soak(run *ev.Run, u *uni.U, gen *wh.CPGen, la wh.LogCfg, tier string) int64 {
	reps := c08SoakReps(tier)
	id := la.ID()
	m, f := u.Main, u.Forks[0]
	const s = 4
	big := 7
	forged := gen.Forged(la, m, 5)
	mk := func(b *uni.Branch, old uint64, n int, proof [][]byte, label string) wh.Req {
		cp, meta := gen.Get(la, b, n, "plain")
		return wh.Req{LogID: id, Old: old, CP: cp, Proof: proof, Meta: meta, Label: label}
	}
	unknown := mk(m, s, 6, m.Proof(s, 6), "unknown log ID")
	unknown.LogID = uni.ID("verif.example/never-configured")
	kinds := []struct {
		name string
		r    wh.Req
	}{
		{"other-key", forged[0]}, {"garbage-sig", forged[1]}, {"truncated", forged[2]}, {"empty", forged[3]}, {"wrong-origin", forged[4]},
		{"unknown-log", unknown},
		{"stale", mk(m, s+1, big, m.Proof(s+1, big), "stale old=s+1")},
		{"old-too-large", mk(m, s+3, s, nil, "old too large")},
		{"fork-same-size", mk(f, s, s, nil, "fork at same size")},
		{"fork-growth", mk(f, s, big, f.Proof(s, big), "fork growth with adversarial proof")},
		{"bad-proof", mk(m, s, big, m.Proof(s+1, big), "bad proof")},
	}
	var n atomic.Int64
	var wg sync.WaitGroup
	for _, store := range []string{"mem", "sql"} {
		for ki := 0; ki <= len(kinds); ki++ {
			wg.Add(1)
			go func(store string, ki int) {
				defer wg.Done()
				name := "all-in-rotation"
				if ki < len(kinds) {
					name = kinds[ki].name
				}
				e := wh.NewEnv(u, wh.Config{Store: store, Logs: []wh.LogCfg{la}, Guard: true})
				blocked := func(after string, i int) bool {
					if !e.Blocked {
						return false
					}
					run.Report("honest-step-blocked after-refusals-of="+name, fmt.Sprintf("%s store: after %d refused requests of kind %q on one witness, %s did not return within 60 s: no honest step can be taken any more", store, i, name, after), map[string]any{"kind": "refusal-soak", "store": store, "refusal": name, "repetitions": i})
					return true
				}
				defer func() {
					if !e.Blocked {
						e.Close()
					}
				}()
				if out := e.Do(mk(m, 0, s, nil, "first use")); out.Class != wh.OK {
					ev.Internal("C08 soak: first use refused: %v", out.Err)
				}
				for i := 1; i <= reps; i++ {
					r := kinds[(i-1)%len(kinds)].r
					if ki < len(kinds) {
						r = kinds[ki].r
					}
					out := e.Do(r)
					n.Add(1)
					if blocked("the refused request itself", i) {
						return
					}
					if out.Class == wh.OK {
						run.Report("soak-refusal-accepted kind="+name, fmt.Sprintf("%s store: request %q was accepted at repetition %d", store, r.Label, i), nil)
						return
					}
					p := e.Do(mk(m, s, s, nil, "honest same-size probe"))
					n.Add(1)
					if blocked("the honest same-size step", i) {
						return
					}
					if p.Class != wh.OK {
						run.Report(fmt.Sprintf("honest-step-refused verdict=%s after-refusals-of=%s", p.Class, name), fmt.Sprintf("%s store: after %d refused requests of kind %q the honest same-size step was refused: %v", store, i, name, p.Err), map[string]any{"kind": "refusal-soak", "store": store, "refusal": name, "repetitions": i})
						return
					}
				}
				g := e.Do(mk(m, s, 6, m.Proof(s, 6), "honest growth probe"))
				n.Add(1)
				if blocked("the honest growth step", reps) {
					return
				}
				if g.Class != wh.OK {
					run.Report(fmt.Sprintf("honest-step-refused verdict=%s after-refusals-of=%s", g.Class, name), fmt.Sprintf("%s store: after %d refused requests of kind %q the honest growth 4->6 was refused: %v", store, reps, name, g.Err), map[string]any{"kind": "refusal-soak", "store": store, "refusal": name, "repetitions": reps})
					return
				}
				run.Hist("soak_outcomes", name+" -> honest steps accepted throughout")
			}(store, ki)
		}
	}
	wg.Wait()
	run.Set("soak_repetitions", reps)
	run.Set("soak_requests", n.Load())
	return n.Load()
}
