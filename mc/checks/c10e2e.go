package checks

import (
	"bytes"
	"context"
	"crypto/ecdsa"
	"crypto/ed25519"
	"crypto/elliptic"
	"crypto/rand"
	"crypto/tls"
	"crypto/x509"
	"crypto/x509/pkix"
	"encoding/json"
	"encoding/pem"
	"fmt"
	"io"
	"math/big"
	"net"
	"net/http"
	"os"
	"os/exec"
	"path/filepath"
	"strings"
	"time"

	"github.com/transparency-dev/witness/internal/feeder/bastion"
	"github.com/transparency-dev/witness/omniwitness"
	"github.com/transparency-dev/witness/verifmc/ev"
	"github.com/transparency-dev/witness/verifmc/uni"
	"github.com/transparency-dev/witness/verifmc/wh"
	"golang.org/x/net/http2"
	"golang.org/x/time/rate"
)

func init() { Workers["c10e2e"] = c10E2EWorker }

type c10E2EResult struct {
	Requests   int      `json:"requests"`
	Mismatches []string `json:"mismatches"`
	Statuses   []int    `json:"statuses"`
	Err        string   `json:"err"`
}

// c10EndToEnd runs the transition tour over a real TLS 1.3 + HTTP/2 reverse
// connection: a stub bastion listens, the exported FeedBastion dials it, and
// the stub then acts as HTTP/2 client on the accepted connection. The worker
// must be a separate process because FeedBastion verifies the bastion's
// certificate against the system roots, which are read once per process
// (SSL_CERT_FILE points at the stub's own certificate).
func c10EndToEnd(run *ev.Run, u *uni.U, gen *wh.CPGen, la, lb wh.LogCfg) {
	self, _ := os.Executable()
	dir := filepath.Join(c06Scratch(), "c10e2e")
	_ = os.MkdirAll(dir, 0o755)
	defer os.RemoveAll(dir)
	// Self-signed server certificate valid for 127.0.0.1.
	key, err := ecdsa.GenerateKey(elliptic.P256(), rand.Reader)
	if err != nil {
		ev.Internal("e2e key: %v", err)
	}
	tmpl := &x509.Certificate{SerialNumber: big.NewInt(7), Subject: pkix.Name{CommonName: "verif stub bastion"},
		NotBefore: time.Now().Add(-time.Hour), NotAfter: time.Now().Add(24 * time.Hour),
		KeyUsage: x509.KeyUsageDigitalSignature | x509.KeyUsageCertSign, ExtKeyUsage: []x509.ExtKeyUsage{x509.ExtKeyUsageServerAuth},
		IsCA: true, BasicConstraintsValid: true, IPAddresses: []net.IP{net.ParseIP("127.0.0.1")}, DNSNames: []string{"localhost"}}
	der, err := x509.CreateCertificate(rand.Reader, tmpl, tmpl, &key.PublicKey, key)
	if err != nil {
		ev.Internal("e2e cert: %v", err)
	}
	kb, _ := x509.MarshalECPrivateKey(key)
	certPEM := pem.EncodeToMemory(&pem.Block{Type: "CERTIFICATE", Bytes: der})
	keyPEM := pem.EncodeToMemory(&pem.Block{Type: "EC PRIVATE KEY", Bytes: kb})
	cf, kf := filepath.Join(dir, "cert.pem"), filepath.Join(dir, "key.pem")
	_ = os.WriteFile(cf, certPEM, 0o600)
	_ = os.WriteFile(kf, keyPEM, 0o600)
	ctx, cancel := context.WithTimeout(context.Background(), 5*time.Minute)
	defer cancel()
	cmd := exec.CommandContext(ctx, self, "worker", "c10e2e", cf, kf)
	cmd.Env = append(os.Environ(), "SSL_CERT_FILE="+cf, "SSL_CERT_DIR=/nonexistent")
	out, err := cmd.Output()
	var r c10E2EResult
	if err != nil || json.Unmarshal(lastLine(out), &r) != nil {
		ev.Internal("C10 end-to-end worker failed: %v: %s", err, tail(out))
	}
	if r.Err != "" {
		ev.Internal("C10 end-to-end worker: %s", r.Err)
	}
	run.Set("end_to_end_requests", r.Requests)
	run.Set("end_to_end_statuses", r.Statuses)
	run.Add("evaluations_end_to_end", int64(r.Requests))
	for _, m := range r.Mismatches {
		run.Report("end-to-end-differs "+strings.SplitN(m, ":", 2)[0], "over the TLS 1.3 + HTTP/2 reverse connection: "+m, map[string]any{"kind": "e2e", "mismatch": m})
	}
	if r.Requests == 0 {
		run.Vacuous("the end-to-end tour sent no request")
	}
}

// c10E2EWorker: verifmc worker c10e2e <cert.pem> <key.pem>
func c10E2EWorker(args []string) int {
	res := c10E2EResult{}
	defer func() {
		b, _ := json.Marshal(res)
		fmt.Println(string(b))
	}()
	wh.InstallLogicalClock()
	u := uni.New(ev.Seed(), 8, []int{0})
	gen := wh.NewCPGen(u)
	la := wh.LogCfg{Origin: logA(), Key: u.K1}
	lb := wh.LogCfg{Origin: logB(), Key: u.K2}
	cert, err := tls.LoadX509KeyPair(args[0], args[1])
	if err != nil {
		res.Err = "load cert: " + err.Error()
		return 0
	}
	ln, err := tls.Listen("tcp", "127.0.0.1:0", &tls.Config{Certificates: []tls.Certificate{cert}, MinVersion: tls.VersionTLS13,
		NextProtos: []string{"bastion/0"}, ClientAuth: tls.RequireAnyClientCert})
	if err != nil {
		res.Err = "listen: " + err.Error()
		return 0
	}
	defer ln.Close()
	// Witness under test behind FeedBastion, twin witness behind the in-process handler.
	mk := func() *wh.Env { return wh.NewEnv(u, wh.Config{Store: "mem", Logs: []wh.LogCfg{la, lb}}) }
	e2e, twin := mk(), mk()
	defer e2e.Close()
	defer twin.Close()
	_, bkey, _ := ed25519.GenerateKey(rand.Reader)
	ctx, cancel := context.WithCancel(context.Background())
	defer cancel()
	go func() {
		_ = bastion.FeedBastion(ctx, bastion.Config{Addr: ln.Addr().String(), Logs: c10Logs(la, lb), BastionKey: bkey,
			WitnessVerifier: u.W1.CosigVerif, Limits: bastion.RequestLimits{TotalPerSecond: rate.Limit(100000)}}, omniwitness.VerifWitnessAdapter(e2e.W))
	}()
	twinH := bastion.VerifNewHandler(omniwitness.VerifWitnessAdapter(twin.W), c10Logs(la, lb), u.W1.CosigVerif, rate.Inf, 1, true)
	type acc struct {
		c   net.Conn
		err error
	}
	ch := make(chan acc, 1)
	go func() { c, err := ln.Accept(); ch <- acc{c, err} }()
	var conn net.Conn
	select {
	case a := <-ch:
		if a.err != nil {
			res.Err = "accept: " + a.err.Error()
			return 0
		}
		conn = a.c
	case <-time.After(60 * time.Second):
		res.Err = "the witness did not connect to the stub bastion within 60 s"
		return 0
	}
	tc := conn.(*tls.Conn)
	if err := tc.HandshakeContext(ctx); err != nil {
		res.Err = "handshake: " + err.Error()
		return 0
	}
	if st := tc.ConnectionState(); st.Version != tls.VersionTLS13 || st.NegotiatedProtocol != "bastion/0" {
		res.Mismatches = append(res.Mismatches, fmt.Sprintf("connection: negotiated TLS %x ALPN %q, want TLS 1.3 bastion/0", st.Version, st.NegotiatedProtocol))
	}
	cc, err := (&http2.Transport{}).NewClientConn(tc)
	if err != nil {
		res.Err = "http2 client conn: " + err.Error()
		return 0
	}
	send := func(body []byte) (int, string, string, error) {
		req, _ := http.NewRequest(http.MethodPost, "https://witness.invalid/add-checkpoint", bytes.NewReader(body))
		resp, err := cc.RoundTrip(req)
		if err != nil {
			return 0, "", "", err
		}
		defer resp.Body.Close()
		b, _ := io.ReadAll(resp.Body)
		return resp.StatusCode, resp.Header.Get("Content-Type"), string(b), nil
	}
	m, f := u.Main, u.Forks[0]
	body := func(l wh.LogCfg, b *uni.Branch, old, n int, from int) []byte {
		cp, _ := gen.Get(l, b, n, "plain")
		return c10Body(uint64(old), b.Proof(from, n), cp)
	}
	// Transition tour: along the path none -> 2 -> 4 -> 6 every verdict class
	// is requested in every state; accepted growths advance both witnesses.
	type step struct {
		name string
		b    []byte
	}
	var tour []step
	common := func(s int) []step {
		return []step{
			{fmt.Sprintf("s=%d bad signature", s), c10Body(uint64(s), nil, gen.Forged(la, m, 5)[1].CP)},
			{fmt.Sprintf("s=%d unknown origin", s), c10Body(0, nil, u.Sign(uni.Body("verif.example/unknown", 3, m.Root(3)), u.K1.Signer))},
			{fmt.Sprintf("s=%d malformed old line", s), []byte("old x\n\n")},
			{fmt.Sprintf("s=%d no separator", s), []byte("old 1\nQUJD\n")},
			{fmt.Sprintf("s=%d checkpoint of one line", s), []byte("old 0\n\nno-newline")},
			{fmt.Sprintf("s=%d over 16 KiB", s), append(body(la, m, s, 8, s), bytes.Repeat([]byte("x"), 17000)...)},
		}
	}
	// Nothing stored: refusals first, then first use of both logs.
	tour = append(tour, common(0)...)
	tour = append(tour, step{"s=none first use A@2", body(la, m, 0, 2, 0)}, step{"s=none first use B@3", body(lb, m, 0, 3, 0)})
	for _, s := range []int{2, 4, 6} {
		tour = append(tour, common(s)...)
		tour = append(tour,
			step{fmt.Sprintf("s=%d stale", s), body(la, m, 1, 8, 1)},
			step{fmt.Sprintf("s=%d old too large", s), body(la, m, 7, 5, 5)},
			step{fmt.Sprintf("s=%d fork same size", s), body(la, f, s, s, 0)},
			step{fmt.Sprintf("s=%d fork growth", s), body(la, f, s, 8, s)},
			step{fmt.Sprintf("s=%d bad proof", s), body(la, m, s, 8, 1)},
			step{fmt.Sprintf("s=%d non-empty proof at equal size", s), c10Body(uint64(s), m.Proof(1, s), func() []byte { cp, _ := gen.Get(la, m, s, "plain"); return cp }())},
			step{fmt.Sprintf("s=%d refresh", s), body(la, m, s, s, 0)},
			// A valid 12 KiB request (under the 16 KiB cap): a smaller cap on
			// the real connection path would answer it differently.
			step{fmt.Sprintf("s=%d refresh with 12 KiB of extension lines", s), c10Body(uint64(s), nil, u.Sign(uni.Body(la.Origin, uint64(s), m.Root(s), strings.Repeat("x", 6000), strings.Repeat("y", 6000)), la.Key.Signer))},
			step{fmt.Sprintf("s=%d other log refresh", s), body(lb, m, 3, 3, 0)},
			step{fmt.Sprintf("s=%d growth to %d", s, s+2), body(la, m, s, s+2, s)},
		)
	}
	for _, st := range tour {
		rec := c10Serve(twinH, st.b)
		code, ct, b, err := send(st.b)
		res.Requests++
		res.Statuses = append(res.Statuses, code)
		if err != nil {
			res.Mismatches = append(res.Mismatches, fmt.Sprintf("transport: %s: request failed over the reverse connection: %v (in process: %d)", st.name, err, rec.Status))
			continue
		}
		if code != rec.Status {
			res.Mismatches = append(res.Mismatches, fmt.Sprintf("status: %s: %d over the wire, %d in process", st.name, code, rec.Status))
			continue
		}
		switch {
		case code == 200:
			// Same structure: signature lines under the witness key over the submitted text.
			_, _, cp, _ := bastion.VerifParseBody(bytes.NewReader(st.b))
			text, _, _ := uni.SplitNote(cp)
			lines := strings.Split(strings.TrimSuffix(b, "\n"), "\n")
			if n, ok := countValid(u.W1.CosigVerif, text, lines); n < 1 || ok != n {
				res.Mismatches = append(res.Mismatches, fmt.Sprintf("body: %s: 200 body over the wire is not a valid cosignature line: %q", st.name, b))
			}
		case rec.CT == "text/x.tlog.size":
			if ct != rec.CT || b != rec.Body {
				res.Mismatches = append(res.Mismatches, fmt.Sprintf("body: %s: stale answer over the wire %q %q, in process %q %q", st.name, ct, b, rec.CT, rec.Body))
			}
		default:
			if b != rec.Body {
				res.Mismatches = append(res.Mismatches, fmt.Sprintf("body: %s: body over the wire %q, in process %q", st.name, b, rec.Body))
			}
		}
		// Both witnesses must be in the same state.
		sa, _ := wh.StateOf(gen, e2e.Stored(la.ID()))
		sb, _ := wh.StateOf(gen, twin.Stored(la.ID()))
		if sa.Key() != sb.Key() {
			res.Mismatches = append(res.Mismatches, fmt.Sprintf("state: %s: witness behind the bastion connection holds %s, in-process twin %s", st.name, sa.Key(), sb.Key()))
		}
	}
	return 0
}
