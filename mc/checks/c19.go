package checks

import (
	"bufio"
	"bytes"
	"context"
	"encoding/base64"
	"encoding/json"
	"fmt"
	"net/http"
	"net/http/httptest"
	"os"
	"os/exec"
	"sort"
	"strings"
	"sync"
	"sync/atomic"
	"time"

	"github.com/transparency-dev/witness/internal/config"
	"github.com/transparency-dev/witness/internal/distribute/rest"
	"github.com/transparency-dev/witness/internal/feeder"
	"github.com/transparency-dev/witness/internal/feeder/bastion"
	"github.com/transparency-dev/witness/internal/feeder/pixelbt"
	"github.com/transparency-dev/witness/internal/feeder/rekor"
	"github.com/transparency-dev/witness/internal/feeder/serverless"
	"github.com/transparency-dev/witness/internal/feeder/sumdb"
	"github.com/transparency-dev/witness/internal/feeder/tiles"
	"github.com/transparency-dev/witness/internal/witness"
	"github.com/transparency-dev/witness/omniwitness"
	"github.com/transparency-dev/witness/verifmc/choice"
	"github.com/transparency-dev/witness/verifmc/ev"
	"github.com/transparency-dev/witness/verifmc/stublog"
	"github.com/transparency-dev/witness/verifmc/uni"
	"github.com/transparency-dev/witness/verifmc/wh"
	"golang.org/x/time/rate"
)

func init() {
	Registry["C19"] = c19
	Workers["c19feed"] = c19FeedWorker
	Workers["c19prom"] = c19PromWorker
}

var c19Statuses = map[int]bool{200: true, 400: true, 403: true, 404: true, 409: true, 422: true, 429: true, 500: true}

// countingRW counts WriteHeader calls.
type countingRW struct {
	*httptest.ResponseRecorder
	headers int
}

func (c *countingRW) WriteHeader(code int) { c.headers++; c.ResponseRecorder.WriteHeader(code) }

// c19Endpoint sends bodies to the real handler (+16 KiB cap) in front of the
// real witness; no panic, one response, documented status.
func c19Endpoint(run *ev.Run, tier string) int64 {
	u := uni.New(ev.Seed(), 8, []int{0})
	gen := wh.NewCPGen(u)
	la := wh.LogCfg{Origin: logA(), Key: u.K1}
	lb := wh.LogCfg{Origin: logB(), Key: u.K2}
	m, f := u.Main, u.Forks[0]
	body := func(l wh.LogCfg, b *uni.Branch, old, n int, shape string, proofFrom int) []byte {
		cp, _ := gen.Get(l, b, n, shape)
		return c10Body(uint64(old), b.Proof(proofFrom, n), cp)
	}
	// One valid request of every verdict class (relative to a witness holding main@4).
	seeds := map[string][]byte{
		"accepted-growth":   body(la, m, 4, 6, "plain", 4),
		"accepted-refresh":  body(la, m, 4, 4, "ext", 0),
		"first-use":         body(lb, m, 0, 3, "plain", 0),
		"stale":             body(la, m, 2, 6, "plain", 2),
		"old-too-large":     body(la, m, 7, 6, "plain", 4),
		"root-mismatch":     body(la, f, 4, 4, "plain", 0),
		"bad-proof":         body(la, m, 4, 6, "plain", 3),
		"bad-signature":     c10Body(0, nil, gen.Forged(la, m, 5)[1].CP),
		"unknown-origin":    c10Body(0, nil, u.Sign(uni.Body("verif.example/unknown", 3, m.Root(3)), u.K1.Signer)),
		"many-sig-lines":    body(la, m, 4, 6, "junk99", 4),
		"cosigned-resubmit": body(la, m, 4, 6, "stale-own-valid", 4),
	}
	var inputs [][]byte
	seen := map[string]bool{}
	add := func(b []byte) {
		if !seen[string(b)] {
			seen[string(b)] = true
			inputs = append(inputs, b)
		}
	}
	ins := []string{"old ", "\n", "\n\n", "=", "QUJD\n", " ", "5", "\r", "-", "\x00", "— ", "— x AAAA\n", "\xe2\x80", "18446744073709551616"}
	for _, s := range seeds {
		for _, e := range editNeighbourhood(s, ins) {
			add(e)
		}
	}
	// Token strings (<= 4 tokens quick, 5 thorough).
	tokens := []string{"old", " ", "0", "7", "18446744073709551616", "-", "x", "\n", "QUJD", "=", "*", "\r", "— "}
	L := 4
	if tier == "thorough" {
		L = 5
	}
	var genTok func(cur []byte, d int)
	genTok = func(cur []byte, d int) {
		add(cur)
		if d == L {
			return
		}
		for _, t := range tokens {
			genTok(append(cur[:len(cur):len(cur)], t...), d+1)
		}
	}
	genTok(nil, 0)
	// Size boundaries.
	good, _ := gen.Get(la, m, 6, "plain")
	for _, n := range []int{16383, 16384, 16385, 20000} {
		pad := n - len("old 4\n\n") - len(good)
		add(append([]byte("old 4\n\n"), append(append([]byte{}, good...), bytes.Repeat([]byte("x"), pad)...)...))
	}
	add(append([]byte("old 4\n"+strings.Repeat("A", 5000)+"\n\n"), good...))
	add(append([]byte("old 4\n"+strings.Repeat("QUJD\n", 3000)+"\n"), good...))
	add(append([]byte("old 4\n"+strings.Repeat("AAAA", 1100)+"\n\n"), good...)) // one proof line longer than bufio's buffer
	add(bytes.Repeat([]byte("\n"), 16000))
	for _, b := range c19OriginSweep(u) {
		add(b)
	}
	run.Set("endpoint_inputs", len(inputs))

	var n int64
	var cur atomic.Pointer[[]byte]
	var wg sync.WaitGroup
	ch := make(chan []byte, 256)
	done := make(chan struct{})
	for w := 0; w < workers(); w++ {
		wg.Add(1)
		go func() {
			defer wg.Done()
			mkEnv := func(seeded bool) (*wh.Env, http.Handler) {
				e := wh.NewEnv(u, wh.Config{Store: "mem", Logs: []wh.LogCfg{la, lb}})
				if seeded {
					cp, meta := gen.Get(la, m, 4, "plain")
					e.Do(wh.Req{LogID: la.ID(), CP: cp, Meta: meta})
				}
				return e, bastion.VerifNewHandler(omniwitness.VerifWitnessAdapter(e.W), c10Logs(la, lb), u.W1.CosigVerif, rate.Inf, 1, true)
			}
			envs := map[bool]*wh.Env{}
			hs := map[bool]http.Handler{}
			for _, s := range []bool{false, true} {
				envs[s], hs[s] = mkEnv(s)
			}
			for b := range ch {
				for _, seeded := range []bool{false, true} {
					b := b
					cur.Store(&b)
					before := envs[seeded].Snap()
					rw := &countingRW{ResponseRecorder: httptest.NewRecorder()}
					var pan any
					func() {
						defer func() { pan = recover() }()
						hs[seeded].ServeHTTP(rw, httptest.NewRequest(http.MethodPost, "/", bytes.NewReader(b)))
					}()
					atomic.AddInt64(&n, 1)
					rep := map[string]any{"kind": "http-body", "seeded": seeded, "body_b64": base64.StdEncoding.EncodeToString(b)}
					switch {
					case pan != nil:
						run.Report("endpoint-panic", fmt.Sprintf("add-checkpoint body %q made the handler panic: %v", short(string(b)), pan), rep)
					case rw.headers > 1:
						run.Report("endpoint-multiple-responses", fmt.Sprintf("body %q: WriteHeader called %d times", short(string(b)), rw.headers), rep)
					case !c19Statuses[rw.Code]:
						run.Report(fmt.Sprintf("endpoint-undocumented-status status=%d", rw.Code), fmt.Sprintf("body %q answered with status %d", short(string(b)), rw.Code), rep)
					}
					run.Hist("endpoint_statuses", fmt.Sprint(rw.Code))
					if !envs[seeded].Snap().Equal(before) {
						envs[seeded].Close()
						envs[seeded], hs[seeded] = mkEnv(seeded)
					}
				}
				// Parsers on the same bytes.
				func() {
					defer func() {
						if p := recover(); p != nil {
							run.Report("parser-panic", fmt.Sprintf("bytes %q made a parser panic: %v", short(string(b)), p), map[string]any{"kind": "parse-body", "body_b64": base64.StdEncoding.EncodeToString(b)})
						}
					}()
					_, _, _, _ = bastion.VerifParseBody(bytes.NewReader(b))
					var p witness.Proof
					_ = p.Unmarshal(b)
				}()
			}
		}()
	}
	go func() { wg.Wait(); close(done) }()
	go func() {
		for _, b := range inputs {
			ch <- b
		}
		close(ch)
	}()
	// Watchdog: total progress must continue (generous: 120 s without any
	// completed request means a handler is stuck).
	last, lastT := int64(-1), time.Now()
loop:
	for {
		select {
		case <-done:
			break loop
		case <-time.After(2 * time.Second):
			if v := atomic.LoadInt64(&n); v != last {
				last, lastT = v, time.Now()
			} else if time.Since(lastT) > 120*time.Second {
				b := cur.Load()
				run.Report("endpoint-hang", fmt.Sprintf("no request completed for 120 s; last body started: %q", short(string(*b))), map[string]any{"kind": "http-body", "body_b64": base64.StdEncoding.EncodeToString(*b)})
				break loop
			}
		}
	}
	return atomic.LoadInt64(&n) + c19EndpointSQL(run, u, gen, la, lb, seeds) + c19Prom(run)
}

// c19OriginSweep: validly signed checkpoints of unknown origins whose first
// line is k ASCII bytes followed by a multi-byte rune, an invalid byte or a
// 4-byte rune, for every k in 0..130 (any fixed-length cut of the origin -
// for a log line, a metric label, a cache key - lands inside a rune for some k).
func c19OriginSweep(u *uni.U) [][]byte {
	var out [][]byte
	for k := 0; k <= 130; k++ {
		for _, tail := range []string{"\u00e9", "\u20ac", "\xff", "\U0001F600"} {
			origin := strings.Repeat("a", k) + tail
			out = append(out, c10Body(0, nil, u.Sign(uni.Body(origin, 3, u.Main.Root(3)), u.K1.Signer)))
		}
	}
	return out
}

// c19Prom runs the named requests and the origin sweep through the handler in
// a worker process whose metric factory is the Prometheus one (the production
// default): a label value the client library rejects panics inside the handler.
func c19Prom(run *ev.Run) int64 {
	self, _ := os.Executable()
	cmd := exec.Command(self, "worker", "c19prom")
	cmd.Env = append(os.Environ(), "VERIF_METRICS=prometheus")
	out, err := cmd.Output()
	var res struct {
		N      int64
		Panics []struct{ Name, Body, Panic string }
		Bad    []struct {
			Name, Body string
			Status     int
		}
	}
	if err != nil || json.Unmarshal(lastLine(out), &res) != nil {
		ev.Internal("C19 prometheus worker failed: %v: %s", err, tail(out))
	}
	for _, p := range res.Panics {
		run.Report("endpoint-panic metrics=prometheus request="+p.Name, fmt.Sprintf("with the Prometheus metric factory (the default of cmd/omniwitness) request %s made the add-checkpoint handler panic: %s", p.Name, p.Panic), map[string]any{"kind": "http-body-prometheus", "body_b64": p.Body})
	}
	for _, b := range res.Bad {
		run.Report(fmt.Sprintf("endpoint-undocumented-status metrics=prometheus status=%d", b.Status), fmt.Sprintf("with the Prometheus metric factory request %s answered %d", b.Name, b.Status), map[string]any{"kind": "http-body-prometheus", "body_b64": b.Body})
	}
	run.Set("endpoint_requests_with_prometheus_metrics", res.N)
	return res.N
}

func c19PromWorker(args []string) int {
	wh.InstallLogicalClock()
	u := uni.New(ev.Seed(), 8, []int{0})
	gen := wh.NewCPGen(u)
	la := wh.LogCfg{Origin: logA(), Key: u.K1}
	lb := wh.LogCfg{Origin: logB(), Key: u.K2}
	m, f := u.Main, u.Forks[0]
	body := func(l wh.LogCfg, b *uni.Branch, old, n int, shape string, proofFrom int) []byte {
		cp, _ := gen.Get(l, b, n, shape)
		return c10Body(uint64(old), b.Proof(proofFrom, n), cp)
	}
	type in struct {
		name string
		b    []byte
	}
	ins := []in{
		{"accepted-growth", body(la, m, 4, 6, "plain", 4)}, {"accepted-refresh", body(la, m, 4, 4, "ext", 0)}, {"first-use", body(lb, m, 0, 3, "plain", 0)},
		{"stale", body(la, m, 2, 6, "plain", 2)}, {"old-too-large", body(la, m, 7, 6, "plain", 4)}, {"root-mismatch", body(la, f, 4, 4, "plain", 0)},
		{"bad-proof", body(la, m, 4, 6, "plain", 3)}, {"bad-signature", c10Body(0, nil, gen.Forged(la, m, 5)[1].CP)}, {"malformed", []byte("old x\n\n")}, {"empty", nil},
		{"non-utf8-origin-short", c10Body(0, nil, u.Sign(uni.Body("\xff\xfe", 3, m.Root(3)), u.K1.Signer))},
	}
	for i, b := range c19OriginSweep(u) {
		ins = append(ins, in{fmt.Sprintf("unknown-origin-sweep[%d]", i), b})
	}
	var res struct {
		N      int64
		Panics []map[string]string
		Bad    []map[string]any
	}
	for _, seeded := range []bool{false, true} {
		e := wh.NewEnv(u, wh.Config{Store: "mem", Logs: []wh.LogCfg{la, lb}})
		if seeded {
			cp, meta := gen.Get(la, m, 4, "plain")
			e.Do(wh.Req{LogID: la.ID(), CP: cp, Meta: meta})
		}
		h := bastion.VerifNewHandler(omniwitness.VerifWitnessAdapter(e.W), c10Logs(la, lb), u.W1.CosigVerif, rate.Inf, 1, true)
		for _, x := range ins {
			rw := httptest.NewRecorder()
			var pan any
			func() {
				defer func() { pan = recover() }()
				h.ServeHTTP(rw, httptest.NewRequest(http.MethodPost, "/", bytes.NewReader(x.b)))
			}()
			res.N++
			if pan != nil {
				if len(res.Panics) < 5 {
					res.Panics = append(res.Panics, map[string]string{"Name": x.name, "Body": base64.StdEncoding.EncodeToString(x.b), "Panic": fmt.Sprint(pan)})
				}
				continue
			}
			if !c19Statuses[rw.Code] && len(res.Bad) < 5 {
				res.Bad = append(res.Bad, map[string]any{"Name": x.name, "Body": base64.StdEncoding.EncodeToString(x.b), "Status": rw.Code})
			}
		}
		e.Close()
	}
	b, _ := json.Marshal(res)
	fmt.Println(string(b))
	return 0
}

// c19EndpointSQL: on the production store (SQLite, one connection) a request
// must not leave the witness unable to answer the next one: every ordered
// pair of the named requests (one of every verdict class, incl. the one that
// is refused only after the store was opened for writing) from both start
// states, each followed by a read; a call that does not return within 20 s is
// a hang.
func c19EndpointSQL(run *ev.Run, u *uni.U, gen *wh.CPGen, la, lb wh.LogCfg, seeds map[string][]byte) int64 {
	var names []string
	for k := range seeds {
		names = append(names, k)
	}
	sort.Strings(names)
	// A first submission that cannot be cosigned (99 unknown signature lines).
	cpJ, _ := gen.Get(lb, u.Main, 3, "junk99")
	seeds["first-use-many-sig-lines"] = c10Body(0, nil, cpJ)
	names = append(names, "first-use-many-sig-lines")
	var n int64
	hung := false
	within := func(f func()) bool {
		done := make(chan struct{})
		go func() { defer close(done); f() }()
		select {
		case <-done:
			return true
		case <-time.After(20 * time.Second):
			return false
		}
	}
	for _, seeded := range []bool{false, true} {
		for _, x := range names {
			for _, y := range names {
				if hung {
					return n
				}
				e := wh.NewEnv(u, wh.Config{Store: "sql", Logs: []wh.LogCfg{la, lb}})
				if seeded {
					cp, meta := gen.Get(la, u.Main, 4, "plain")
					e.Do(wh.Req{LogID: la.ID(), CP: cp, Meta: meta})
				}
				h := bastion.VerifNewHandler(omniwitness.VerifWitnessAdapter(e.W), c10Logs(la, lb), u.W1.CosigVerif, rate.Inf, 1, true)
				step := ""
				ok := within(func() {
					step = "request " + x
					c10Serve(h, seeds[x])
					step = "request " + y + " after " + x
					c10Serve(h, seeds[y])
					step = "read after " + x + ", " + y
					_, _ = e.W.GetCheckpoint(la.ID())
					_, _ = e.W.GetLogs()
				})
				n += 2
				if !ok {
					hung = true
					run.Report("endpoint-hang store=sql after="+x, fmt.Sprintf("SQLite-backed witness (one connection), witness holds a checkpoint: %v: %s did not return within 20 s", seeded, step),
						map[string]any{"kind": "http-sequence-sql", "seeded": seeded, "first": x, "second": y})
					continue // the environment is abandoned (its connection is held)
				}
				e.Close()
			}
		}
	}
	run.Set("endpoint_sql_sequences", n/2)
	return n
}

// ---------------------------------------------------------------- feeders

type feedFn func(context.Context, config.Log, feeder.Witness, *http.Client, time.Duration) error

var c19Feeders = map[string]feedFn{"sumdb": sumdb.FeedLog, "pixel": pixelbt.FeedLog, "rekor": rekor.FeedLog, "rekor-inactive": rekor.FeedLog, "serverless": serverless.FeedLog, "tiles": tiles.FeedLog}
var c19FeederNames = []string{"sumdb", "tiles", "pixel", "rekor", "rekor-inactive", "serverless", "distributor"}

type c19Case struct {
	Feeder string
	Mode   string // "answers" or "hostile"
	// hostile parameters
	SizeIdx, HashLen int
	WitnessHas       bool
}

var c19Sizes = []uint64{0, 1, 1<<62 - 1, 1 << 62, 1<<62 + 1, 1<<63 - 1, 1 << 63, ^uint64(0)}
var c19HashLens = []int{0, 5, 31, 32, 33}

func c19SizeClass(s uint64) string {
	switch {
	case s < 1<<62:
		return "<2^62"
	case s < 1<<63:
		return "[2^62,2^63)"
	}
	return ">=2^63"
}

// c19RunCycle runs one feeder (or distributor) cycle against the stub.
func c19RunCycle(u *uni.U, gen *wh.CPGen, name string, head []byte, headSize int, witnessSize int, answer func(i int, path string) string) (reqs int, err error) {
	origin := c19Origin(name)
	la := wh.LogCfg{Origin: origin, Key: u.K1}
	url := "http://log.test/"
	flavour := name
	if strings.HasPrefix(name, "rekor") {
		url = "http://log.test/?treeID=1234567890"
	}
	if name == "sumdb" {
		url = "http://log.test" // the SumDB client concatenates base + "/latest"
	}
	if name == "distributor" {
		// The distributor talks to the distributor service, not to a log.
		cl, _ := config.NewLog(origin, u.K1.VKey, url)
		wcp := u.Sign(uni.Body(origin, 3, u.Main.Root(3)), u.K1.Signer, u.W1.CosigSigner)
		tr := &c19DistTransport{answer: answer}
		d, _ := rest.NewDistributor("http://dist.test", &http.Client{Transport: tr}, []config.Log{cl, cl}, u.W1.CosigVerif, &recWitness{cp: map[string][]byte{cl.ID: wcp}})
		err = d.DistributeOnce(context.Background())
		return tr.n, err
	}
	srv := stublog.New(flavour, u.Main)
	if head == nil {
		head = u.Sign(uni.Body(origin, uint64(headSize), u.Main.Root(headSize)), u.K1.Signer)
	}
	srv.SetHead(headSize, head)
	srv.Answer = answer
	cl, _ := config.NewLog(origin, u.K1.VKey, url)
	e := wh.NewEnv(u, wh.Config{Store: "mem", Logs: []wh.LogCfg{la}})
	defer e.Close()
	if witnessSize > 0 {
		cp := u.Sign(uni.Body(origin, uint64(witnessSize), u.Main.Root(witnessSize)), u.K1.Signer)
		e.Do(wh.Req{LogID: la.ID(), CP: cp})
	}
	ctx, release := wh.NoRetryContext(context.Background())
	defer release()
	err = c19Feeders[name](ctx, cl, omniwitness.VerifWitnessAdapter(e.W), &http.Client{Transport: srv}, 0)
	return len(srv.Requests()), err
}

// c19Outage: see c19FeedWorker. Returns the number of requests seen.
func c19Outage(u *uni.U, name string) (int, error) {
	origin := c19Origin(name)
	la := wh.LogCfg{Origin: origin, Key: u.K1}
	url := "http://log.test/"
	if strings.HasPrefix(name, "rekor") {
		url = "http://log.test/?treeID=1234567890"
	}
	if name == "sumdb" {
		url = "http://log.test"
	}
	srv := stublog.New(name, u.Main)
	srv.SetHead(6, u.Sign(uni.Body(origin, 6, u.Main.Root(6)), u.K1.Signer))
	srv.Answer = func(i int, path string) string {
		if i < 60 {
			return "http-500"
		}
		return ""
	}
	cl, _ := config.NewLog(origin, u.K1.VKey, url)
	e := wh.NewEnv(u, wh.Config{Store: "mem", Logs: []wh.LogCfg{la}})
	defer e.Close()
	e.Do(wh.Req{LogID: la.ID(), CP: u.Sign(uni.Body(origin, 2, u.Main.Root(2)), u.K1.Signer)})
	ctx, cancel := context.WithCancel(context.Background())
	defer cancel()
	go func() {
		// The context ends once the witness has caught up, or after 20 s.
		for t0 := time.Now(); time.Since(t0) < 20*time.Second; time.Sleep(5 * time.Millisecond) {
			if text, _, ok := uni.SplitNote(e.Stored(la.ID())); ok && text == uni.Body(origin, 6, u.Main.Root(6)) && len(srv.Requests()) > 60 {
				break
			}
		}
		cancel()
	}()
	err := c19Feeders[name](ctx, cl, omniwitness.VerifWitnessAdapter(e.W), &http.Client{Transport: srv}, 2*time.Millisecond)
	if err != nil && ctx.Err() != nil {
		err = nil // returning the context's error when it ended is the normal end of a polling feeder
	}
	return len(srv.Requests()), err
}

// c19Origin: the SumDB client only understands the Go checksum database's
// fixed first line.
func c19Origin(name string) string {
	if name == "sumdb" {
		return "go.sum database tree"
	}
	return "verif.example/c19-" + name
}

type c19DistTransport struct {
	answer func(i int, path string) string
	n      int
}

func (t *c19DistTransport) RoundTrip(r *http.Request) (*http.Response, error) {
	// As net/http's transport: a request whose context has ended fails.
	if err := r.Context().Err(); err != nil {
		return nil, err
	}
	i := t.n
	t.n++
	ans := ""
	if t.answer != nil {
		ans = t.answer(i, r.URL.Path)
	}
	srv := &stublog.Server{Flavour: "none"}
	srv.Answer = func(int, string) string { return ans }
	resp, err := srv.RoundTrip(r)
	if err == nil && ans == "" {
		resp.StatusCode, resp.Status = 200, "200 OK"
	}
	return resp, err
}

// c19FeedWorker: verifmc worker c19feed <feeder> <bound> <skip-json>
// Runs every case for one feeder; prints "B <id>" before and "E <id> <result>"
// after each execution so the parent can detect a stall.
func c19FeedWorker(args []string) int {
	name := args[0]
	var bound int
	fmt.Sscanf(args[1], "%d", &bound)
	var skips []string
	_ = json.Unmarshal([]byte(args[2]), &skips)
	skip := map[string]bool{}
	for _, s := range skips {
		skip[s] = true
	}
	wh.InstallLogicalClock()
	u := uni.New(ev.Seed(), 8, nil)
	gen := wh.NewCPGen(u)
	out := bufio.NewWriter(os.Stdout)
	emit := func(s string) { out.WriteString(s + "\n"); out.Flush() }
	guard := func(id string, f func() (int, error)) {
		emit("B " + id)
		var reqs int
		var err error
		var pan any
		func() {
			defer func() { pan = recover() }()
			reqs, err = f()
		}()
		switch {
		case pan != nil:
			emit(fmt.Sprintf("E %s PANIC %v", id, strings.ReplaceAll(fmt.Sprint(pan), "\n", " ")))
		case err != nil:
			emit(fmt.Sprintf("E %s ERR %d", id, reqs))
		default:
			emit(fmt.Sprintf("E %s OK %d", id, reqs))
		}
	}
	// Baseline: a fault-free cycle must succeed (otherwise the stub is wrong).
	guard("baseline", func() (int, error) { return c19RunCycle(u, gen, name, nil, 6, 2, nil) })
	// Environment answers, deviation-bounded.
	_, _ = choice.ExploreSkip(bound, func(prefix []int) bool { return skip["answers:"+strings.ReplaceAll(fmt.Sprint(prefix), " ", ",")] }, func(c *choice.C) {
		id := "answers:" + "pending"
		_ = id
		var pts []int
		f := func() (int, error) {
			return c19RunCycle(u, gen, name, nil, 6, 2, func(i int, path string) string {
				menu := stublog.MenuFor(name)
				k := c.Choose(len(menu), fmt.Sprintf("req%d", i))
				pts = append(pts, k)
				return menu[k]
			})
		}
		// The id must be known before the run: it is the prefix being replayed
		// (the worker is deterministic, so the parent can restart and skip it).
		guard("answers:"+strings.ReplaceAll(fmt.Sprint(c19Prefix(c)), " ", ","), f)
	})
	// The same with two deviations on a 300-leaf tree for the feeders that read
	// 256-wide tiles (a step 280 -> 300 needs partial tiles wider than anything
	// an 8-leaf tree has; a fallback from one failed request to another is a
	// two-deviation path): quick and thorough alike.
	if name == "sumdb" || name == "tiles" || name == "serverless" {
		uL := uni.New(ev.Seed(), 300, nil)
		genL := wh.NewCPGen(uL)
		_, _ = choice.ExploreSkip(2, func(prefix []int) bool { return skip["answersL:"+strings.ReplaceAll(fmt.Sprint(prefix), " ", ",")] }, func(c *choice.C) {
			f := func() (int, error) {
				return c19RunCycle(uL, genL, name, nil, 300, 280, func(i int, path string) string {
					menu := c19MenuL
					return menu[c.Choose(len(menu), fmt.Sprintf("req%d", i))]
				})
			}
			guard("answersL:"+strings.ReplaceAll(fmt.Sprint(c19Prefix(c)), " ", ","), f)
		})
	}
	// The distributor with MANY logs of which every one fails, in three ways (no
	// checkpoint at the witness, 500 from the service, connection reset): the
	// round ends and reports it (whatever is bounded per round - workers, a
	// channel of errors - is exceeded).
	if name == "distributor" {
		for _, how := range []string{"no-checkpoint", "http-500", "conn-reset"} {
			how := how
			if skip["many-fail:"+how] {
				emit("S many-fail:" + how)
				continue
			}
			guard("many-fail:"+how, func() (int, error) {
				var logs []config.Log
				cps := map[string][]byte{}
				for i := 0; i < 12; i++ {
					origin := fmt.Sprintf("%s/many/%d", c19Origin(name), i)
					cl, _ := config.NewLog(origin, u.K1.VKey, "http://log.test/")
					logs = append(logs, cl)
					if how != "no-checkpoint" {
						cps[cl.ID] = u.Sign(uni.Body(origin, 3, u.Main.Root(3)), u.K1.Signer, u.W1.CosigSigner)
					}
				}
				tr := &c19DistTransport{answer: func(int, string) string { return how }}
				d, _ := rest.NewDistributor("http://dist.test", &http.Client{Transport: tr}, logs, u.W1.CosigVerif, &recWitness{cp: cps})
				err := d.DistributeOnce(context.Background())
				if err == nil {
					return tr.n, nil
				}
				return tr.n, err
			})
		}
	}
	// An outage that ends: the feeder in POLLING mode (interval 2 ms) against a
	// log that answers 500 to its first 60 requests and is healthy afterwards -
	// whatever the polling loop keeps per failed cycle (a counter, a period, a
	// slot) adds up; it must neither panic nor exit, and it returns when its
	// context ends.
	if name != "distributor" && !skip["outage"] {
		guard("outage", func() (int, error) { return c19Outage(u, name) })
	}
	// Hostile log-signed checkpoints.
	if name != "distributor" {
		origin := c19Origin(name)
		for si, size := range c19Sizes {
			for _, hl := range c19HashLens {
				for _, has := range []bool{false, true} {
					id := fmt.Sprintf("hostile:%d:%d:%v", si, hl, has)
					if skip[id] || skip["class:"+c19CaseClass(id)] {
						// One confirmed hang/crash per class (size class x
						// witness state) is reported; the rest of the class is
						// the same finding and is not re-executed.
						emit("S " + id)
						continue
					}
					root := bytes.Repeat([]byte{0xab}, hl)
					head := u.Sign(uni.Body(origin, size, root), u.K1.Signer)
					ws := 0
					if has {
						ws = 1
					}
					guard(id, func() (int, error) { return c19RunCycle(u, gen, name, head, 6, ws, nil) })
				}
			}
		}
	}
	emit("DONE")
	return 0
}

// c19Prefix exposes the prefix a chooser was started with (its identity
// before the execution runs).
func c19Prefix(c *choice.C) []int { return c.Prefix() }

// c19MenuL: the answers of the large-tree exploration (failures, and bodies
// that are short / empty / of the wrong length while still 'consistent').
var c19MenuL = []string{"", "http-404", "http-500", "conn-reset", "empty", "truncated-half", "one-byte", "thirty-one-bytes", "zeros-same-length", "drop-last-byte", "append-byte", "unknown-length-empty"}

func c19Feeds(run *ev.Run, tier string) int64 {
	self, _ := os.Executable()
	bound := 1
	if tier == "thorough" {
		bound = 2
	}
	stall := 20 * time.Second
	var total int64
	var mu sync.Mutex
	var wg sync.WaitGroup
	for _, name := range c19FeederNames {
		wg.Add(1)
		go func(name string) {
			defer wg.Done()
			var skips []string
			hangs := map[string]int{}
			for attempt := 0; attempt < 400; attempt++ {
				sj, _ := json.Marshal(skips)
				cmd := exec.Command(self, "worker", "c19feed", name, fmt.Sprint(bound), string(sj))
				stdout, _ := cmd.StdoutPipe()
				if err := cmd.Start(); err != nil {
					ev.Internal("C19 worker: %v", err)
				}
				lines := make(chan string, 1024)
				go func() {
					sc := bufio.NewScanner(stdout)
					sc.Buffer(make([]byte, 1<<20), 1<<20)
					for sc.Scan() {
						lines <- sc.Text()
					}
					close(lines)
				}()
				curID, finished, stalled := "", false, false
			read:
				for {
					select {
					case l, ok := <-lines:
						if !ok {
							break read
						}
						f := strings.SplitN(l, " ", 4)
						switch f[0] {
						case "B":
							curID = f[1]
						case "E":
							mu.Lock()
							total++
							mu.Unlock()
							res := f[2]
							cls := strings.SplitN(f[1], ":", 2)[0]
							run.Hist("feeder_results", name+" "+cls+" "+res)
							run.Distinct(name + "|" + f[1])
							if f[1] == "baseline" && res == "ERR" {
								ev.Internal("C19: fault-free %s cycle against the stub did not succeed (%s)", name, l)
							}
							if res == "PANIC" {
								run.Report(fmt.Sprintf("feeder-panic feeder=%s case=%s", name, c19CaseClass(f[1])), fmt.Sprintf("%s cycle, case %s: panic: %s", name, f[1], f[len(f)-1]), map[string]any{"kind": "feeder-case", "feeder": name, "case": f[1]})
							}
							curID = ""
						case "S":
							run.Add("feeder_cases_skipped_same_class_as_a_reported_hang", 1)
						case "DONE":
							finished = true
						}
					case <-time.After(stall):
						stalled = true
						break read
					}
				}
				if stalled {
					_ = cmd.Process.Kill()
				}
				_ = cmd.Wait()
				if finished {
					return
				}
				if curID == "" {
					ev.Internal("C19 worker for %s ended without finishing and without a case in flight", name)
				}
				// The case in flight either stalled or killed the process.
				hangs[curID]++
				what := "never returned (no progress for " + stall.String() + ")"
				kind := "feeder-hang"
				if !stalled {
					what = "terminated the process (unrecovered panic or exit)"
					kind = "feeder-crash"
				}
				if hangs[curID] < 3 {
					continue // confirm: the worker is deterministic, the same case comes up again
				}
				run.Report(fmt.Sprintf("%s feeder=%s case=%s", kind, name, c19CaseClass(curID)), fmt.Sprintf("%s cycle, case %s: %s, confirmed 3 times", name, curID, what), map[string]any{"kind": "feeder-case", "feeder": name, "case": curID})
				if curID == "baseline" {
					return // not even the fault-free cycle ends: nothing further to explore for this feeder
				}
				skips = append(skips, curID)
				if strings.HasPrefix(curID, "hostile:") {
					skips = append(skips, "class:"+c19CaseClass(curID))
				}
			}
		}(name)
	}
	wg.Wait()
	return total
}

// c19CaseClass abstracts a case id for violation signatures.
func c19CaseClass(id string) string {
	if strings.HasPrefix(id, "hostile:") {
		var si, hl int
		var has bool
		fmt.Sscanf(strings.ReplaceAll(strings.TrimPrefix(id, "hostile:"), ":", " "), "%d %d %t", &si, &hl, &has)
		return fmt.Sprintf("log-signed-size=%s witness-has-checkpoint=%v", c19SizeClass(c19Sizes[si]), has)
	}
	if strings.HasPrefix(id, "many-fail:") {
		return "every-log-of-12-fails"
	}
	if strings.HasPrefix(id, "answers:") || strings.HasPrefix(id, "answersL:") {
		return "environment-answers"
	}
	return id
}

func c19(tier string) int {
	run := ev.NewRun("C19", tier, "exploration")
	wh.InstallLogicalClock()
	n1 := c19Endpoint(run, tier)
	n2 := c19Feeds(run, tier)
	run.Sample(map[string]any{"endpoint_body": "old 4\nQUJD\n\nverif.example/log-a\n6\n...", "mutation": "every prefix / deletion / bit flip / insertion of 14 tokens at every position"})
	run.Sample(map[string]any{"feeder": "sumdb", "case": "hostile:3:33:true", "meaning": "log-signed checkpoint with size 2^62 and a 33-byte root hash, witness holding size 1"})
	run.Sample(map[string]any{"feeder": "rekor", "case": "answers:[0 11]", "meaning": "second request answered with type-confused JSON"})
	run.Set("endpoint_requests", n1)
	run.Set("feeder_cycles", n2)
	run.Set("evaluations", n1+n2)
	run.Set("exhaustive", true)
	run.Set("rule", "endpoint: the complete 1-edit neighbourhood (every prefix, deletion, bit flip, 14 insert tokens at every position) of a valid request of 11 verdict classes, all token strings up to 4 (quick) / 5 (thorough) tokens over 13 tokens, and size-boundary bodies (16383/16384/16385 bytes, 5000-byte proof line, 3000 proof lines, a proof line longer than the reader's buffer), each sent to the real handler behind the 16 KiB cap in front of the real witness in two states, and through parseBody and Proof.Unmarshal: no panic, exactly one response, status in {200,400,403,404,409,422,429,500}. Feeders (sumdb, tiles, pixel, rekor, serverless) and distributor: one cycle in a worker subprocess for every placement of up to 1 (quick) / 2 (thorough) deviating answers from a 27-item menu (empty, truncated at several places, oversized, non-UTF-8, wrong content, seven type-confused / degenerate JSON shapes, one byte, 31 bytes, serverless tile header only / huge leaf count, last byte dropped / extra byte, zeros, 204, 302 without Location, 404, 500, reset) at every request position; for sumdb, tiles and serverless additionally every placement of up to 2 answers from a 12-item menu (failures and short / empty / wrong-length bodies) in a step 280 -> 300 of a 300-leaf tree (partial tiles up to 44 wide), in both tiers; and for log-signed checkpoints with size in {0,1,2^62-1,2^62,2^62+1,2^63-1,2^63,2^64-1} x root hash length {0,5,31,32,33} x witness {empty, size 1}: plus, per feeder, one polling run (interval 2 ms) through an outage of 60 failed requests that ends; must end with a result or an error (no panic, no process exit, no stall: 20 s without progress, confirmed 3 times). distinct_nontrivial = distinct feeder cases")
	run.Assumption("a retry loop that keeps retrying until its context ends is by design: cycles run with a context that ends at the first back-off wait")
	run.Assumption("not all byte strings up to 16 KiB: the stated neighbourhoods and menus, completely (coverage-guided fuzzing would be a different technique family)")
	return run.Finish()
}

func init() { Replayers["feeder-case"] = c19ReplayCase }

// c19ReplayCase re-executes one recorded feeder cycle: "answers:[a,b,..]"
// (indices into the feeder's answer menu, one per request, then the default
// answer) or "hostile:<size index>:<hash length>:<witness has checkpoint>".
// A cycle that neither returns nor panics within 60 s is reported as a hang.
func c19ReplayCase(m map[string]any) int {
	wh.InstallLogicalClock()
	name, _ := m["feeder"].(string)
	id, _ := m["case"].(string)
	u := uni.New(ev.Seed(), 8, nil)
	gen := wh.NewCPGen(u)
	var f func() (int, error)
	switch {
	case strings.HasPrefix(id, "answersL:"):
		var idx []int
		for _, t := range strings.Split(strings.Trim(strings.TrimPrefix(id, "answersL:"), "[]"), ",") {
			var k int
			if _, err := fmt.Sscanf(strings.TrimSpace(t), "%d", &k); err == nil {
				idx = append(idx, k)
			}
		}
		uL := uni.New(ev.Seed(), 300, nil)
		genL := wh.NewCPGen(uL)
		f = func() (int, error) {
			return c19RunCycle(uL, genL, name, nil, 300, 280, func(i int, path string) string {
				if i < len(idx) && idx[i] < len(c19MenuL) {
					fmt.Printf("  request %d (%s): answer %q\n", i, path, c19MenuL[idx[i]])
					return c19MenuL[idx[i]]
				}
				return ""
			})
		}
	case strings.HasPrefix(id, "answers:"):
		var idx []int
		for _, t := range strings.Split(strings.Trim(strings.TrimPrefix(id, "answers:"), "[]"), ",") {
			var k int
			if _, err := fmt.Sscanf(strings.TrimSpace(t), "%d", &k); err == nil {
				idx = append(idx, k)
			}
		}
		menu := stublog.MenuFor(name)
		f = func() (int, error) {
			return c19RunCycle(u, gen, name, nil, 6, 2, func(i int, path string) string {
				if i < len(idx) && idx[i] < len(menu) {
					fmt.Printf("  request %d (%s): answer %q\n", i, path, menu[idx[i]])
					return menu[idx[i]]
				}
				return ""
			})
		}
	case strings.HasPrefix(id, "hostile:"):
		var si, hl int
		var has bool
		fmt.Sscanf(strings.ReplaceAll(strings.TrimPrefix(id, "hostile:"), ":", " "), "%d %d %t", &si, &hl, &has)
		head := u.Sign(uni.Body(c19Origin(name), c19Sizes[si], bytes.Repeat([]byte{0xab}, hl)), u.K1.Signer)
		ws := 0
		if has {
			ws = 1
		}
		fmt.Printf("  log-signed checkpoint: size %d, %d-byte root; witness holds a checkpoint: %v\n", c19Sizes[si], hl, has)
		f = func() (int, error) { return c19RunCycle(u, gen, name, head, 6, ws, nil) }
	default:
		f = func() (int, error) { return c19RunCycle(u, gen, name, nil, 6, 2, nil) }
	}
	type res struct {
		reqs int
		err  error
		pan  any
	}
	ch := make(chan res, 1)
	go func() {
		var r res
		defer func() { r.pan = recover(); ch <- r }()
		r.reqs, r.err = f()
	}()
	select {
	case r := <-ch:
		if r.pan != nil {
			fmt.Printf("REPRODUCED property=C19\n  %s cycle, case %s: panic: %v\n", name, id, r.pan)
			return 1
		}
		fmt.Printf("%s cycle, case %s: ended after %d requests with err=%v\nnot reproduced: the cycle ends with a result or an error\n", name, id, r.reqs, r.err)
		return 0
	case <-time.After(60 * time.Second):
		fmt.Printf("REPRODUCED property=C19\n  %s cycle, case %s: no result after 60 s (hang)\n", name, id)
		return 1
	}
}
