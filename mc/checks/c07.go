package checks

import (
	"io/fs"
	"syscall"
	sqlite3 "github.com/mattn/go-sqlite3"
	"context"
	"errors"
	"fmt"
	"strings"
	"sync"
	"time"

	"github.com/transparency-dev/witness/internal/persistence"
	"github.com/transparency-dev/witness/verifmc/choice"
	"github.com/transparency-dev/witness/verifmc/drvwrap"
	"github.com/transparency-dev/witness/verifmc/ev"
	"github.com/transparency-dev/witness/verifmc/lspwrap"
	"github.com/transparency-dev/witness/verifmc/uni"
	"github.com/transparency-dev/witness/verifmc/wh"
	"google.golang.org/grpc/codes"
	"google.golang.org/grpc/status"
)

func init() { Registry["C07"] = c07 }

var errInjected = errors.New("verif: injected storage fault")

var (
	blockedMu     sync.Mutex
	blockedStores = map[string]bool{}
)

// faultOp is one step of a fault history: an Update or a read.
type faultOp struct {
	// Outside: a request outside wmodel (refused for a reason the protocol
	// table does not know): it must be refused and change nothing; its verdict
	// is not compared with the model.
	Outside bool
	Read    bool // GetCheckpoint(LogID) instead of Update
	Logs    bool // GetLogs
	Req     wh.Req
	Label   string
}

type faultHistory struct {
	Name   string
	Prefix []wh.Req  // fault-free
	Ops    []faultOp // faults enumerated here
}

// faultMode selects where faults are injected.
type faultMode struct {
	Level       string // "iface" or "driver"
	AfterEffect bool   // include "took effect, then reported failure" answers
}

func ifaceOptions(op string, after bool) []string {
	switch op {
	case "WriteOps", "ReadOps", "Logs":
		return []string{"ok", "err"}
	case "r.GetLatest":
		return []string{"ok", "err", "err-sticky"}
	case "w.GetLatest":
		return []string{"ok", "err", "unavailable", "internal", "err-sticky", "enoent"}
	case "w.Set":
		if after {
			return []string{"ok", "err", "err-after-effect", "err-sticky"}
		}
		return []string{"ok", "err", "err-sticky"}
	case "w.Close":
		return []string{"ok", "err"}
	}
	return []string{"ok"}
}

func driverOptions(op string, after bool) []string {
	switch op {
	case "exec":
		// err-sqlite-*: the error is a sqlite3.Error with that result code, as
		// the real driver returns (code that classifies errors by type/code
		// sees them): NOMEM and the generic ERROR are codes hardly any table
		// lists, BUSY one every table lists.
		return []string{"ok", "err", "err-sticky", "err-sqlite-nomem", "err-sqlite-error", "err-sqlite-busy"}
	case "query", "next":
		// err-sticky: this kind of call keeps failing until the current
		// operation is over (a store that is locked / down for a while):
		// one deviation, however often the code retries.
		return []string{"ok", "err", "err-sticky"}
	case "begin", "prepare", "rollback":
		return []string{"ok", "err"}
	case "commit":
		if after {
			return []string{"ok", "err-rolled-back", "err-committed", "err-sqlite-protocol"}
		}
		return []string{"ok", "err-rolled-back", "err-sqlite-protocol"}
	}
	return []string{"ok"}
}

func faultErr(kind string) error {
	switch kind {
	case "unavailable":
		return status.Error(codes.Unavailable, "verif: injected unavailable")
	case "internal":
		return status.Error(codes.Internal, "verif: injected internal")
	case "enoent":
		// What a store on a file system reports when a file has gone missing:
		// errors.Is(err, os.ErrNotExist) holds - and it is a FAILED read, not
		// 'no checkpoint yet'.
		return &fs.PathError{Op: "open", Path: "/var/lib/witness/chkpts.db-journal", Err: syscall.ENOENT}
	}
	return errInjected
}

// timed runs f and reports whether it completed within a generous deadline
// (operations take microseconds; 30 s without completion means the call is
// blocked, e.g. waiting for the pool's only connection that some earlier
// outcome never released in a way the driver wrapper cannot see).
func timed(f func()) bool {
	done := make(chan struct{})
	go func() { f(); close(done) }()
	select {
	case <-done:
		return true
	case <-time.After(30 * time.Second):
		return false
	}
}

// faultExec runs one history under one chooser and applies the oracle.
// c03only restricts the oracle to the C03 statement.
// faultViews: the fault enumeration is one engine; each property's check owns
// some of its oracles (the executions are the same, the reports differ).
// C07 owns all of them; C03 has its own restricted oracle (c03only).
var faultViews = map[string][]string{
	"C01": {"split-view-under-fault"},
	"C04": {"handed-out-under-fault", "false-success"},
	"C06": {"false-success", "state-changed-on-error", "accepted-under-fault", "split-view-under-fault"},
	"C08": {"suffix-growth-refused", "blocked", "wedge"},
	"C09": {"fault-free-mismatch", "suffix-fork-not-refused", "suffix-growth-refused", "wrong-verdict-under-fault", "accepted-under-fault"},
	"C12": {"other-log-changed", "blocked", "wedge"},
	"C16": {"read-wrong-bytes", "read-logs-wrong", "read-fault-reported-as-not-found", "suffix-read", "read-failed-without-fault"},
}

func faultExec(run *ev.Run, view string, u *uni.U, gen *wh.CPGen, logs []wh.LogCfg, store string, mode faultMode, h faultHistory, c *choice.C) {
	c03only := view == "C03"
	prop := view
	_ = prop
	// report files a finding of the engine under the property whose view owns it.
	report := func(sig, what string, rep map[string]any) {
		if own, restricted := faultViews[view]; restricted {
			ok := false
			for _, pre := range own {
				if strings.HasPrefix(sig, pre) {
					ok = true
				}
			}
			if !ok {
				return
			}
		}
		run.Report(sig, what, rep)
	}
	accepted := map[string][]wh.Meta{}
	// Once an operation was found blocked on this store, every further
	// execution would spend the same 30 s finding it again: the violation is
	// reported, the rest of this store's enumeration is cut short.
	blockedMu.Lock()
	cut := blockedStores[store]
	blockedMu.Unlock()
	if cut {
		run.Add("executions_skipped_after_a_blocked_store_was_reported", 1)
		return
	}
	markBlocked := func() {
		blockedMu.Lock()
		blockedStores[store] = true
		blockedMu.Unlock()
	}
	active := false
	afterEffect := false // an "after effect" answer was given in the current op
	sticky := map[string]bool{} // call kinds that keep failing until the current op ends
	var lw *lspwrap.P
	cfg := wh.Config{Store: store, Logs: logs}
	if mode.Level == "iface" {
		cfg.Wrap = func(p persistence.LogStatePersistence) persistence.LogStatePersistence {
			lw = lspwrap.New(p, lspwrap.Hooks{Fault: func(op, id string) (error, bool) {
				if !active {
					return nil, false
				}
				if sticky[op] {
					return errInjected, false
				}
				opts := ifaceOptions(op, mode.AfterEffect)
				if len(opts) == 1 {
					return nil, false
				}
				k := opts[c.Choose(len(opts), op)]
				switch k {
				case "ok":
					return nil, false
				case "err-after-effect":
					afterEffect = true
					return errInjected, true
				case "err-sticky":
					sticky[op] = true
					return errInjected, false
				}
				return faultErr(k), false
			}})
			return lw
		}
	} else {
		cfg.Wrap = func(p persistence.LogStatePersistence) persistence.LogStatePersistence {
			lw = lspwrap.New(p, lspwrap.Hooks{})
			return lw
		}
	}
	e := wh.NewEnv(u, cfg)
	defer e.Close()
	if mode.Level == "driver" {
		e.Drv.SetHook(func(op string, k int, phase string) drvwrap.Action {
			if !active || phase != "pre" {
				return drvwrap.Action{}
			}
			if sticky["drv:"+op] {
				return drvwrap.Action{Err: drvwrap.ErrInjected}
			}
			opts := driverOptions(op, mode.AfterEffect)
			if len(opts) == 1 {
				return drvwrap.Action{}
			}
			switch opts[c.Choose(len(opts), "drv:"+op)] {
			case "ok":
				return drvwrap.Action{}
			case "err-sticky":
				sticky["drv:"+op] = true
				return drvwrap.Action{Err: drvwrap.ErrInjected}
			case "err-sqlite-nomem":
				return drvwrap.Action{Err: sqlite3.Error{Code: sqlite3.ErrNomem}}
			case "err-sqlite-error":
				return drvwrap.Action{Err: sqlite3.Error{Code: sqlite3.ErrError}}
			case "err-sqlite-busy":
				return drvwrap.Action{Err: sqlite3.Error{Code: sqlite3.ErrBusy}}
			case "err-sqlite-protocol":
				return drvwrap.Action{Err: sqlite3.Error{Code: sqlite3.ErrProtocol}}
			case "err-committed":
				afterEffect = true
				return drvwrap.Action{Err: drvwrap.ErrInjected, After: true}
			}
			return drvwrap.Action{Err: drvwrap.ErrInjected}
		})
	}
	for i, r := range h.Prefix {
		if out := e.Do(r); out.Class != wh.OK {
			ev.Internal("fault history %s: prefix step %d refused: %v", h.Name, i, out.Err)
		}
	}
	replay := func(extra map[string]any) map[string]any {
		var ops []any
		for _, o := range h.Ops {
			if o.Read || o.Logs {
				ops = append(ops, map[string]any{"read": o.Label})
			} else {
				ops = append(ops, o.Req.JSON())
			}
		}
		var pre []any
		for _, r := range h.Prefix {
			pre = append(pre, r.JSON())
		}
		m := map[string]any{"kind": "fault-history", "history": h.Name, "store": store, "level": mode.Level, "after_effect": mode.AfterEffect,
			"choices": c.Choices(), "faults": c.Trace(), "prefix": pre, "ops": ops}
		for k, v := range extra {
			m[k] = v
		}
		return m
	}
	// wedged reports (and returns true) if a storage transaction or handle is
	// left open: the next operation on a one-connection store would block.
	wedged := func(after string) bool {
		open := lw.OpenHandles()
		tx, rows := 0, 0
		if e.Drv != nil {
			tx, rows = e.Drv.OpenTx(), e.Drv.OpenRows()
		}
		if open == 0 && tx == 0 && rows == 0 {
			// Driver state is clean; on the single-connection pool also make
			// sure the connection really went back (a pinned *sql.Conn that
			// was never closed holds it without any open Tx or Rows).
			if e.DB != nil {
				if !timed(func() {
					if cn, err := e.DB.Conn(context.Background()); err == nil {
						_ = cn.Close()
					}
				}) {
					markBlocked()
					if !c03only {
						report(fmt.Sprintf("wedge store=%s connection-not-returned", storeKind(store)),
							fmt.Sprintf("history %s, faults %v: after %s the pool's only connection was not returned within 30 s: every later operation blocks", h.Name, c.Trace(), after), replay(nil))
					}
					return true
				}
			}
			return false
		}
		if !c03only {
			report(fmt.Sprintf("wedge store=%s after=%s open-handles=%d open-tx=%d", storeKind(store), after, open, tx),
				fmt.Sprintf("history %s, faults %v: after %s the witness left %d write handle(s) unclosed, %d transaction(s) and %d cursor(s) open: the next operation on a single-connection store blocks forever", h.Name, c.Trace(), after, open, tx, rows), replay(nil))
		}
		return true
	}

	for oi, op := range h.Ops {
		pointsBefore := len(c.Points)
		devBefore := c.Deviations()
		afterEffect = false
		sticky = map[string]bool{}
		if op.Read || op.Logs {
			pre := e.Snap()
			active = true
			var got []byte
			var err error
			var logsGot []string
			if !timed(func() {
				if op.Logs {
					logsGot, err = e.W.GetLogs()
				} else {
					got, err = e.W.GetCheckpoint(op.Req.LogID)
				}
			}) {
				active = false
				markBlocked()
				if !c03only {
					report(fmt.Sprintf("blocked store=%s op=read", storeKind(store)), fmt.Sprintf("history %s, faults %v: %s did not complete within 30 s (the store is wedged by an earlier outcome)", h.Name, c.Trace(), op.Label), replay(nil))
				}
				return
			}
			active = false
			if wedged(op.Label) {
				return
			}
			faulted := c.Deviations() > devBefore
			run.Hist("read_outcomes", fmt.Sprintf("faulted=%v err=%v", faulted, err != nil))
			if c03only {
				continue
			}
			if err == nil {
				if op.Logs {
					if !sameSet(logsGot, pre.Logs) {
						report("read-logs-wrong", fmt.Sprintf("history %s faults %v: GetLogs returned %v, stored %v", h.Name, c.Trace(), logsGot, pre.Logs), replay(nil))
					}
				} else if string(got) != pre.ByID[op.Req.LogID] {
					report("read-wrong-bytes", fmt.Sprintf("history %s faults %v: GetCheckpoint returned bytes that are not the stored checkpoint", h.Name, c.Trace()), replay(nil))
				}
			} else if faulted && status.Code(err) == codes.NotFound && !op.Logs && pre.ByID[op.Req.LogID] != "" {
				report("read-fault-reported-as-not-found store="+storeKind(store), fmt.Sprintf("history %s faults %v: a failing read of a log that holds a checkpoint was answered 'not found' (callers then treat the log as having no checkpoint)", h.Name, c.Trace()), replay(nil))
			} else if !faulted {
				if !(status.Code(err) == codes.NotFound && pre.ByID[op.Req.LogID] == "" && !op.Logs) {
					report("read-failed-without-fault", fmt.Sprintf("history %s: read %s failed without any fault: %v", h.Name, op.Label, err), replay(nil))
				}
			}
			continue
		}
		r := op.Req
		id := r.LogID
		pre := e.Snap()
		stPre, _ := wh.StateOf(gen, []byte(pre.ByID[id]))
		if _, has := pre.ByID[id]; !has {
			stPre = wh.MState{}
		}
		var lc *wh.LogCfg
		if cfgd, ok := e.LogByID[id]; ok {
			lc = &cfgd
		}
		exp := wh.Model(lc, stPre, r)
		active = true
		var out wh.Outcome
		if !timed(func() { out = e.Do(r) }) {
			active = false
			markBlocked()
			if !c03only {
				report(fmt.Sprintf("blocked store=%s op=update", storeKind(store)), fmt.Sprintf("history %s, faults %v: Update %q did not complete within 30 s (the store is wedged by an earlier outcome)", h.Name, c.Trace(), r.Label), replay(nil))
			}
			return
		}
		active = false
		faulted := c.Deviations() > devBefore
		_ = pointsBefore
		if wedged(fmt.Sprintf("op %d (%s, %s)", oi, exp.Class, out.Class)) {
			return
		}
		post := e.Snap()
		kind := "fault-free"
		if faulted {
			kind = "faulted"
		}
		run.Hist("update_outcomes", fmt.Sprintf("%s expected=%s got=%s", kind, exp.Class, out.Class))
		sig := func(k string) string {
			return fmt.Sprintf("%s store=%s level=%s expected=%s got=%s faults=%s", k, storeKind(store), mode.Level, exp.Class, out.Class, faultKinds(c))
		}
		desc := func(s string) string {
			return fmt.Sprintf("history %s, faults %v, op %d %q: %s", h.Name, c.Trace(), oi, r.Label, s)
		}
		if out.Err != nil {
			run.Hist("refusal_classes", func() string {
				if faulted && out.Class == wh.Other {
					return "storage-failure"
				}
				return "other"
			}())
		}
		if out.Err == nil && !r.Meta.Broken && r.Meta.Branch != nil {
			// C01's oracle under faults: everything ever RETURNED as accepted
			// for a log lies on one history.
			for _, p := range accepted[id] {
				lo, hi := p, r.Meta
				if lo.Size > hi.Size {
					lo, hi = hi, lo
				}
				if (lo.Size == hi.Size && string(lo.Root) != string(hi.Root)) || !uni.IsPrefix(lo.Branch, int(lo.Size), hi.Branch, int(hi.Size)) {
					report(sig("split-view-under-fault"), desc(fmt.Sprintf("the witness returned cosigned checkpoints %s@%d and %s@%d, which are not on one history", p.Branch.Name, p.Size, r.Meta.Branch.Name, r.Meta.Size)), replay(nil))
				}
			}
			accepted[id] = append(accepted[id], r.Meta)
			// C04's oracle under faults: what an accepted Update hands out is
			// the submitted text, log-signed, one valid line per witness key.
			if text, sigs, ok := uni.SplitNote(out.Bytes); !ok || text != r.Meta.Text {
				report(sig("handed-out-under-fault text"), desc("accepted, but the returned bytes are not a note over the submitted text"), replay(nil))
			} else {
				if cfgd, ok := e.LogByID[id]; ok {
					if _, v := countValid(cfgd.Key.Verif, text, sigs); v < 1 {
						report(sig("handed-out-under-fault log-signature"), desc("accepted, but the returned note lacks the log's valid signature"), replay(nil))
					}
				}
				for _, wv := range e.WitVerifs {
					if n, v := countValid(wv, text, sigs); n != 1 || v != 1 {
						report(sig("handed-out-under-fault cosignature"), desc(fmt.Sprintf("accepted, but the returned note has %d lines / %d valid for witness key %s", n, v, wv.Name())), replay(nil))
					}
				}
			}
		}
		if op.Outside {
			if out.Err == nil || !post.Equal(pre) {
				report(sig("state-changed-on-error"), desc("a request that cannot be accepted was accepted or changed the stored state"), replay(nil))
			}
			continue
		}
		if c03only {
			if out.Err != nil && !afterEffect {
				if !post.Equal(pre) {
					report(sig("state-changed class=storage-failure"), desc("refused update changed the stored state"), replay(nil))
				}
				if out.Bytes != nil && string(out.Bytes) != pre.ByID[id] {
					report(sig("bytes-with-refusal class=storage-failure"), desc("refusal returned bytes that are not the stored checkpoint"), replay(nil))
				}
			}
			continue
		}
		// (i) success => read-back equals the returned bytes, and the request
		// was acceptable from the state that was really stored.
		if out.Err == nil {
			if post.ByID[id] != string(out.Bytes) {
				report(sig("false-success"), desc("Update reported success but a following read does not return the checkpoint it returned"), replay(nil))
				continue
			}
			if exp.Class != wh.OK {
				what := "accepted a request the protocol refuses from the stored state"
				if stPre.Has && r.Old == 0 {
					what = "treated a failed read of the previous checkpoint as 'no previous checkpoint' (trust on first use over an existing state)"
				}
				report(sig("accepted-under-fault"), desc(what), replay(nil))
				continue
			}
			for k, v := range pre.ByID {
				if k != id && post.ByID[k] != v {
					report(sig("other-log-changed"), desc("another log's state changed"), replay(nil))
				}
			}
			continue
		}
		// error: state unchanged, or (only after an "after effect" answer) the
		// new checkpoint.
		if !post.Equal(pre) {
			text, _, ok := uni.SplitNote([]byte(post.ByID[id]))
			if !(afterEffect && exp.Class == wh.OK && ok && text == r.Meta.Text) {
				report(sig("state-changed-on-error"), desc("Update failed but the stored state changed"), replay(nil))
				continue
			}
			run.Add("commit_reported_failed_after_effect", 1)
		}
		if !faulted {
			if out.Class != exp.Class {
				report(sig("fault-free-mismatch"), desc(fmt.Sprintf("fault-free step answered %s (%v), model says %s", out.Class, out.Err, exp.Class)), replay(nil))
			}
		} else if out.Class != wh.Other && out.Class != exp.Class {
			report(sig("wrong-verdict-under-fault"), desc(fmt.Sprintf("faulted step answered %s, model says %s or a storage error", out.Class, exp.Class)), replay(nil))
		}
	}
	if c03only {
		return
	}
	// (iii) fault-free suffix from the committed state.
	for _, l := range logs {
		id := l.ID()
		cur := e.Stored(id)
		st, ok := wh.StateOf(gen, cur)
		if !ok {
			report("suffix-foreign-state", fmt.Sprintf("history %s faults %v: store holds unknown bytes", h.Name, c.Trace()), replay(nil))
			continue
		}
		got, err := e.W.GetCheckpoint(id)
		if st.Has && (err != nil || string(got) != string(cur)) || !st.Has && status.Code(err) != codes.NotFound {
			report("suffix-read", fmt.Sprintf("history %s faults %v: fault-free read after the faults failed: %v", h.Name, c.Trace(), err), replay(nil))
		}
		if !st.Has || st.Size == 0 || int(st.Size)+1 > u.N {
			continue
		}
		// A fork is refused, then honest growth is accepted.
		fk := u.Forks[0]
		if st.Branch == fk {
			continue
		}
		s := int(st.Size)
		cpF, mF := gen.Get(l, fk, s+1, "plain")
		var out wh.Outcome
		if !timed(func() { out = e.Do(wh.Req{LogID: id, Old: st.Size, CP: cpF, Proof: fk.Proof(s, s+1), Meta: mF}) }) {
			markBlocked()
			report(fmt.Sprintf("blocked store=%s op=suffix-update", storeKind(store)), fmt.Sprintf("history %s faults %v: the fault-free Update after the faults did not complete within 30 s (store wedged)", h.Name, c.Trace()), replay(nil))
			return
		}
		if out.Class != wh.BadProof {
			report("suffix-fork-not-refused got="+out.Class, fmt.Sprintf("history %s faults %v: after the faults a fork was answered %s (%v)", h.Name, c.Trace(), out.Class, out.Err), replay(nil))
		}
		if wedged("suffix fork probe") {
			return
		}
		cpG, mG := gen.Get(l, st.Branch, s+1, "plain")
		if !timed(func() { out = e.Do(wh.Req{LogID: id, Old: st.Size, CP: cpG, Proof: st.Branch.Proof(s, s+1), Meta: mG}) }) {
			markBlocked()
			report(fmt.Sprintf("blocked store=%s op=suffix-update", storeKind(store)), fmt.Sprintf("history %s faults %v: the fault-free growth after the faults did not complete within 30 s (store wedged)", h.Name, c.Trace()), replay(nil))
			return
		}
		if out.Class != wh.OK {
			report("suffix-growth-refused got="+out.Class, fmt.Sprintf("history %s faults %v: after the faults honest growth %d->%d was answered %s (%v)", h.Name, c.Trace(), s, s+1, out.Class, out.Err), replay(nil))
		}
		if wedged("suffix") {
			return
		}
	}
}

func storeKind(s string) string {
	if strings.HasPrefix(s, "file:") {
		return "sqlfile"
	}
	return s
}

func faultKinds(c *choice.C) string {
	var k []string
	for _, p := range c.Points {
		if p.Taken != 0 {
			k = append(k, fmt.Sprintf("%s#%d", p.Label, p.Taken))
		}
	}
	return strings.Join(k, ",")
}

func sameSet(a, b []string) bool {
	m := map[string]int{}
	for _, x := range a {
		m[x]++
	}
	for _, x := range b {
		m[x]--
	}
	for _, v := range m {
		if v != 0 {
			return false
		}
	}
	return true
}

// faultHistories builds the histories of C07.
func faultHistories(u *uni.U, gen *wh.CPGen, la, lb wh.LogCfg) []faultHistory {
	m := u.Main
	f := u.Forks[0]
	req := func(l wh.LogCfg, b *uni.Branch, old, n int, proofFrom int, label string) wh.Req {
		cp, meta := gen.Get(l, b, n, "plain")
		var p [][]byte
		if proofFrom > 0 && proofFrom < n {
			p = b.Proof(proofFrom, n)
		}
		return wh.Req{LogID: l.ID(), Old: uint64(old), CP: cp, Proof: p, Meta: meta, Label: label}
	}
	up := func(r wh.Req) faultOp { return faultOp{Req: r, Label: r.Label} }
	rd := func(l wh.LogCfg) faultOp {
		return faultOp{Read: true, Req: wh.Req{LogID: l.ID()}, Label: "read " + l.Origin}
	}
	tofuA := req(la, m, 0, 4, 0, "first use A main@4")
	return []faultHistory{
		{Name: "first-use", Ops: []faultOp{up(tofuA), rd(la), up(req(la, m, 4, 6, 4, "growth A 4->6"))}},
		{Name: "growth-refresh-growth", Prefix: []wh.Req{tofuA}, Ops: []faultOp{
			up(req(la, m, 4, 6, 4, "growth A 4->6")), up(req(la, m, 6, 6, 0, "refresh A @6 (stale if growth failed)")), up(req(la, m, 6, 8, 6, "growth A 6->8 (stale if growth failed)"))}},
		{Name: "refresh-first", Prefix: []wh.Req{tofuA}, Ops: []faultOp{
			up(req(la, m, 4, 4, 0, "refresh A @4")), rd(la), up(req(la, m, 4, 5, 4, "growth A 4->5"))}},
		{Name: "refused-kinds", Prefix: []wh.Req{tofuA}, Ops: []faultOp{
			up(req(la, m, 2, 6, 2, "stale A old=2")), up(req(la, f, 4, 6, 4, "fork A F@6 adversarial proof")), up(req(la, f, 4, 4, 0, "root mismatch A F@4")),
			up(req(la, m, 4, 6, 3, "bad proof A")), up(req(la, m, 4, 6, 4, "growth A 4->6"))}},
		{Name: "fork-as-first-use", Prefix: []wh.Req{tofuA}, Ops: []faultOp{
			up(req(la, f, 0, 4, 0, "fork F@4 submitted as first use (old=0)")), up(req(la, f, 0, 6, 0, "fork F@6 submitted as first use (old=0)")), rd(la)}},
		{Name: "growth-then-fork-from-the-same-size", Prefix: []wh.Req{tofuA}, Ops: []faultOp{
			up(req(la, m, 4, 6, 4, "growth A 4->6")), up(req(la, u.Forks[1], 4, 6, 4, "fork F4@6 from 4 (consistent with main@4, not with main@6; stale if the growth was stored)")), rd(la),
			up(req(la, m, 4, 6, 4, "growth A 4->6 again (stale / refused if something else was stored)"))}},
		{Name: "refused-after-the-store-was-opened", Prefix: []wh.Req{tofuA}, Ops: []faultOp{
			func() faultOp {
				r := req(lb, m, 0, 3, 0, "first use B main@3 with 99 unknown signature lines (cannot be cosigned: refused after WriteOps)")
				cp, meta := gen.Get(lb, m, 3, "junk99")
				meta.Broken = true
				r.CP, r.Meta = cp, meta
				return faultOp{Req: r, Label: r.Label, Outside: true}
			}(), rd(lb), up(req(lb, m, 0, 3, 0, "first use B main@3")), up(req(la, m, 4, 5, 4, "growth A 4->5"))}},
		{Name: "two-logs", Prefix: []wh.Req{tofuA}, Ops: []faultOp{
			up(req(lb, m, 0, 3, 0, "first use B main@3")), up(req(la, m, 4, 5, 4, "growth A 4->5")), {Logs: true, Label: "list logs"}, up(req(lb, m, 3, 5, 3, "growth B 3->5"))}},
	}
}

func c07(tier string) int {
	run := ev.NewRun("C07", tier, "fault_enumeration")
	wh.InstallLogicalClock()
	runFaults(run, "C07", tier, false)
	// Context leg: the caller gives up before or at any storage call of an
	// update; whatever the answer, the store must remain usable.
	ctxLeg(run, "C07")
	run.Set("exhaustive", true)
	run.Assumption("injected faults are restricted to effects a real failure can have: a failed Begin/Query/Exec performs nothing; a failed Commit is either rolled back then reported or committed then reported (both enumerated); a failed Rollback/Close still releases the transaction")
	run.Assumption("'the next operation completes' is decided from driver state (no open transaction / cursor / unclosed write handle) rather than a wall-clock deadline, then confirmed by executing the suffix")
	return run.Finish()
}

// runFaults enumerates fault placements over all histories, stores and levels.
func runFaults(run *ev.Run, prop, tier string, c03only bool) {
	u := uni.New(ev.Seed(), 9, []int{0, 4})
	_, view := faultViews[prop]
	gen := wh.NewCPGen(u)
	la := wh.LogCfg{Origin: logA(), Key: u.K1}
	lb := wh.LogCfg{Origin: logB(), Key: u.K2}
	hs := faultHistories(u, gen, la, lb)
	type cfg struct {
		store string
		mode  faultMode
		bound int
	}
	var cfgs []cfg
	b1, b2 := 2, 2
	if tier == "thorough" {
		b1, b2 = 3, 3
	}
	if c03only || view {
		b1, b2 = 1, 1
	}
	after := !c03only
	cfgs = append(cfgs, cfg{"mem", faultMode{"iface", after}, b1}, cfg{"sql", faultMode{"iface", after}, b1}, cfg{"sql", faultMode{"driver", after}, b2})
	total := int64(0)
	for _, cf := range cfgs {
		for _, h := range hs {
			st, err := choice.Explore(cf.bound, func(c *choice.C) {
				faultExec(run, prop, u, gen, []wh.LogCfg{la, lb}, cf.store, cf.mode, h, c)
				if len(c.Trace()) > 0 {
					run.Distinct(fmt.Sprintf("%s|%s|%s|%v", cf.store, cf.mode.Level, h.Name, c.Trace()))
					if run.Get("fault_samples") < 6 && c.Deviations() == cf.bound {
						run.Add("fault_samples", 1)
						run.Sample(map[string]any{"store": cf.store, "level": cf.mode.Level, "history": h.Name, "faults": c.Trace()})
					}
				}
			})
			if err != nil {
				ev.Internal("fault exploration %s/%s/%s: %v", cf.store, cf.mode.Level, h.Name, err)
			}
			total += st.Executions
			run.Set(fmt.Sprintf("executions[%s,%s,%s]", cf.store, cf.mode.Level, h.Name), st.Executions)
			run.Set(fmt.Sprintf("max_fault_positions[%s,%s,%s]", cf.store, cf.mode.Level, h.Name), st.MaxPoints)
		}
		run.Set(fmt.Sprintf("deviation_bound[%s,%s]", cf.store, cf.mode.Level), cf.bound)
	}
	run.Add("evaluations", total)
	run.Add("fault_executions", total)
	if view {
		run.Set("fault_leg", fmt.Sprintf("the C07 fault enumeration (8 histories x {in-memory, SQLite} x {interface-level, SQL-driver-level} faults, every single fault placement, fault-free suffix) with the oracles this property owns: %v", faultViews[prop]))
		return
	}
	if !c03only {
		run.Set("rule", "for each of 8 histories (first use; a first use that is refused only after the store was opened for writing, then ordinary requests; growth/refresh/growth; refresh first; every refused kind then growth; a fork submitted as first use over an existing state; growth then a fork from the same old size; two logs) x {in-memory, SQLite single connection} x {interface-level faults on WriteOps / GetLatest (plain, gRPC Unavailable, gRPC Internal) / Set (before effect, after effect) / Close / ReadOps / Logs; SQL-driver-level faults on begin, prepare, query, next, exec, commit (rolled back / committed), rollback; a fault may be a single failing call or the same kind of call failing for the rest of the operation (sticky: a store that stays locked however often the code retries)}: every placement of up to <deviation_bound> faults (positions discovered dynamically, deviation-bounded DFS), each execution followed by a fault-free suffix (read, refused fork, honest growth). distinct_nontrivial = distinct (store, level, history, fault placement) with at least one fault")
	}
}
