package checks

import (
	"context"
	"encoding/base64"
	"encoding/json"
	"fmt"
	"io"
	"net"
	"net/http"
	"net/url"
	"os"
	"os/exec"
	"path/filepath"
	"strings"
	"sync"
	"sync/atomic"
	"time"

	whttp "github.com/transparency-dev/witness/client/http"
	"github.com/transparency-dev/witness/verifmc/ev"
	"github.com/transparency-dev/witness/verifmc/stublog"
	"github.com/transparency-dev/witness/verifmc/uni"
	"github.com/transparency-dev/witness/verifmc/wh"
)

// The binary tier of C06: the REAL cmd/omniwitness binary (built from the
// current tree next to the harness; the only addition is an init() that reads
// the log list from a file instead of the embedded production list) is run on
// a file-backed store exactly as an operator runs it - its own flag parsing,
// its own way of opening the database, omniwitness.Main, the serverless
// feeder polling a stub log over loopback HTTP. After every acknowledged
// update of a short history (acknowledged = served at the witness's HTTP
// endpoint while the log is silent) the process is SIGKILLed and started again
// on the same --db_file, twice; the restarted binary must serve exactly what
// it had acknowledged, its table must hold it, it must refuse a fork and
// follow the honest log again. The driver-operation and syscall tiers kill
// the store code at every instant inside an update; this tier adds the path
// they cannot see: how the binary itself opens, configures and re-opens the
// database.

const c06BinWait = 150 * time.Second

type c06Log struct {
	l     wh.LogCfg
	srv   atomic.Pointer[stublog.Server]
	quiet atomic.Bool
	dropped atomic.Int64 // requests that arrived while the log was unreachable
	lis   net.Listener
}

func (g *c06Log) ServeHTTP(w http.ResponseWriter, r *http.Request) {
	if g.quiet.Load() {
		defer g.dropped.Add(1)
		// The log is unreachable: drop the connection without an answer.
		if hj, ok := w.(http.Hijacker); ok {
			if c, _, err := hj.Hijack(); err == nil {
				c.Close()
				return
			}
		}
		w.WriteHeader(http.StatusServiceUnavailable)
		return
	}
	r.URL.Scheme, r.URL.Host = "http", r.Host
	resp, err := g.srv.Load().RoundTrip(r)
	if err != nil {
		w.WriteHeader(http.StatusBadGateway)
		return
	}
	defer resp.Body.Close()
	// A real transport asks for gzip itself; the stub then answers compressed
	// and labelled, which that transport undoes transparently.
	for k, v := range resp.Header {
		w.Header()[k] = v
	}
	w.WriteHeader(resp.StatusCode)
	_, _ = io.Copy(w, resp.Body)
}

var c06HTTP = &http.Client{Timeout: 5 * time.Second}

func c06FreePort() int {
	l, err := net.Listen("tcp", "127.0.0.1:0")
	if err != nil {
		ev.Internal("C06 binary tier: no loopback listener: %v", err)
	}
	defer l.Close()
	return l.Addr().(*net.TCPAddr).Port
}

type c06Proc struct {
	cmd  *exec.Cmd
	base string
	cl   whttp.Witness
	errf string
}

func c06BinPath() string {
	self, _ := os.Executable()
	return filepath.Join(filepath.Dir(self), "omniwitness")
}

// c06Start starts the binary on db and waits until its HTTP endpoint answers.
func c06Start(dir, db, yaml, skey string, extra ...string) (*c06Proc, error) {
	port := c06FreePort()
	errf := filepath.Join(dir, fmt.Sprintf("stderr-%d.log", time.Now().UnixNano()))
	ef, _ := os.Create(errf)
	cmd := exec.Command(c06BinPath(), "--listen", fmt.Sprintf("127.0.0.1:%d", port), "--metrics_listen", "", "--db_file", db,
		"--private_key", skey, "--poll_interval", "200ms")
	if len(extra) == 0 {
		extra = []string{"--http_timeout", "5s"}
	}
	cmd.Args = append(cmd.Args, extra...)
	cmd.Env = append(os.Environ(), "VERIF_LOGS_YAML="+yaml)
	cmd.Stdout, cmd.Stderr = ef, ef
	if err := cmd.Start(); err != nil {
		ef.Close()
		return nil, err
	}
	ef.Close()
	p := &c06Proc{cmd: cmd, base: fmt.Sprintf("http://127.0.0.1:%d/", port), errf: errf}
	bu, _ := url.Parse(p.base)
	p.cl = whttp.NewWitness(bu, &http.Client{Timeout: 10 * time.Second})
	exited := make(chan struct{})
	go func() { _ = cmd.Wait(); close(exited) }()
	deadline := time.Now().Add(c06BinWait)
	for time.Now().Before(deadline) {
		select {
		case <-exited:
			b, _ := os.ReadFile(errf)
			return nil, fmt.Errorf("the binary exited during start-up: %s", tail(b))
		default:
		}
		if resp, err := c06HTTP.Get(p.base + "witness/v0/logs"); err == nil {
			resp.Body.Close()
			return p, nil
		}
		time.Sleep(20 * time.Millisecond)
	}
	p.kill()
	return nil, fmt.Errorf("the binary did not answer on its HTTP endpoint within %s", c06BinWait)
}

func (p *c06Proc) kill() {
	_ = p.cmd.Process.Kill() // SIGKILL
	_, _ = p.cmd.Process.Wait()
	// Wait (in c06Start's goroutine) reaps it; make sure the port is gone.
	for i := 0; i < 500; i++ {
		if resp, err := c06HTTP.Get(p.base + "witness/v0/logs"); err != nil {
			return
		} else {
			resp.Body.Close()
		}
		time.Sleep(10 * time.Millisecond)
	}
}

// read returns what the binary serves for id: base64 bytes, "notfound" or "error: ...".
func (p *c06Proc) read(id string) string {
	b, err := p.cl.GetLatestCheckpoint(context.Background(), id)
	switch {
	case err != nil && os.IsNotExist(err):
		return "notfound"
	case err != nil:
		return "error: " + err.Error()
	}
	return base64.StdEncoding.EncodeToString(b)
}

func (p *c06Proc) logs() []string {
	resp, err := c06HTTP.Get(p.base + "witness/v0/logs")
	if err != nil {
		return []string{"error: " + err.Error()}
	}
	defer resp.Body.Close()
	b, _ := io.ReadAll(resp.Body)
	var l []string
	if resp.StatusCode != 200 || json.Unmarshal(b, &l) != nil {
		return []string{fmt.Sprintf("error: HTTP %d %q", resp.StatusCode, short(string(b)))}
	}
	return l
}

// c06Quiesce makes the log unreachable and waits until no update can be under
// way any more: a cycle is fetch checkpoint, ask the witness, fetch the proof,
// update - strictly in that order and one cycle at a time per log - so once a
// request that arrived AFTER the log became unreachable has been dropped, the
// feeder is in a fetch stage that cannot complete, or in a later cycle.
func c06Quiesce(g *c06Log) bool {
	n := g.dropped.Load()
	g.quiet.Store(true)
	deadline := time.Now().Add(c06BinWait)
	for g.dropped.Load() < n+1 {
		if time.Now().After(deadline) {
			return false
		}
		time.Sleep(10 * time.Millisecond)
	}
	return true
}

// c06Await waits until the binary serves a checkpoint with the given text for g.
func c06Await(p *c06Proc, g *c06Log, text string) bool {
	deadline := time.Now().Add(c06BinWait)
	for time.Now().Before(deadline) {
		if s := p.read(g.l.ID()); s != "notfound" && !strings.HasPrefix(s, "error") {
			b, _ := base64.StdEncoding.DecodeString(s)
			if t, _, ok := uni.SplitNote(b); ok && t == text {
				return true
			}
		}
		time.Sleep(20 * time.Millisecond)
	}
	return false
}

func c06BinHistory(u *uni.U, gen *wh.CPGen, la, lb wh.LogCfg) []c06Step {
	m := u.Main
	req := func(l wh.LogCfg, old, n int) wh.Req {
		cp, meta := gen.Get(l, m, n, "plain")
		return wh.Req{LogID: l.ID(), Old: uint64(old), CP: cp, Proof: m.Proof(old, n), Meta: meta,
			Label: fmt.Sprintf("%s old=%d %s@%d", l.Origin, old, m.Name, n)}
	}
	return []c06Step{{req(la, 0, 4), wh.OK}, {req(lb, 0, 3), wh.OK}, {req(la, 4, 6), wh.OK}}
}

// c06BinaryPoint: kill after k acknowledged steps.
func c06BinaryPoint(run *ev.Run, u *uni.U, gen *wh.CPGen, la, lb wh.LogCfg, k int, verbose bool) {
	steps := c06BinHistory(u, gen, la, lb)
	dir, err := os.MkdirTemp(c06Scratch(), "c06bin-")
	if err != nil {
		ev.Internal("C06 binary tier: scratch: %v", err)
	}
	defer os.RemoveAll(dir)
	db := filepath.Join(dir, "witness.db")
	logs := map[string]*c06Log{}
	yaml := "Logs:\n"
	for _, l := range []wh.LogCfg{la, lb} {
		g := &c06Log{l: l}
		g.srv.Store(stublog.New("serverless", u.Main))
		g.quiet.Store(true)
		lis, err := net.Listen("tcp", "127.0.0.1:0")
		if err != nil {
			ev.Internal("C06 binary tier: listener: %v", err)
		}
		g.lis = lis
		hs := &http.Server{Handler: g}
		go func() { _ = hs.Serve(lis) }()
		defer hs.Close()
		logs[l.ID()] = g
		yaml += fmt.Sprintf("  - Origin: %s\n    URL: http://%s/\n    PublicKey: %s\n    Feeder: serverless\n", l.Origin, lis.Addr(), l.Key.VKey)
	}
	yf := filepath.Join(dir, "logs.yaml")
	_ = os.WriteFile(yf, []byte(yaml), 0o644)
	pt := c06Point{"HB", k, "post", "binary"}
	rep := map[string]any{"kind": "crash", "history": "HB", "mode": "binary", "k": k, "phase": "post", "op": "ack"}
	fail := func(sig, d string) {
		run.Report(sig+" mode=binary", fmt.Sprintf("binary tier, kill after %d acknowledged updates: %s", k, d), rep)
	}
	p, err := c06Start(dir, db, yf, u.W1.SKey)
	if err != nil {
		fail("binary-does-not-start", err.Error())
		return
	}
	var out strings.Builder
	for i := 0; i < k; i++ {
		st := steps[i]
		g := logs[st.Req.LogID]
		g.srv.Load().SetHead(int(st.Req.Meta.Size), st.Req.CP)
		g.quiet.Store(false)
		fmt.Fprintf(&out, "BEGIN %d\n", i)
		if !c06Await(p, g, st.Req.Meta.Text) {
			b, _ := os.ReadFile(p.errf)
			p.kill()
			fail("binary-does-not-follow-the-log", fmt.Sprintf("step %d (%s) was not served within %s; last log lines: %s", i, st.Req.Label, c06BinWait, tail(b)))
			return
		}
		if !c06Quiesce(g) {
			p.kill()
			ev.Internal("C06 binary tier: feeder of %s made no further request within %s", g.l.Origin, c06BinWait)
		}
		fmt.Fprintf(&out, "ACK %d %s\n", i, p.read(st.Req.LogID))
	}
	p.kill()
	// Restart #1 (logs unreachable): what is served.
	v := c06Verify{Stored: map[string]string{}, Probes: map[string]string{}, API: map[string]string{}}
	p, err = c06Start(dir, db, yf, u.W1.SKey)
	if err != nil {
		fail("reopen-failed", "the binary does not start again on the same --db_file: "+err.Error())
		return
	}
	for _, l := range []wh.LogCfg{la, lb} {
		v.API[l.ID()] = p.read(l.ID())
	}
	v.APILogs = p.logs()
	p.kill()
	// The table itself (read by the harness while no process has it open).
	env := wh.NewEnv(u, wh.Config{Store: "file:" + db, Logs: []wh.LogCfg{la, lb}})
	snap := env.Snap()
	env.Close()
	v.Logs = snap.Logs
	for id, b := range snap.ByID {
		v.Stored[id] = base64.StdEncoding.EncodeToString([]byte(b))
	}
	// Restart #2: the same answers again, then probes through the feeder.
	p, err = c06Start(dir, db, yf, u.W1.SKey)
	if err != nil {
		fail("reopen-failed", "the binary does not start a second time on the same --db_file: "+err.Error())
		return
	}
	defer p.kill()
	for _, l := range []wh.LogCfg{la, lb} {
		if got := p.read(l.ID()); got != v.API[l.ID()] {
			fail("second-restart-serves-differently", fmt.Sprintf("after a second kill and restart (nothing was submitted in between) %s is served differently", l.Origin))
		}
	}
	for _, l := range []wh.LogCfg{la, lb} {
		id := l.ID()
		g := logs[id]
		st, ok := wh.StateOf(gen, c06Bytes(snap.ByID[id]))
		if !ok || !st.Has || st.Size == 0 || int(st.Size)+1 > u.N {
			continue
		}
		s := int(st.Size)
		before := p.read(id)
		// A fork of the log (another tree altogether) at size s+1: the feeder
		// fetches its proof from the fork's own tiles; three full cycles later
		// the witness must still serve what it served.
		fk := u.Forks[0]
		fs := stublog.New("serverless", fk)
		cpF, _ := gen.Get(l, fk, s+1, "plain")
		fs.SetHead(s+1, cpF)
		g.srv.Store(fs)
		g.quiet.Store(false)
		cycles := 0
		deadline := time.Now().Add(c06BinWait)
		for cycles < 3 && time.Now().Before(deadline) {
			time.Sleep(60 * time.Millisecond)
			cycles = 0
			for _, r := range fs.Requests() {
				if strings.HasSuffix(r, "checkpoint") {
					cycles++
				}
			}
		}
		c06Quiesce(g)
		v.Probes[id+" fork"] = wh.BadProof
		if after := p.read(id); after != before {
			b, _ := base64.StdEncoding.DecodeString(after)
			if t, _, _ := uni.SplitNote(b); strings.Contains(t, base64.StdEncoding.EncodeToString(fk.Root(s+1))) {
				v.Probes[id+" fork"] = wh.OK
			}
		}
		// The honest log grows by one.
		hs := stublog.New("serverless", st.Branch)
		cpG, mG := gen.Get(l, st.Branch, s+1, "plain")
		hs.SetHead(s+1, cpG)
		g.srv.Store(hs)
		g.quiet.Store(false)
		v.Probes[id+" growth"] = wh.OK
		if !c06Await(p, g, mG.Text) {
			v.Probes[id+" growth"] = "not-followed-within-" + c06BinWait.String()
		}
		c06Quiesce(g)
	}
	if verbose {
		b, _ := json.Marshal(v)
		fmt.Printf("acknowledged before the kill:\n%sstate after restart:\n%s\n", out.String(), b)
	}
	// ACK lines carry "notfound"/"error" only if the read failed right after
	// the checkpoint had been served.
	c06Judge(run, u, gen, la, lb, steps, pt, []byte(out.String()), v, "ack")
	run.Add("binary_tier_kill_points", 1)
	run.Add("binary_tier_process_starts", 3)
}

// c06Binary runs every kill point of the binary tier.
func c06Binary(run *ev.Run, u *uni.U, gen *wh.CPGen, la, lb wh.LogCfg) int64 {
	if _, err := os.Stat(c06BinPath()); err != nil {
		ev.Internal("C06 binary tier: %s is missing (scripts/build.sh builds it)", c06BinPath())
	}
	n := len(c06BinHistory(u, gen, la, lb))
	for k := 0; k <= n; k++ {
		c06BinaryPoint(run, u, gen, la, lb, k, false)
	}
	run.Set("binary_tier", fmt.Sprintf("the real cmd/omniwitness binary on --db_file, serverless feeders polling stub logs over loopback HTTP: SIGKILL after each of 0..%d acknowledged updates (two logs), restart twice on the same file", n))
	return int64(n + 1)
}

func c06Bytes(s string) []byte {
	if s == "" {
		return nil
	}
	return []byte(s)
}

// c15Binary (C15 through the real binary, i.e. with the HTTP client
// cmd/omniwitness itself builds and shares between feeders and distributor):
// the binary is run once to witness two logs, killed, and started again with a
// distributor configured whose answer for the FIRST log stalls after the
// response headers (200, Content-Length announced, body never sent). That
// counts as a failure for that log only: the second log's checkpoint - exactly
// the bytes the witness serves for it - must still be pushed.
func c15Binary(run *ev.Run) {
	if _, err := os.Stat(c06BinPath()); err != nil {
		ev.Internal("C15 binary leg: %s is missing (scripts/build.sh builds it)", c06BinPath())
	}
	u, gen, la, lb := c06Universe()
	dir, err := os.MkdirTemp(c06Scratch(), "c15bin-")
	if err != nil {
		ev.Internal("C15 binary leg: scratch: %v", err)
	}
	defer os.RemoveAll(dir)
	db := filepath.Join(dir, "witness.db")
	logs := map[string]*c06Log{}
	yaml := "Logs:\n"
	for _, l := range []wh.LogCfg{la, lb} {
		g := &c06Log{l: l}
		g.srv.Store(stublog.New("serverless", u.Main))
		lis, err := net.Listen("tcp", "127.0.0.1:0")
		if err != nil {
			ev.Internal("C15 binary leg: listener: %v", err)
		}
		hs := &http.Server{Handler: g}
		go func() { _ = hs.Serve(lis) }()
		defer hs.Close()
		logs[l.ID()] = g
		yaml += fmt.Sprintf("  - Origin: %s\n    URL: http://%s/\n    PublicKey: %s\n    Feeder: serverless\n", l.Origin, lis.Addr(), l.Key.VKey)
	}
	yf := filepath.Join(dir, "logs.yaml")
	_ = os.WriteFile(yf, []byte(yaml), 0o644)
	rep := map[string]any{"kind": "distributor-binary"}
	p, err := c06Start(dir, db, yf, u.W1.SKey)
	if err != nil {
		run.Report("binary-does-not-start mode=binary", err.Error(), rep)
		return
	}
	served := map[string]string{}
	for _, l := range []wh.LogCfg{la, lb} {
		cp, meta := gen.Get(l, u.Main, 3, "plain")
		g := logs[l.ID()]
		g.srv.Load().SetHead(3, cp)
		if !c06Await(p, g, meta.Text) {
			p.kill()
			return // the binary does not follow the log: C06/C14's subject
		}
		c06Quiesce(g)
		served[l.ID()] = p.read(l.ID())
	}
	p.kill()
	// The distributor service.
	var mu sync.Mutex
	puts := map[string][]byte{}
	release := make(chan struct{})
	dl, err := net.Listen("tcp", "127.0.0.1:0")
	if err != nil {
		ev.Internal("C15 binary leg: listener: %v", err)
	}
	ds := &http.Server{Handler: http.HandlerFunc(func(w http.ResponseWriter, r *http.Request) {
		body, _ := io.ReadAll(r.Body)
		for _, l := range []wh.LogCfg{la, lb} {
			if strings.Contains(r.URL.Path, "/logs/"+l.ID()+"/") {
				mu.Lock()
				puts[l.ID()] = body
				mu.Unlock()
				if l.ID() == la.ID() {
					w.Header().Set("Content-Length", "2")
					w.WriteHeader(200)
					if f, ok := w.(http.Flusher); ok {
						f.Flush()
					}
					<-release // the body never comes
					return
				}
			}
		}
		_, _ = w.Write([]byte("ok"))
	})}
	go func() { _ = ds.Serve(dl) }()
	defer ds.Close()
	defer close(release)
	p, err = c06Start(dir, db, yf, u.W1.SKey, "--http_timeout", "500ms", "--rest_distro_url", "http://"+dl.Addr().String())
	if err != nil {
		run.Report("binary-does-not-start mode=binary distributor=configured", err.Error(), rep)
		return
	}
	defer p.kill()
	got := func(id string) []byte {
		mu.Lock()
		defer mu.Unlock()
		return puts[id]
	}
	deadline := time.Now().Add(c06BinWait)
	for time.Now().Before(deadline) && (got(la.ID()) == nil || got(lb.ID()) == nil) {
		time.Sleep(50 * time.Millisecond)
	}
	run.Add("binary_distributor_rounds", 1)
	switch {
	case got(la.ID()) == nil:
		// The stalled log was never even attempted: the scenario did not run
		// (a distributor that starts with another log is not wrong).
		if got(lb.ID()) == nil {
			run.Report("binary-distributor-pushes-nothing", fmt.Sprintf("the binary, started on a store holding two cosigned checkpoints with --rest_distro_url set, pushed nothing within %s", c06BinWait), rep)
		}
	case got(lb.ID()) == nil:
		run.Report("one-stalled-answer-stops-the-round mode=binary", fmt.Sprintf("the distributor service answered the first log's PUT with headers (200, Content-Length: 2) and never sent the body; --http_timeout is 500ms; %s later the second log has still not been attempted: a failure for one log ended the round for all", c06BinWait), rep)
	default:
		if want, _ := base64.StdEncoding.DecodeString(served[lb.ID()]); string(got(lb.ID())) != string(want) {
			run.Report("put-body mode=binary", "the bytes pushed for the second log are not the bytes the witness serves for it", rep)
		}
	}
}
