package checks

import (
	"encoding/base64"
	"encoding/binary"
	"fmt"
	"strings"
	"time"

	"github.com/transparency-dev/witness/verifmc/ev"
	"github.com/transparency-dev/witness/verifmc/uni"
	"github.com/transparency-dev/witness/verifmc/wh"
)

// wallClockMonitor brackets nothing itself: the search records logical T0/T1,
// so on the wall clock it re-derives the window from time.Now() around a
// second, direct Update of the same request on a fresh replay of the path.
func wallClockMonitor(run *ev.Run) func(*wh.Step) {
	return func(s *wh.Step) {
		if s.Out.Class != wh.OK {
			return
		}
		e := wh.NewEnv(s.Env.U, s.Env.Cfg)
		defer e.Close()
		for _, r := range s.Path {
			e.Do(r)
		}
		t0 := time.Now().Unix()
		out := e.Do(s.Req)
		t1 := time.Now().Unix()
		if out.Class != wh.OK {
			return
		}
		_, sigs, _ := uni.SplitNote(out.Bytes)
		for _, l := range sigs {
			rest, _ := strings.CutPrefix(l, "— ")
			name, b64, _ := strings.Cut(rest, " ")
			v := e.U.W1.CosigVerif
			if name != v.Name() {
				continue
			}
			raw, err := base64.StdEncoding.DecodeString(b64)
			if err != nil || len(raw) != 76 || binary.BigEndian.Uint32(raw) != v.KeyHash() {
				continue
			}
			ts := int64(binary.BigEndian.Uint64(raw[4:12]))
			run.Add("wall_clock_timestamps_checked", 1)
			if ts < t0 || ts > t1 {
				run.Report("stale-timestamp wall-clock", fmt.Sprintf("accepted %q: cosignature time %d outside the inclusive wall-clock window [%d, %d] of the call", s.Req.Label, ts, t0, t1), s.Replay())
			}
		}
	}
}
