package checks

import (
	"encoding/base64"
	"fmt"
	"strconv"

	"github.com/transparency-dev/witness/verifmc/ev"
	"github.com/transparency-dev/witness/verifmc/uni"
	"github.com/transparency-dev/witness/verifmc/wh"
)

func init() {
	Replayers["witness-path"] = replayWitnessPath
}

func reqFromJSON(m map[string]any) wh.Req {
	r := wh.Req{}
	r.LogID, _ = m["log_id"].(string)
	if s, ok := m["old"].(string); ok {
		r.Old, _ = strconv.ParseUint(s, 10, 64)
	}
	if s, ok := m["cp_b64"].(string); ok {
		r.CP, _ = base64.StdEncoding.DecodeString(s)
	}
	if l, ok := m["proof_b64"].([]any); ok {
		for _, x := range l {
			b, _ := base64.StdEncoding.DecodeString(fmt.Sprint(x))
			r.Proof = append(r.Proof, b)
		}
	}
	r.Label, _ = m["label"].(string)
	return r
}

// replayWitnessPath re-issues a recorded request path and the failing request
// against a fresh real witness, without any explorer, and prints what comes
// back. The checkpoints are in the file as bytes; keys are re-derived from the
// recorded seed.
func replayWitnessPath(m map[string]any) int {
	wh.InstallLogicalClock()
	seed := ev.Seed()
	if s, ok := m["seed"].(float64); ok {
		seed = int64(s)
	}
	u := uni.New(seed, 2, nil)
	store, _ := m["store"].(string)
	if store == "" {
		store = "mem"
	}
	var logs []wh.LogCfg
	if l, ok := m["logs"].([]any); ok {
		for _, x := range l {
			e, _ := x.(map[string]any)
			k := u.K1
			if e["key"] == u.K2.Name {
				k = u.K2
			}
			logs = append(logs, wh.LogCfg{Origin: fmt.Sprint(e["origin"]), Key: k})
		}
	}
	if len(logs) == 0 {
		logs = []wh.LogCfg{{Origin: logA(), Key: u.K1}, {Origin: logB(), Key: u.K2}, {Origin: logC(), Key: u.K1}}
	}
	var signers []string
	if l, ok := m["signers"].([]any); ok {
		for _, x := range l {
			signers = append(signers, fmt.Sprint(x))
		}
	}
	e := wh.NewEnv(u, wh.Config{Store: store, Logs: logs, Signers: signers})
	defer e.Close()
	show := func(i string, r wh.Req) {
		before := e.Snap()
		out := e.Do(r)
		after := e.Snap()
		ret := "nil"
		if out.Bytes != nil {
			ret = fmt.Sprintf("%d bytes", len(out.Bytes))
			if string(out.Bytes) == before.ByID[r.LogID] {
				ret += " (= checkpoint stored before the call)"
			}
		}
		fmt.Printf("%s %s\n    log=%.8s old=%d proof=%d hashes cp=%d bytes\n    -> %s (%v), returned %s, state changed: %v\n", i, r.Label, r.LogID, r.Old, len(r.Proof), len(r.CP), out.Class, out.Err, ret, !after.Equal(before))
	}
	if p, ok := m["path"].([]any); ok {
		for i, x := range p {
			mm, _ := x.(map[string]any)
			show(fmt.Sprintf("path[%d]", i), reqFromJSON(mm))
		}
	}
	if r, ok := m["request"].(map[string]any); ok {
		show("REQUEST", reqFromJSON(r))
	}
	fmt.Printf("recorded: what=%v\nrecorded: expected=%v observed=%v\n", m["what"], m["expected"], m["observed"])
	return 0
}
