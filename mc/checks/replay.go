package checks

import (
	"encoding/base64"
	"fmt"
	"strconv"

	"github.com/transparency-dev/witness/internal/feeder/bastion"
	"github.com/transparency-dev/witness/omniwitness"
	"github.com/transparency-dev/witness/verifmc/choice"
	"golang.org/x/time/rate"

	"github.com/transparency-dev/witness/verifmc/ev"
	"github.com/transparency-dev/witness/verifmc/uni"
	"github.com/transparency-dev/witness/verifmc/wh"
)

func init() {
	Replayers["witness-path"] = replayWitnessPath
	Replayers["parse-body"] = replayParseBody
	Replayers["http-body"] = replayHTTPBody
	Replayers["fault-history"] = replayFaultHistory
	Replayers["feed-cycle"] = replayFeedCycle
	Replayers["distribute"] = replayDistribute
	Replayers["many-logs"] = replayManyLogs
}

func scratchRun(m map[string]any) *ev.Run {
	prop, _ := m["property"].(string)
	r := ev.NewRun(prop, "quick", "other")
	r.Scratch = true
	return r
}

func intsOf(v any) []int {
	var out []int
	if l, ok := v.([]any); ok {
		for _, x := range l {
			if f, ok := x.(float64); ok {
				out = append(out, int(f))
			}
		}
	}
	return out
}

func stringsOf(v any) []string {
	var out []string
	if l, ok := v.([]any); ok {
		for _, x := range l {
			out = append(out, fmt.Sprint(x))
		}
	}
	return out
}

// replayParseBody: the recorded body through parseBody and the reference parser.
func replayParseBody(m map[string]any) int {
	b, _ := base64.StdEncoding.DecodeString(fmt.Sprint(m["body_b64"]))
	run := scratchRun(m)
	fmt.Printf("body: %q\nreference parser: %+v\n", b, refParse(b).Class+" "+refParse(b).Why)
	c11Judge(run, b, "replay")
	return run.Finish()
}

// replayHTTPBody: the recorded body to the real handler in front of the real witness.
func replayHTTPBody(m map[string]any) int {
	wh.InstallLogicalClock()
	b, _ := base64.StdEncoding.DecodeString(fmt.Sprint(m["body_b64"]))
	u := uni.New(ev.Seed(), 8, []int{0})
	gen := wh.NewCPGen(u)
	la := wh.LogCfg{Origin: logA(), Key: u.K1}
	lb := wh.LogCfg{Origin: logB(), Key: u.K2}
	e := wh.NewEnv(u, wh.Config{Store: "mem", Logs: []wh.LogCfg{la, lb}})
	defer e.Close()
	if s, _ := m["seeded"].(bool); s {
		cp, meta := gen.Get(la, u.Main, 4, "plain")
		e.Do(wh.Req{LogID: la.ID(), CP: cp, Meta: meta})
	}
	h := bastion.VerifNewHandler(omniwitness.VerifWitnessAdapter(e.W), c10Logs(la, lb), u.W1.CosigVerif, rate.Inf, 1, true)
	var pan any
	var resp httpResp
	func() {
		defer func() { pan = recover() }()
		resp = c10Serve(h, b)
	}()
	fmt.Printf("body: %q\npanic: %v\nstatus: %d content-type: %q body: %q\n", short(string(b)), pan, resp.Status, resp.CT, resp.Body)
	if pan != nil || !c19Statuses[resp.Status] {
		fmt.Println("REPRODUCED")
		return 1
	}
	return 0
}

func replayFaultHistory(m map[string]any) int {
	wh.InstallLogicalClock()
	run := scratchRun(m)
	u := uni.New(ev.Seed(), 9, []int{0, 4})
	gen := wh.NewCPGen(u)
	la := wh.LogCfg{Origin: logA(), Key: u.K1}
	lb := wh.LogCfg{Origin: logB(), Key: u.K2}
	for _, h := range faultHistories(u, gen, la, lb) {
		if h.Name != m["history"] {
			continue
		}
		after, _ := m["after_effect"].(bool)
		c := choice.Replay(intsOf(m["choices"]), func(c *choice.C) {
			faultExec(run, run.Property, u, gen, []wh.LogCfg{la, lb}, fmt.Sprint(m["store"]), faultMode{Level: fmt.Sprint(m["level"]), AfterEffect: after}, h, c)
		})
		fmt.Printf("history %s on %s store, %s-level faults: %v\n", h.Name, m["store"], m["level"], c.Trace())
	}
	return run.Finish()
}

func replayFeedCycle(m map[string]any) int {
	wh.InstallLogicalClock()
	run := scratchRun(m)
	u := uni.New(ev.Seed(), 8, []int{0})
	gen := wh.NewCPGen(u)
	la := wh.LogCfg{Origin: logA(), Key: u.K1}
	var sc c13Scenario
	var mode string
	fmt.Sscanf(fmt.Sprint(m["scenario"]), "%s witness=%d head=%d %s", &mode, &sc.W, &sc.Head, &sc.Kind)
	sc.Real = mode == "real"
	ch := intsOf(m["choices"])
	c := choice.Replay(ch, func(c *choice.C) { c13Exec(run, u, gen, la, sc, c, 5) })
	fmt.Printf("scenario %s, environment answers %v\n", sc, c.Trace())
	return run.Finish()
}

func replayDistribute(m map[string]any) int {
	run := scratchRun(m)
	u := uni.New(ev.Seed(), 12, nil)
	fmt.Printf("logs %v\nwitness answers %v\ndistributor answers %v\n", m["origins"], m["witness_answers"], m["distributor_answers"])
	warm, _ := m["after_a_valid_round"].(bool)
	sl, _ := m["witness_name_with_slash"].(bool)
	ns, _ := m["log_keys_named_like_the_witness"].(bool)
	bp, _ := m["base_url_with_path"].(bool)
	c15RunOpt(run, u, stringsOf(m["origins"]), stringsOf(m["witness_answers"]), stringsOf(m["distributor_answers"]), warm, sl, ns, bp)
	return run.Finish()
}

func reqFromJSON(m map[string]any) wh.Req {
	r := wh.Req{}
	r.LogID, _ = m["log_id"].(string)
	if s, ok := m["old"].(string); ok {
		r.Old, _ = strconv.ParseUint(s, 10, 64)
	}
	if s, ok := m["cp_b64"].(string); ok {
		r.CP, _ = base64.StdEncoding.DecodeString(s)
	}
	if l, ok := m["proof_b64"].([]any); ok {
		for _, x := range l {
			b, _ := base64.StdEncoding.DecodeString(fmt.Sprint(x))
			r.Proof = append(r.Proof, b)
		}
	}
	r.Label, _ = m["label"].(string)
	return r
}

// replayWitnessPath re-issues a recorded request path and the failing request
// against a fresh real witness, without any explorer, and prints what comes
// back. The checkpoints are in the file as bytes; keys are re-derived from the
// recorded seed.
func replayWitnessPath(m map[string]any) int {
	wh.InstallLogicalClock()
	seed := ev.Seed()
	if s, ok := m["seed"].(float64); ok {
		seed = int64(s)
	}
	u := uni.New(seed, 2, nil)
	store, _ := m["store"].(string)
	if store == "" {
		store = "mem"
	}
	var logs []wh.LogCfg
	if l, ok := m["logs"].([]any); ok {
		for _, x := range l {
			e, _ := x.(map[string]any)
			k := u.K1
			if e["key"] == u.K2.Name {
				k = u.K2
			}
			logs = append(logs, wh.LogCfg{Origin: fmt.Sprint(e["origin"]), Key: k})
		}
	}
	if len(logs) == 0 {
		logs = []wh.LogCfg{{Origin: logA(), Key: u.K1}, {Origin: logB(), Key: u.K2}, {Origin: logC(), Key: u.K1}}
		// C02's named configurations.
		switch m["config"] {
		case "1 log":
			logs = logs[:1]
		case "2 logs distinct keys":
			logs = logs[:2]
		case "3 logs, two sharing one key":
			logs = []wh.LogCfg{logs[0], logs[2], logs[1]}
		case "2 logs, same key name, different keys":
			logs = []wh.LogCfg{logs[0], {Origin: "verif.example/log-e", Key: uni.NewKey(u.K1.Name, seed+7919)}}
		}
	}
	var signers []string
	if l, ok := m["signers"].([]any); ok {
		for _, x := range l {
			signers = append(signers, fmt.Sprint(x))
		}
	}
	e := wh.NewEnv(u, wh.Config{Store: store, Logs: logs, Signers: signers})
	defer e.Close()
	show := func(i string, r wh.Req) {
		before := e.Snap()
		out := e.Do(r)
		after := e.Snap()
		ret := "nil"
		if out.Bytes != nil {
			ret = fmt.Sprintf("%d bytes", len(out.Bytes))
			if string(out.Bytes) == before.ByID[r.LogID] {
				ret += " (= checkpoint stored before the call)"
			}
		}
		fmt.Printf("%s %s\n    log=%.8s old=%d proof=%d hashes cp=%d bytes\n    -> %s (%v), returned %s, state changed: %v\n", i, r.Label, r.LogID, r.Old, len(r.Proof), len(r.CP), out.Class, out.Err, ret, !after.Equal(before))
	}
	if sd, _ := m["seeded"].(bool); sd {
		u8 := uni.New(seed, 8, []int{0})
		g := wh.NewCPGen(u8)
		for _, l := range logs {
			at := 2
			if f, ok := m["seed_size"].(float64); ok && f >= 0 {
				at = int(f)
			}
			cp, meta := g.Get(l, u8.Main, at, "plain")
			show("seed "+l.Origin, wh.Req{LogID: l.ID(), CP: cp, Meta: meta, Label: fmt.Sprintf("main@%d plain", at)})
		}
	}
	if p, ok := m["path"].([]any); ok {
		for i, x := range p {
			mm, _ := x.(map[string]any)
			show(fmt.Sprintf("path[%d]", i), reqFromJSON(mm))
		}
	}
	if r, ok := m["request"].(map[string]any); ok {
		rq := reqFromJSON(r)
		if _, viaHTTP := m["http"]; viaHTTP && len(logs) >= 2 {
			// C10: the recorded request went through the add-checkpoint handler.
			h := bastion.VerifNewHandler(omniwitness.VerifWitnessAdapter(e.W), c10Logs(logs[0], logs[1]), u.W1.CosigVerif, rate.Inf, 1, true)
			mode := "whole"
			if store == "sql" {
				mode = "bytewise"
			}
			resp := c10ServeMode(h, c10Body(rq.Old, rq.Proof, rq.CP), mode)
			fmt.Printf("REQUEST %s via HTTP (%s delivery)\n    -> status %d content-type %q body %q\n", rq.Label, mode, resp.Status, resp.CT, short(resp.Body))
		} else {
			show("REQUEST", rq)
		}
	}
	fmt.Printf("recorded: what=%v\nrecorded: expected=%v observed=%v\n", m["what"], m["expected"], m["observed"])
	return 0
}

// replayManyLogs re-runs the many-logs sweep of C16 on the recorded store.
func replayManyLogs(m map[string]any) int {
	wh.InstallLogicalClock()
	run := scratchRun(m)
	u := uni.New(ev.Seed(), 6, []int{0, 3})
	store, _ := m["store"].(string)
	if store == "" {
		store = "sql"
	}
	c16ManyLogs(run, u, wh.NewCPGen(u), store, c16Setup)
	return run.Finish()
}
