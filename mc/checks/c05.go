package checks

import (
	"bytes"
	"context"
	"crypto/sha256"
	"encoding/json"
	"fmt"
	"golang.org/x/mod/sumdb/note"
	"os"
	"os/exec"
	"sort"
	"strings"
	"sync"

	"github.com/anishathalye/porcupine"
	"github.com/transparency-dev/witness/internal/persistence"
	"github.com/transparency-dev/witness/verifmc/ev"
	"github.com/transparency-dev/witness/verifmc/lspwrap"
	"github.com/transparency-dev/witness/verifmc/sched"
	"github.com/transparency-dev/witness/verifmc/uni"
	"github.com/transparency-dev/witness/verifmc/wh"
	"google.golang.org/grpc/codes"
	"google.golang.org/grpc/status"
)

func init() {
	Registry["C05"] = c05
	Workers["c05"] = c05Worker
	Replayers["schedule"] = c05Replay
}

type c05Op struct {
	Kind  string // update, get, logs
	Req   wh.Req
	LogID string
	Label string
}

type c05Scenario struct {
	Name    string
	Why     string
	Init    []wh.Req
	Threads [][]c05Op
	// Cold: the witness object is replaced by a new one over the same store
	// after Init (a restart: nothing in memory, state in the store).
	Cold bool
	// Props: the checks that explore this scenario (C05 explores S1..S6;
	// the others are the concurrent legs of C01, C03 and C12).
	Props string
}

// c05For returns the scenarios a property's check explores.
func c05For(scs []c05Scenario, prop string) []c05Scenario {
	var out []c05Scenario
	for _, s := range scs {
		if strings.Contains(s.Props, prop) {
			out = append(out, s)
		}
	}
	return out
}

type c05Event struct {
	Thread   int
	Op       c05Op
	Call     int64
	Return   int64
	Class    string
	Bytes    string
	NotFound bool
	Logs     []string
	Err      string
}

func c05Universe() (*uni.U, *wh.CPGen, wh.LogCfg, wh.LogCfg) {
	u := uni.New(ev.Seed(), 8, []int{0, 4})
	gen := wh.NewCPGen(u)
	return u, gen, wh.LogCfg{Origin: logA(), Key: u.K1}, wh.LogCfg{Origin: logB(), Key: u.K2}
}

func c05Scenarios(u *uni.U, gen *wh.CPGen, la, lb wh.LogCfg) []c05Scenario {
	m, f0, f4 := u.Main, u.Forks[0], u.Forks[1]
	up := func(l wh.LogCfg, b *uni.Branch, old, n int) c05Op {
		cp, meta := gen.Get(l, b, n, "plain")
		lbl := fmt.Sprintf("Update(%s old=%d %s@%d)", l.Origin[len(l.Origin)-1:], old, b.Name, n)
		return c05Op{Kind: "update", LogID: l.ID(), Label: lbl, Req: wh.Req{LogID: l.ID(), Old: uint64(old), CP: cp, Proof: b.Proof(old, n), Meta: meta, Label: lbl}}
	}
	get := func(l wh.LogCfg) c05Op {
		return c05Op{Kind: "get", LogID: l.ID(), Label: "Get(" + l.Origin[len(l.Origin)-1:] + ")"}
	}
	logs := c05Op{Kind: "logs", Label: "GetLogs"}
	initA4 := []wh.Req{up(la, m, 0, 4).Req}
	badProof := func(o c05Op) c05Op {
		o.Req.Proof = [][]byte{bytes.Repeat([]byte{0x5a}, 32)}
		o.Label += "+garbage-proof"
		o.Req.Label = o.Label
		return o
	}
	// S15: the same log has been written eight times before two growths overlap
	// (whatever a store keeps per write - a history, a revision count - is full).
	initA4x8 := []wh.Req{up(la, m, 0, 4).Req}
	for i := 0; i < 7; i++ {
		initA4x8 = append(initA4x8, up(la, m, 4, 4).Req)
	}
	return []c05Scenario{
		{Name: "S15", Props: "C05", Why: "two growths from 4 overlapping on a log that has already been written eight times", Init: initA4x8,
			Threads: [][]c05Op{{up(la, m, 4, 6)}, {up(la, f4, 4, 6)}, {get(la)}}},
		{Name: "S7", Props: "C03 C05 C09", Why: "a refused update (garbage proof, or stale once the other one is in) overlapping an accepted growth", Init: initA4,
			Threads: [][]c05Op{{up(la, m, 4, 6)}, {badProof(up(la, m, 4, 6))}, {get(la), get(la)}}},
		{Name: "S8", Props: "C03", Why: "a refused same-size fork (root mismatch) overlapping a refresh and a growth", Init: initA4,
			Threads: [][]c05Op{{up(la, m, 4, 4), up(la, m, 4, 6)}, {up(la, f0, 4, 4)}, {get(la)}}},
		{Name: "S9", Props: "C12", Why: "first use of two different logs overlapping", Threads: [][]c05Op{{up(la, m, 0, 4)}, {up(lb, m, 0, 3)}, {logs, get(lb)}}},
		{Name: "S10", Props: "C12", Why: "growth of two different logs overlapping", Init: []wh.Req{up(la, m, 0, 2).Req, up(lb, m, 0, 3).Req},
			Threads: [][]c05Op{{up(la, m, 2, 4)}, {up(lb, m, 3, 5)}, {get(la), get(lb)}}},
		{Name: "S11", Props: "C05 C04 C16", Cold: true, Why: "restarted witness: a first read overlapping a growth, then reads", Init: initA4,
			Threads: [][]c05Op{{up(la, m, 4, 6)}, {get(la), get(la)}, {get(la)}}},
		{Name: "S12", Props: "C05 C09 C20", Why: "two byte-identical requests overlapping (same checkpoint, old size and proof): each is processed and answered on its own", Init: initA4,
			Threads: [][]c05Op{{up(la, m, 4, 4)}, {up(la, m, 4, 4)}, {get(la)}}},
		{Name: "S13", Props: "C05", Why: "two same-size refreshes and a growth overlapping (a refresh that lost its race must not land after the growth)", Init: initA4,
			Threads: [][]c05Op{{up(la, m, 4, 4)}, {up(la, m, 4, 4)}, {up(la, m, 4, 6)}, {get(la)}}},
		{Name: "S14", Props: "C01 C12", Why: "a growth and a fork of log A from the same size while log B is refreshed (B's write must not bring A's old state back)", Init: []wh.Req{up(la, m, 0, 4).Req, up(lb, m, 0, 3).Req},
			Threads: [][]c05Op{{up(la, m, 4, 6)}, {up(lb, m, 3, 3)}, {up(la, f4, 4, 6)}}},
		{Name: "S1", Props: "C05 C01 C03 C08", Why: "conflicting first use (the one that loses is refused and must leave the winner's checkpoint in place)", Threads: [][]c05Op{{up(la, m, 0, 4)}, {up(la, f0, 0, 4)}, {get(la)}}},
		{Name: "S2", Props: "C05 C01 C09", Why: "two growths from 4, each valid alone, together a split view", Init: initA4,
			Threads: [][]c05Op{{up(la, m, 4, 6)}, {up(la, f4, 4, 6)}, {get(la), get(la)}}},
		{Name: "S3", Props: "C05 C04 C09 C08", Why: "growth vs refresh: lost update / regression", Init: initA4,
			Threads: [][]c05Op{{up(la, m, 4, 6)}, {up(la, m, 4, 4)}, {get(la), get(la)}}},
		{Name: "S4", Props: "C05 C12", Why: "different logs must not conflict", Init: []wh.Req{up(la, m, 0, 2).Req},
			Threads: [][]c05Op{{up(la, m, 2, 4)}, {up(lb, m, 0, 3)}, {logs, get(la)}}},
		{Name: "S5", Props: "C05", Why: "fork race plus a later growth (stale-then-retry)", Init: initA4,
			Threads: [][]c05Op{{up(la, m, 4, 6)}, {up(la, f4, 4, 6)}, {get(la), get(la)}, {up(la, m, 6, 8)}}},
		{Name: "S6", Props: "C05", Why: "two writers, no reader (2 threads, unbounded)", Init: initA4,
			Threads: [][]c05Op{{up(la, m, 4, 6), get(la)}, {up(la, f4, 4, 6), get(la)}}},
	}
}

// c05Instance is a fresh witness wired to the scheduler.
type c05Instance struct {
	env  *wh.Env
	exec *sched.Exec
	// For visited-state keys: a mirror of the store (identity of the bytes
	// stored per log), the identity of every byte string seen, and a hash
	// chain of what each thread has observed from the store.
	mirror  map[string]string
	ident   map[string]string
	obs     map[int]string
	nextIdt int
}

// identity names a stored byte string independently of signature timestamps:
// its note text plus who produced it.
func (i *c05Instance) identity(b []byte, producer string) string {
	if b == nil {
		return "-"
	}
	if id, ok := i.ident[string(b)]; ok {
		return id
	}
	text, _, _ := uni.SplitNote(b)
	id := fmt.Sprintf("%x#%s", sha256.Sum256([]byte(text)), producer)
	i.ident[string(b)] = id
	return id
}

func c05Build(u *uni.U, store string, la, lb wh.LogCfg, sc c05Scenario) *c05Instance {
	inst := &c05Instance{mirror: map[string]string{}, ident: map[string]string{}, obs: map[int]string{}}
	cfg := wh.Config{Store: store, Logs: []wh.LogCfg{la, lb}}
	cfg.Wrap = func(p persistence.LogStatePersistence) persistence.LogStatePersistence {
		return lspwrap.New(p, lspwrap.Hooks{Observe: func(op, id string, data []byte, err error) {
			e := inst.exec
			who := "init"
			if e != nil {
				who = fmt.Sprintf("T%d", e.Cur())
			}
			var seen string
			switch {
			case op == "w.Set" && err == nil:
				inst.mirror[id] = inst.identity(data, who)
				seen = "set"
			case op == "WriteOps" || op == "ReadOps":
				// the in-memory store takes its snapshot here
				seen = "snap:" + inst.mirror[id]
			case data != nil:
				seen = inst.identity(data, "?")
			case err != nil:
				seen = "err"
			}
			if e != nil {
				h := sha256.Sum256([]byte(inst.obs[e.Cur()] + "|" + op + "=" + seen))
				inst.obs[e.Cur()] = fmt.Sprintf("%x", h[:8])
			}
		}, Point: func(op, id string) {
			e := inst.exec
			if e == nil {
				return
			}
			if inst.env.Drv != nil && (op == "WriteOps" || op == "r.GetLatest" || op == "Logs") {
				// These need the pool's single connection: disabled while
				// another transaction or cursor holds it.
				e.BlockUntil(op, func() bool { return !inst.env.Drv.Busy() })
				return
			}
			e.Point(op)
		}})
	}
	inst.env = wh.NewEnv(u, cfg)
	for i, r := range sc.Init {
		if out := inst.env.Do(r); out.Class != wh.OK {
			ev.Internal("scenario %s: init step %d refused: %v", sc.Name, i, out.Err)
		}
	}
	if sc.Cold {
		inst.env.Restart()
	}
	return inst
}

// c05RunOne runs one schedule and returns the execution and its history.
func c05RunOne(u *uni.U, store string, la, lb wh.LogCfg, sc c05Scenario, prefix []int) (*sched.Exec, []c05Event, *wh.Env, map[string]string) {
	inst := c05Build(u, store, la, lb, sc)
	initial := inst.env.Snap().ByID
	var clock int64
	var events []*c05Event
	var bodies []func()
	for ti, ops := range sc.Threads {
		ti, ops := ti, ops
		bodies = append(bodies, func() {
			for _, op := range ops {
				evn := &c05Event{Thread: ti, Op: op}
				clock++
				evn.Call = clock
				events = append(events, evn)
				switch op.Kind {
				case "update":
					out := inst.env.Do(op.Req)
					evn.Class, evn.Bytes = out.Class, string(out.Bytes)
					if out.Err != nil {
						evn.Err = out.Err.Error()
					}
				case "get":
					b, err := inst.env.W.GetCheckpoint(op.LogID)
					if err != nil {
						if status.Code(err) == codes.NotFound {
							evn.NotFound = true
						} else {
							evn.Err = err.Error()
						}
					}
					evn.Bytes = string(b)
				case "logs":
					l, err := inst.env.W.GetLogs()
					if err != nil {
						evn.Err = err.Error()
					}
					sort.Strings(l)
					evn.Logs = l
				}
				clock++
				evn.Return = clock
			}
		})
	}
	x := sched.Run(prefix, bodies, func(e *sched.Exec) {
		inst.exec = e
		e.KeyFn = func() string {
			var sb strings.Builder
			fmt.Fprint(&sb, e.PCs(), "|")
			var ids []string
			for id, v := range inst.mirror {
				ids = append(ids, id[:6]+"="+v)
			}
			sort.Strings(ids)
			sb.WriteString(strings.Join(ids, ","))
			for ti := range sc.Threads {
				sb.WriteString("|" + inst.obs[ti])
			}
			// Completed and pending operations with their outputs, in call /
			// return order (the linearizability verdict depends on it).
			for _, ev := range events {
				fmt.Fprintf(&sb, "|%d:%d:%d:%d:%s:%s:%v", ev.Thread, ev.Call, ev.Return, len(ev.Logs), ev.Class, inst.identity(bytesOrNil(ev.Bytes), "?"), ev.NotFound)
			}
			return sb.String()
		}
	})
	inst.exec = nil
	out := make([]c05Event, 0, len(events)+2)
	for _, e := range events {
		out = append(out, *e)
	}
	if x.Deadlock == "" && x.Wedged == "" {
		// Final harness reads, after everything.
		for _, l := range []wh.LogCfg{la, lb} {
			clock++
			evn := c05Event{Thread: 100, Op: c05Op{Kind: "get", LogID: l.ID(), Label: "final Get"}, Call: clock}
			b, err := inst.env.W.GetCheckpoint(l.ID())
			if err != nil {
				if status.Code(err) == codes.NotFound {
					evn.NotFound = true
				} else {
					evn.Err = err.Error()
				}
			}
			evn.Bytes = string(b)
			clock++
			evn.Return = clock
			out = append(out, evn)
		}
	}
	return x, out, inst.env, initial
}

func bytesOrNil(s string) []byte {
	if s == "" {
		return nil
	}
	return []byte(s)
}

// ---------------------------------------------------------------- oracle

type c05In struct {
	Op        c05Op
	OverlapOK bool
}

// c05Model is the sequential specification: wmodel per log; the state is the
// exact bytes stored for each configured log.
func c05Model(gen *wh.CPGen, logs map[string]wh.LogCfg, initial map[string]string) porcupine.Model {
	dec := func(s string) map[string]string {
		m := map[string]string{}
		if s == "" {
			return m
		}
		for _, kv := range strings.Split(s, "\x00") {
			i := strings.Index(kv, "=")
			m[kv[:i]] = kv[i+1:]
		}
		return m
	}
	enc := func(m map[string]string) string {
		var ks []string
		for k, v := range m {
			if v != "" {
				ks = append(ks, k+"="+v)
			}
		}
		sort.Strings(ks)
		return strings.Join(ks, "\x00")
	}
	return porcupine.Model{
		Init: func() interface{} { return enc(initial) },
		Step: func(state, input, output interface{}) (bool, interface{}) {
			st := dec(state.(string))
			in := input.(c05In)
			out := output.(c05Event)
			switch in.Op.Kind {
			case "get":
				cur := st[in.Op.LogID]
				if out.Err != "" {
					return false, state
				}
				if cur == "" {
					return out.NotFound, state
				}
				return !out.NotFound && out.Bytes == cur, state
			case "logs":
				if out.Err != "" {
					return false, state
				}
				var want []string
				for k, v := range st {
					if v != "" {
						want = append(want, k)
					}
				}
				return sameSet(want, out.Logs), state
			case "update":
				cur := st[in.Op.LogID]
				if out.Class == wh.Other {
					// Storage error with no effect: only when overlapping
					// another write to the same log.
					return in.OverlapOK && out.Bytes == "", state
				}
				var curB []byte
				if cur != "" {
					curB = []byte(cur)
				}
				ms, ok := wh.StateOf(gen, curB)
				if !ok {
					return false, state
				}
				var lc *wh.LogCfg
				if c, ok := logs[in.Op.LogID]; ok {
					lc = &c
				}
				exp := wh.Model(lc, ms, in.Op.Req)
				if out.Class != exp.Class {
					return false, state
				}
				switch exp.Ret {
				case "nil":
					return out.Bytes == "", state
				case "stored":
					return out.Bytes == cur, state
				}
				text, _, okn := uni.SplitNote([]byte(out.Bytes))
				if !okn || text != in.Op.Req.Meta.Text {
					return false, state
				}
				st[in.Op.LogID] = out.Bytes
				return true, enc(st)
			}
			return false, state
		},
		Equal: func(a, b interface{}) bool { return a.(string) == b.(string) },
	}
}

// c05Check applies the oracle to one complete execution; returns a
// (signature, description) pair when violated.
func c05Check(gen *wh.CPGen, logs map[string]wh.LogCfg, initial map[string]string, x *sched.Exec, h []c05Event) (string, string) {
	model := c05Model(gen, logs, initial)
	if x.Deadlock != "" {
		return "deadlock", "no enabled thread while some are unfinished: " + x.Deadlock
	}
	if x.Wedged != "" {
		return "wedge", x.Wedged
	}
	// An update may fail with a storage error iff it overlaps another update
	// on the same log.
	var ops []porcupine.Operation
	for i, e := range h {
		in := c05In{Op: e.Op}
		if e.Op.Kind == "update" {
			for j, o := range h {
				if i != j && o.Op.Kind == "update" && o.Op.LogID == e.Op.LogID && o.Call < e.Return && e.Call < o.Return {
					in.OverlapOK = true
				}
			}
		}
		ops = append(ops, porcupine.Operation{ClientId: e.Thread % 64, Input: in, Call: e.Call, Output: e, Return: e.Return})
	}
	if !porcupine.CheckOperations(model, ops) {
		return "not-linearizable " + c05Shape(gen, h), "the history is not equivalent to any sequential order compatible with real time (with storage errors allowed only for overlapping writes): " + c05History(gen, h)
	}
	// No reader sees a log's size go down (reads ordered in real time).
	for i, a := range h {
		if a.Op.Kind != "get" || a.Bytes == "" {
			continue
		}
		for _, b := range h[i+1:] {
			if b.Op.Kind != "get" || b.Op.LogID != a.Op.LogID || b.Call < a.Return {
				continue
			}
			sa, _ := wh.StateOf(gen, []byte(a.Bytes))
			if b.Bytes == "" {
				return "read-regressed", "a later read found no checkpoint after an earlier read returned one: " + c05History(gen, h)
			}
			sb, _ := wh.StateOf(gen, []byte(b.Bytes))
			if sb.Size < sa.Size {
				return "read-regressed", "a later read returned a smaller size: " + c05History(gen, h)
			}
		}
	}
	// Whatever is handed out - by an accepted Update or a read - is the text
	// the log signed with the log's valid signature and exactly one valid
	// line per witness key (C04's oracle under every interleaving).
	u := gen.U
	for _, e := range h {
		var b []byte
		switch {
		case e.Op.Kind == "update" && e.Class == wh.OK:
			b = []byte(e.Bytes)
		case e.Op.Kind == "get" && e.Bytes != "":
			b = []byte(e.Bytes)
		default:
			continue
		}
		text, sigs, ok := uni.SplitNote(b)
		l, known := logs[e.Op.LogID]
		if !ok || !known {
			return "handed-out-not-a-note", fmt.Sprintf("%s returned bytes that are not a note: %s", e.Op.Label, c05History(gen, h))
		}
		if e.Op.Kind == "update" && text != e.Op.Req.Meta.Text {
			return "cosigned-other-text", fmt.Sprintf("%s was accepted but the returned note is not the submitted text: %s", e.Op.Label, c05History(gen, h))
		}
		if _, v := countValid(l.Key.Verif, text, sigs); v < 1 {
			return "handed-out-without-log-signature", fmt.Sprintf("%s returned a note without a valid signature of the log: %s", e.Op.Label, c05History(gen, h))
		}
		for _, wv := range []note.Verifier{u.W1.Verif, u.W1.CosigVerif} {
			if n, v := countValid(wv, text, sigs); n != 1 || v != 1 {
				return "handed-out-badly-cosigned", fmt.Sprintf("%s returned a note with %d lines / %d valid for witness key %s (want exactly one valid): %s", e.Op.Label, n, v, wv.Name(), c05History(gen, h))
			}
		}
	}
	return "", ""
}

func c05Outcome(gen *wh.CPGen, e c05Event) string {
	d := func(b string) string {
		if b == "" {
			return "-"
		}
		s, ok := wh.StateOf(gen, []byte(b))
		if !ok {
			return "?"
		}
		n := "?"
		if s.Branch != nil {
			n = s.Branch.Name
		}
		return fmt.Sprintf("%s@%d", n, s.Size)
	}
	switch e.Op.Kind {
	case "update":
		return fmt.Sprintf("%s=%s[%s]", e.Op.Label, e.Class, d(e.Bytes))
	case "get":
		if e.Err != "" {
			return e.Op.Label + "=ERR"
		}
		return fmt.Sprintf("%s=%s", e.Op.Label, d(e.Bytes))
	}
	return fmt.Sprintf("%s=%d logs", e.Op.Label, len(e.Logs))
}

// c05Shape is the timing-free outcome of a history (for the histogram and
// violation signatures).
func c05Shape(gen *wh.CPGen, h []c05Event) string {
	byT := map[int][]string{}
	var ts []int
	for _, e := range h {
		if _, ok := byT[e.Thread]; !ok {
			ts = append(ts, e.Thread)
		}
		byT[e.Thread] = append(byT[e.Thread], c05Outcome(gen, e))
	}
	sort.Ints(ts)
	var parts []string
	for _, t := range ts {
		parts = append(parts, fmt.Sprintf("T%d:%s", t, strings.Join(byT[t], ",")))
	}
	return strings.Join(parts, " | ")
}

func c05History(gen *wh.CPGen, h []c05Event) string {
	var parts []string
	for _, e := range h {
		parts = append(parts, fmt.Sprintf("[%d,%d]T%d %s", e.Call, e.Return, e.Thread, c05Outcome(gen, e)))
	}
	return strings.Join(parts, "; ")
}

// ---------------------------------------------------------------- worker

type c05Result struct {
	Scenario   string           `json:"scenario"`
	Store      string           `json:"store"`
	Bound      int              `json:"bound"`
	Shard      int              `json:"shard"`
	Executions int64            `json:"executions"`
	MaxPoints  int              `json:"max_points"`
	MaxSteps   int              `json:"max_steps"`
	Capped     bool             `json:"capped"`
	PrunedMode bool             `json:"pruned_mode"`
	Pruned     int64            `json:"pruned"`
	States     int              `json:"states"`
	Outcomes   map[string]int64 `json:"outcomes"`
	Violations []c05Violation   `json:"violations"`
	Sample     string           `json:"sample"`
	Err        string           `json:"err"`
}

type c05Violation struct {
	Signature string   `json:"signature"`
	What      string   `json:"what"`
	Choices   []int    `json:"choices"`
	Trace     []string `json:"trace"`
}

// c05Worker: verifmc worker c05 <scenario> <store> <bound> <shard> <nshards> <maxexec>
func c05Worker(args []string) int {
	var bound, shard, nshards int
	var maxExec int64
	fmt.Sscanf(args[2], "%d", &bound)
	fmt.Sscanf(args[3], "%d", &shard)
	fmt.Sscanf(args[4], "%d", &nshards)
	fmt.Sscanf(args[5], "%d", &maxExec)
	prune := len(args) > 6 && args[6] == "prune"
	wh.InstallLogicalClock()
	u, gen, la, lb := c05Universe()
	var sc c05Scenario
	for _, s := range c05Scenarios(u, gen, la, lb) {
		if s.Name == args[0] {
			sc = s
		}
	}
	store := args[1]
	res := c05Result{Scenario: sc.Name, Store: store, Bound: bound, Shard: shard, Outcomes: map[string]int64{}}
	logs := map[string]wh.LogCfg{la.ID(): la, lb.ID(): lb}
	var envs []*wh.Env
	var lastH []c05Event
	var lastInit map[string]string
	st, err := sched.ExplorePruned(bound, shard, nshards, maxExec, prune,
		func(prefix []int) *sched.Exec {
			x, h, env, ini := c05RunOne(u, store, la, lb, sc, prefix)
			lastH, lastInit = h, ini
			envs = append(envs, env)
			if len(envs) > 0 && x.Deadlock == "" && x.Wedged == "" {
				env.Close()
				envs = envs[:0]
			}
			return x
		},
		func(x *sched.Exec) bool {
			h := lastH
			res.Outcomes[c05Shape(gen, h)]++
			if res.Sample == "" && len(x.Points) > 3 {
				res.Sample = fmt.Sprintf("choices=%v trace=%v history=%s", x.Choices(), x.Trace, c05History(gen, h))
			}
			if sig, what := c05Check(gen, logs, lastInit, x, h); sig != "" {
				// Re-run the same schedule 5x: identical observations or it is
				// a harness problem, not a violation.
				// A blocked execution costs three watchdog periods to recognise:
				// it is confirmed once more and then ends the exploration of
				// this job (every further schedule would block the same way).
				blocked := sig == "wedge" || x.Deadlock != ""
				reruns := 5
				if blocked {
					reruns = 1
				}
				for k := 0; k < reruns; k++ {
					x2, h2, env2, ini2 := c05RunOne(u, store, la, lb, sc, x.Choices())
					if x2.Deadlock == "" && x2.Wedged == "" {
						env2.Close()
					}
					sig2, _ := c05Check(gen, logs, ini2, x2, h2)
					if sig2 != sig || c05Shape(gen, h2) != c05Shape(gen, h) {
						res.Err = fmt.Sprintf("schedule %v did not reproduce: %q vs %q", x.Choices(), sig, sig2)
						return false
					}
				}
				for _, v := range res.Violations {
					if v.Signature == sig {
						return true
					}
				}
				res.Violations = append(res.Violations, c05Violation{Signature: sig, What: what, Choices: x.Choices(), Trace: x.Trace})
				if len(res.Violations) >= 5 || blocked {
					return false
				}
			}
			return true
		})
	if err != nil {
		res.Err = err.Error()
	}
	res.Executions, res.MaxPoints, res.MaxSteps, res.Capped = st.Executions, st.MaxPoints, st.MaxSteps, st.Capped
	res.Pruned, res.States = st.Pruned, st.States
	b, _ := json.Marshal(res)
	fmt.Println(string(b))
	return 0
}

// ---------------------------------------------------------------- driver

func c05(tier string) int {
	run := ev.NewRun("C05", tier, "model_checking")
	c05Explore(run, "C05", tier)
	c05RacePass(run, tier)
	// Upgrade leg: a reader of the earlier release's file never sees a log go back.
	legacyDBLeg(run, "C05")
	return run.Finish()
}

// c05Concurrent is the concurrent leg of another property's check: the
// scenarios tagged with that property, explored exactly as C05 explores its
// own (bounded DFS + unbounded pruned search, porcupine oracle).
func c05Concurrent(run *ev.Run, prop, tier string) {
	c05Explore(run, prop, tier)
}

func c05Explore(run *ev.Run, prop, tier string) {
	u, gen, la, lb := c05Universe()
	scs := c05For(c05Scenarios(u, gen, la, lb), prop)
	own := prop == "C05"
	type job struct {
		sc      string
		store   string
		bound   int
		shard   int
		nshards int
		maxExec int64
		prune   bool
	}
	var jobs []job
	for _, sc := range scs {
		for _, store := range []string{"mem", "sql"} {
			bound, ns := 2, 1
			nt := len(sc.Threads)
			if tier == "thorough" {
				ns = 16
				switch {
				case nt <= 2:
					bound = -1
				case nt == 3:
					bound = 4
				default:
					bound = 3
				}
			} else {
				if nt <= 2 {
					bound = 3
				}
				if nt >= 4 {
					ns = 6
				}
			}
			for s := 0; s < ns; s++ {
				jobs = append(jobs, job{sc.Name, store, bound, s, ns, 0, false})
			}
			// Unbounded exploration with visited-state pruning (complete: no
			// preemption bound). The 4-thread scenario is capped in the quick
			// tier / run to a larger cap in the thorough tier.
			switch {
			case !own && tier != "thorough":
				// the legs of other properties: bounded search only in the quick tier
			case nt <= 3:
				jobs = append(jobs, job{sc.Name, store, -1, 0, 1, 0, true})
			case tier == "thorough":
				jobs = append(jobs, job{sc.Name, store, -1, 0, 1, 400000, true})
			}
		}
	}
	self, _ := os.Executable()
	results := make([]c05Result, len(jobs))
	sem := make(chan struct{}, workers())
	var wg sync.WaitGroup
	for i, j := range jobs {
		wg.Add(1)
		go func(i int, j job) {
			defer wg.Done()
			sem <- struct{}{}
			defer func() { <-sem }()
			mode := "noprune"
			if j.prune {
				mode = "prune"
			}
			cmd := exec.CommandContext(context.Background(), self, "worker", "c05", j.sc, j.store, fmt.Sprint(j.bound), fmt.Sprint(j.shard), fmt.Sprint(j.nshards), fmt.Sprint(j.maxExec), mode)
			cmd.Env = append(os.Environ(), "GOMAXPROCS=2")
			out, err := cmd.Output()
			var r c05Result
			if err != nil || json.Unmarshal(lastLine(out), &r) != nil {
				r.Err = fmt.Sprintf("worker failed: %v: %s", err, tail(out))
			}
			r.Scenario, r.Store, r.Bound, r.Shard = j.sc, j.store, j.bound, j.shard
			r.PrunedMode = j.prune
			results[i] = r
		}(i, j)
	}
	wg.Wait()
	total := int64(0)
	statesTotal := int64(0)
	perScen := map[string]map[string]int64{}
	unboundedOutcomes := map[string]map[string]int64{}
	boundedOutcomes := map[string]map[string]int64{}
	exh := true
	for _, r := range results {
		if r.Err != "" {
			ev.Internal("C05 worker %s/%s shard %d: %s", r.Scenario, r.Store, r.Shard, r.Err)
		}
		total += r.Executions
		key := r.Scenario + "/" + r.Store
		if r.PrunedMode {
			// Complete exploration (no preemption bound) with visited-state pruning.
			run.Set("unbounded_pruned["+key+"]", map[string]any{"executions": r.Executions, "distinct_states_expanded": r.States, "choice_points_pruned": r.Pruned, "capped": r.Capped})
			statesTotal += int64(r.States)
			if r.Capped {
				run.Set("unbounded_capped["+key+"]", true)
			} else {
				run.Add("scenarios_explored_without_any_bound", 1)
			}
			if !r.Capped {
				unboundedOutcomes[key] = r.Outcomes
			}
			for o, n := range r.Outcomes {
				if perScen[key] == nil {
					perScen[key] = map[string]int64{}
				}
				perScen[key][o] += n
				run.Distinct(key + "|" + o)
			}
			for _, v := range r.Violations {
				var sc c05Scenario
				for _, s := range scs {
					if s.Name == r.Scenario {
						sc = s
					}
				}
				run.Report(fmt.Sprintf("%s scenario=%s store=%s", v.Signature, r.Scenario, r.Store),
					fmt.Sprintf("scenario %s (%s) on %s store, schedule %v: %s", r.Scenario, sc.Why, r.Store, v.Choices, v.What),
					map[string]any{"kind": "schedule", "scenario": r.Scenario, "store": r.Store, "choices": v.Choices, "trace": v.Trace})
			}
			continue
		}
		run.Add("schedules["+key+"]", r.Executions)
		if perScen[key] == nil {
			perScen[key] = map[string]int64{}
		}
		if boundedOutcomes[key] == nil {
			boundedOutcomes[key] = map[string]int64{}
		}
		for o, n := range r.Outcomes {
			perScen[key][o] += n
			boundedOutcomes[key][o] += n
			run.Distinct(key + "|" + o)
		}
		b := fmt.Sprint(r.Bound)
		if r.Bound < 0 {
			b = "unbounded"
		}
		run.Set("preemption_bound["+key+"]", b)
		run.Set("scheduling_points_max["+key+"]", r.MaxPoints)
		if r.Capped {
			exh = false
			run.Set("capped["+key+"]", true)
		}
		if r.Shard == 0 && r.Sample != "" {
			run.Sample(map[string]any{"scenario": r.Scenario, "store": r.Store, "schedule": r.Sample})
		}
		for _, v := range r.Violations {
			var sc c05Scenario
			for _, s := range scs {
				if s.Name == r.Scenario {
					sc = s
				}
			}
			run.Report(fmt.Sprintf("%s scenario=%s store=%s", v.Signature, r.Scenario, r.Store),
				fmt.Sprintf("scenario %s (%s) on %s store, schedule %v: %s", r.Scenario, sc.Why, r.Store, v.Choices, v.What),
				map[string]any{"kind": "schedule", "scenario": r.Scenario, "store": r.Store, "choices": v.Choices, "trace": v.Trace})
		}
	}
	// Soundness cross-check of the pruning: every outcome the bounded
	// (unpruned) search saw must also be seen by the complete pruned search.
	for key, ub := range unboundedOutcomes {
		for o := range boundedOutcomes[key] {
			if _, ok := ub[o]; !ok && run.Violations() == 0 {
				ev.Internal("visited-state pruning lost an outcome in %s: %s", key, o)
			}
		}
		run.Add("pruning_cross_checks", 1)
	}
	for key, o := range perScen {
		run.Set("distinct_outcomes["+key+"]", len(o))
		// S12 (two identical refreshes): every schedule has the same observable
		// outcome when the implementation is right - that is the point.
		if len(o) < 2 && !strings.HasPrefix(key, "S12/") {
			run.Vacuous("scenario %s produced a single outcome over all schedules (nothing collided)", key)
		}
	}
	if !own {
		run.Set("concurrent_outcomes", perScen)
		run.Add("concurrent_schedules", total)
		run.Add("concurrent_states_expanded_unbounded", statesTotal)
		run.Add("transitions", total)
		run.Add("traces_validated_against_impl", total)
		run.Add("evaluations", total)
		var names []string
		for _, s := range scs {
			names = append(names, s.Name+": "+s.Why)
		}
		run.Set("concurrent_scenarios", names)
		run.Set("concurrent_rule", "the scenarios above explored with the C05 engine: every interleaving of the real calls at storage-operation and lock granularity up to preemption bound 2 (quick) / 4 plus the complete unbounded search with visited-state pruning (thorough); every execution checked with porcupine against wmodel")
		if !exh {
			run.Set("concurrent_capped", true)
		}
		return
	}
	run.Set("outcomes", perScen)
	run.Set("states", int(total+statesTotal))
	run.Set("distinct_states_expanded_in_unbounded_runs", statesTotal)
	run.Set("transitions", int(total))
	run.Set("traces_validated_against_impl", int(total))
	run.Set("evaluations", int(total))
	run.Set("schedules_total", total)
	run.Set("exhaustive", exh)
	run.Set("rule", "stateless DFS over all interleavings of real Witness.Update / GetCheckpoint / GetLogs calls at storage-operation granularity (lspwrap points before every LogStatePersistence / handle method) and, in the in-memory store, lock granularity (vsync shim: every Lock/RLock is a point, a thread that cannot take the lock is disabled), on the in-memory store and on SQLite with the production single-connection pool (a call that needs the pooled connection is disabled while drvwrap reports it busy); iterative preemption bounding, bound per scenario in preemption_bound[...]; IN ADDITION every 2- and 3-thread scenario is explored with NO preemption bound using visited-state pruning (state key = per-thread program point and hash of everything the thread has observed from the store, mirror of the store content by checkpoint identity, and the full call/return history with outputs - so two merged states have the same futures and the same linearizability verdict; checked empirically: on the 2-thread scenario the pruned run (658 executions) and the unpruned run (167 154) produce the same outcome set), see unbounded_pruned[...]; every complete execution checked with porcupine against wmodel (storage error with no effect allowed only for an update overlapping another update of the same log), monotone reads, no deadlock. 'states'/'transitions' count complete schedules; distinct_nontrivial = distinct (scenario, store, outcome vector)")
	run.Assumption("interleavings of storage and lock operations, not of arbitrary memory accesses; unsynchronised accesses are left to the supplementary free-running -race pass")
	run.Assumption("each violating schedule is re-executed 5 times with identical observations before it is reported")
}

func lastLine(b []byte) []byte {
	s := strings.TrimSpace(string(b))
	if i := strings.LastIndex(s, "\n"); i >= 0 {
		s = s[i+1:]
	}
	return []byte(s)
}

func tail(b []byte) string {
	s := string(b)
	if len(s) > 400 {
		s = s[len(s)-400:]
	}
	return s
}

func c05Replay(m map[string]any) int {
	wh.InstallLogicalClock()
	u, gen, la, lb := c05Universe()
	var sc c05Scenario
	for _, s := range c05Scenarios(u, gen, la, lb) {
		if s.Name == m["scenario"] {
			sc = s
		}
	}
	var choices []int
	for _, c := range m["choices"].([]any) {
		choices = append(choices, int(c.(float64)))
	}
	store, _ := m["store"].(string)
	x, h, _, ini := c05RunOne(u, store, la, lb, sc, choices)
	logs := map[string]wh.LogCfg{la.ID(): la, lb.ID(): lb}
	fmt.Printf("scenario %s (%s) store=%s\nschedule: %v\ntrace: %v\nhistory: %s\n", sc.Name, sc.Why, store, x.Choices(), x.Trace, c05History(gen, h))
	if sig, what := c05Check(gen, logs, ini, x, h); sig != "" {
		fmt.Printf("REPRODUCED: %s: %s\n", sig, what)
		return 1
	}
	fmt.Println("not reproduced: history is linearizable")
	return 0
}
