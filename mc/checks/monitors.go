package checks

import (
	"context"
	"encoding/base64"
	"encoding/binary"
	"fmt"
	"net/http"
	"net/http/httptest"
	"strings"

	f_note "github.com/transparency-dev/formats/note"
	whttp "github.com/transparency-dev/witness/client/http"
	"github.com/transparency-dev/witness/verifmc/ev"
	"github.com/transparency-dev/witness/verifmc/uni"
	"github.com/transparency-dev/witness/verifmc/wh"
	"golang.org/x/mod/sumdb/note"
)

// ---------------------------------------------------------------- C01

// c01Monitor: append-only history per log, ground truth = leaf lists.
func c01Monitor(run *ev.Run) func(*wh.Step) {
	return func(s *wh.Step) {
		id := s.Log.ID()
		changed := s.Before.ByID[id] != s.After.ByID[id]
		run.Hist("verdicts", s.Out.Class)
		if !changed && s.Out.Class != wh.OK {
			return
		}
		kind := "accepted"
		sig := func(k string) string {
			return fmt.Sprintf("%s stored=%s submitted-shape=%s", k, stKind(s.StBefore), s.Req.Meta.Shape)
		}
		// Anything accepted must be a checkpoint the log signed.
		if s.Req.Meta.Broken || s.Cfg == nil || s.Req.Meta.KeyName != wh.KeyID(s.Cfg.Key.Verif) {
			run.Report(sig("forged-accepted"), fmt.Sprintf("request %q (not signed by the log's key) was accepted or changed the state in state %s", s.Req.Label, s.StBefore.Key()), s.Replay())
			return
		}
		if s.Foreign {
			run.Report(sig("foreign-state"), fmt.Sprintf("after %q the store holds bytes whose text no log ever signed", s.Req.Label), s.Replay())
			return
		}
		if s.Out.Class == wh.OK {
			// What was cosigned is the returned note: its text must be the
			// submitted text and the state must be that checkpoint.
			text, _, ok := uni.SplitNote(s.Out.Bytes)
			if !ok || text != s.Req.Meta.Text {
				run.Report(sig("cosigned-other-text"), fmt.Sprintf("request %q accepted but the returned note's text is not the submitted text", s.Req.Label), s.Replay())
				return
			}
			if s.StAfter.Key() != (wh.MState{Has: true, Size: s.Req.Meta.Size, Root: s.Req.Meta.Root}).Key() {
				run.Report(sig("accepted-not-stored"), fmt.Sprintf("request %q accepted but the store holds %s", s.Req.Label, s.StAfter.Key()), s.Replay())
				return
			}
		}
		if !s.StBefore.Has {
			run.Hist("accepted_kinds", "first-use")
			run.Distinct("first:" + s.StAfter.Key())
			return
		}
		a, b := s.StBefore, s.StAfter
		switch {
		case !b.Has:
			run.Report(sig("state-erased"), fmt.Sprintf("request %q erased the stored checkpoint", s.Req.Label), s.Replay())
		case b.Size < a.Size:
			run.Report(sig("size-decreased"), fmt.Sprintf("request %q moved the witness from size %d back to %d", s.Req.Label, a.Size, b.Size), s.Replay())
		case b.Size == a.Size && string(a.Root) != string(b.Root):
			run.Report(sig("equal-size-different-root"), fmt.Sprintf("request %q replaced the root at size %d: split view cosigned", s.Req.Label, a.Size), s.Replay())
		case b.Size > a.Size && a.Size > 0 && (a.Branch.Name == "odd" || b.Branch.Name == "odd"):
			// A root that is the root of no tree is consistent with nothing but itself.
			run.Report(sig("not-an-extension")+fmt.Sprintf(" proof=%s", proofLabel(s.Req.Label)), fmt.Sprintf("request %q moved the witness from %s@%d to %s@%d although one of the two roots is the root of no tree: split view cosigned", s.Req.Label, a.Branch.Name, a.Size, b.Branch.Name, b.Size), s.Replay())
		case b.Size > a.Size && !uni.IsPrefix(a.Branch, int(a.Size), b.Branch, int(b.Size)):
			run.Report(sig("not-an-extension")+fmt.Sprintf(" proof=%s", proofLabel(s.Req.Label)), fmt.Sprintf("request %q moved the witness from %s@%d to %s@%d whose first %d leaves differ: split view cosigned", s.Req.Label, a.Branch.Name, a.Size, b.Branch.Name, b.Size, a.Size), s.Replay())
		default:
			if b.Size == a.Size {
				kind = "refresh"
			} else {
				kind = "growth"
			}
			run.Hist("accepted_kinds", kind)
			if run.Distinct(fmt.Sprintf("%s:%s->%s", kind, a.Key(), b.Key())) && run.HistGet("accepted_kinds", kind) < 4 {
				run.Sample(map[string]any{"kind": kind, "from": a.Key(), "to": b.Key(), "request": s.Req.Label, "store": s.Env.Cfg.Store})
			}
		}
		// Latest-checkpoint read after the step.
		got, err := s.Env.W.GetCheckpoint(id)
		if err != nil || string(got) != s.After.ByID[id] {
			run.Report(sig("read-after-step"), fmt.Sprintf("GetCheckpoint after %q returned %v / bytes differing from the store", s.Req.Label, err), s.Replay())
		}
	}
}

func proofLabel(l string) string {
	i := strings.Index(l, "proof=")
	if i < 0 {
		return "?"
	}
	r := l[i+6:]
	if j := strings.Index(r, "("); j >= 0 {
		r = r[:j]
	}
	return r
}

// ---------------------------------------------------------------- C03

// refusalClass names the refusal class of the property for one step.
func refusalClass(s *wh.Step) string {
	switch s.Out.Class {
	case wh.Unknown:
		return "unknown-log"
	case wh.NoSig:
		return "bad-signature"
	case wh.OldInvalid:
		return "old-size-too-large"
	case wh.Stale:
		return "stale-old-size"
	case wh.RootMismatch:
		return "root-mismatch"
	case wh.BadProof:
		if s.StBefore.Has && s.StBefore.Size == 0 && len(s.Req.Proof) > 0 {
			return "non-empty-proof-at-size-zero"
		}
		return "invalid-proof"
	}
	return "other:" + firstWords(fmt.Sprint(s.Out.Err), 4)
}

func firstWords(s string, n int) string {
	f := strings.Fields(s)
	if len(f) > n {
		f = f[:n]
	}
	return strings.Join(f, " ")
}

// c03Monitor: a refused update changes nothing and releases no cosignature.
func c03Monitor(run *ev.Run) func(*wh.Step) {
	return func(s *wh.Step) {
		if s.Out.Err == nil {
			run.Add("accepted_steps", 1)
			return
		}
		cls := refusalClass(s)
		run.Hist("refusal_classes", cls)
		run.Distinct(fmt.Sprintf("%s|%s|%s", s.StBefore.Key(), cls, s.Req.Label))
		if run.HistGet("refusal_classes", cls) == 1 {
			run.Sample(map[string]any{"state": s.StBefore.Key(), "request": s.Req.Label, "refusal": cls, "store": s.Env.Cfg.Store, "returned": retKind(s)})
		}
		sig := fmt.Sprintf("class=%s stored=%s", cls, stKind(s.StBefore))
		if !s.After.Equal(s.Before) {
			run.Report("state-changed "+sig, fmt.Sprintf("refused request %q (%v) changed the stored state or the log list", s.Req.Label, s.Out.Err), s.Replay())
			return
		}
		if s.Out.Bytes != nil && string(s.Out.Bytes) != s.Before.ByID[s.Req.LogID] {
			what := "bytes that are not the stored checkpoint"
			if text, sigs, ok := uni.SplitNote(s.Out.Bytes); ok && text == s.Req.Meta.Text {
				for _, v := range s.Env.WitVerifs {
					if n, _ := countValid(v, text, sigs); n > 0 {
						what = "a witness signature over the refused checkpoint"
					}
				}
			}
			run.Report("bytes-with-refusal "+sig, fmt.Sprintf("refused request %q (%v) returned %s", s.Req.Label, s.Out.Err, what), s.Replay())
		}
	}
}

// countValid counts signature lines for verifier v (by name and key hash) and
// how many of them verify over text.
func countValid(v note.Verifier, text string, sigLines []string) (lines, valid int) {
	for _, l := range sigLines {
		rest, ok := strings.CutPrefix(l, "— ")
		if !ok {
			continue
		}
		name, b64, ok := strings.Cut(rest, " ")
		if !ok || name != v.Name() {
			continue
		}
		raw, err := base64.StdEncoding.DecodeString(b64)
		if err != nil || len(raw) < 4 || binary.BigEndian.Uint32(raw) != v.KeyHash() {
			continue
		}
		lines++
		if v.Verify([]byte(text), raw[4:]) {
			valid++
		}
	}
	return
}

// ---------------------------------------------------------------- C04

func c04Monitor(run *ev.Run, logical bool) func(*wh.Step) {
	return func(s *wh.Step) {
		if s.Out.Class != wh.OK {
			return
		}
		id := s.Req.LogID
		kind := "first-use"
		if s.StBefore.Has {
			kind = "growth"
			if s.StBefore.Size == s.Req.Meta.Size {
				kind = "refresh"
			}
		}
		cfgKey := fmt.Sprintf("%s|%s|%s", strings.Join(s.Env.Cfg.Signers, "+"), s.Req.Meta.Shape, kind)
		run.Hist("accepted", cfgKey)
		run.Distinct(fmt.Sprintf("%s|%s|%s|%s", s.Env.Cfg.Store, cfgKey, s.StBefore.Key(), s.StAfter.Key()))
		if run.HistGet("accepted", cfgKey) == 1 {
			run.Sample(map[string]any{"store": s.Env.Cfg.Store, "signers": s.Env.Cfg.Signers, "shape": s.Req.Meta.Shape, "kind": kind, "request": s.Req.Label, "result": string(s.Out.Bytes)})
		}
		sig := func(k string) string {
			return fmt.Sprintf("%s kind=%s shape=%s signers=%s", k, kind, s.Req.Meta.Shape, strings.Join(s.Env.Cfg.Signers, "+"))
		}
		text, sigs, ok := uni.SplitNote(s.Out.Bytes)
		if !ok {
			run.Report(sig("not-a-note"), fmt.Sprintf("accepted %q returned bytes that are not a note", s.Req.Label), s.Replay())
			return
		}
		if text != s.Req.Meta.Text {
			run.Report(sig("text-differs"), fmt.Sprintf("accepted %q: returned note text differs from the text the log signed", s.Req.Label), s.Replay())
			return
		}
		if l, v := countValid(s.Cfg.Key.Verif, text, sigs); v < 1 {
			run.Report(sig("log-signature-missing"), fmt.Sprintf("accepted %q: result carries %d log signature lines, %d valid", s.Req.Label, l, v), s.Replay())
		}
		for i, v := range s.Env.WitVerifs {
			l, ok := countValid(v, text, sigs)
			if l != 1 || ok != 1 {
				run.Report(sig(fmt.Sprintf("witness-signature key=%d lines=%d valid=%d", i, l, ok)), fmt.Sprintf("accepted %q: result carries %d signature lines for witness key %s (%d valid), want exactly one valid", s.Req.Label, l, v.Name(), ok), s.Replay())
			}
		}
		// Freshness of every timestamped (cosignature/v1) witness signature.
		for _, l := range sigs {
			rest, _ := strings.CutPrefix(l, "— ")
			name, b64, _ := strings.Cut(rest, " ")
			for i, v := range s.Env.WitVerifs {
				if !isCosig(s.Env.Cfg.Signers, i) || name != v.Name() {
					continue
				}
				raw, err := base64.StdEncoding.DecodeString(b64)
				if err != nil || len(raw) != 4+8+64 || binary.BigEndian.Uint32(raw) != v.KeyHash() {
					continue
				}
				ts, err := f_note.CoSigV1Timestamp(note.Signature{Name: name, Hash: v.KeyHash(), Base64: b64})
				if err != nil {
					continue
				}
				run.Add("timestamps_checked", 1)
				if logical && !(ts.Unix() > s.T0 && ts.Unix() <= s.T1) {
					run.Report(sig("stale-timestamp"), fmt.Sprintf("accepted %q: cosignature timestamp %d is outside the window (%d, %d] of the call that returned it", s.Req.Label, ts.Unix(), s.T0, s.T1), s.Replay())
				}
			}
		}
		// A read directly after returns exactly the bytes Update returned.
		got, err := s.Env.W.GetCheckpoint(id)
		if err != nil || string(got) != string(s.Out.Bytes) {
			run.Report(sig("read-differs"), fmt.Sprintf("GetCheckpoint directly after accepted %q returned different bytes (err=%v)", s.Req.Label, err), s.Replay())
		}
		// ... and so does a read through the witness's HTTP endpoint with the
		// bundled client (the "latest-checkpoint read" users make).
		if _, ok := s.Env.X["router"]; !ok {
			c16Setup(s.Env)
		}
		hgot, herr := s.Env.X["client:"].(whttp.Witness).GetLatestCheckpoint(context.Background(), id)
		run.Add("http_reads_compared", 1)
		if herr != nil || string(hgot) != string(s.Out.Bytes) {
			run.Report(sig("http-read-differs"), fmt.Sprintf("a latest-checkpoint read over the HTTP endpoint directly after accepted %q returned different bytes (err=%v, %d bytes for %d)", s.Req.Label, herr, len(hgot), len(s.Out.Bytes)), s.Replay())
		}
		// ... and a reader that REVALIDATES (a caching proxy, a polling monitor):
		// it keeps the validators the endpoint handed out with this read, the
		// log's checkpoint is then submitted once more (same size: accepted,
		// freshly cosigned), and the reader asks again replaying them; a 304
		// means 'what you hold is current'. (The environment is discarded after
		// this step, the extra submission is not part of the explored history.)
		if sh := s.Req.Meta.Shape; s.Req.Meta.Size > 0 && (sh == "plain" || sh == "ext") {
			get := func(etag, lastMod string) *httptest.ResponseRecorder {
				req := httptest.NewRequest(http.MethodGet, "http://witness.test/witness/v0/logs/"+id+"/checkpoint", nil)
				if etag != "" {
					req.Header.Set("If-None-Match", etag)
				}
				if lastMod != "" {
					req.Header.Set("If-Modified-Since", lastMod)
				}
				rec := httptest.NewRecorder()
				s.Env.X["router"].(http.Handler).ServeHTTP(rec, req)
				return rec
			}
			r1 := get("", "")
			again := s.Env.Do(wh.Req{LogID: id, Old: s.Req.Meta.Size, CP: s.Req.CP, Proof: [][]byte{}, Meta: s.Req.Meta, Label: "the same checkpoint once more"})
			if again.Class == wh.OK {
				etag, lastMod := r1.Header().Get("ETag"), r1.Header().Get("Last-Modified")
				r2 := get(etag, lastMod)
				eff := r2.Body.Bytes()
				if r2.Code == http.StatusNotModified {
					eff = r1.Body.Bytes()
					run.Add("revalidating_reads_answered_304", 1)
				}
				run.Add("revalidating_reads", 1)
				if (r2.Code != 200 && r2.Code != http.StatusNotModified) || string(eff) != string(again.Bytes) {
					run.Report(sig(fmt.Sprintf("revalidated-read-differs status=%d", r2.Code)), fmt.Sprintf("after accepted %q a reader fetched the checkpoint, the same checkpoint was accepted once more (fresh cosignature), and the reader revalidated with the validators it had been given (ETag %q, Last-Modified %q): answered %d, so it holds bytes that are not what the last update returned", s.Req.Label, etag, lastMod, r2.Code), s.Replay())
				}
			}
		}
		if string(s.Out.Bytes) != s.After.ByID[id] {
			run.Report(sig("stored-differs"), fmt.Sprintf("accepted %q: stored bytes differ from returned bytes", s.Req.Label), s.Replay())
		}
	}
}

func isCosig(signers []string, i int) bool {
	if len(signers) == 0 {
		signers = []string{"legacy", "cosig"}
	}
	return strings.HasPrefix(signers[i], "cosig")
}

// ---------------------------------------------------------------- C20

var c20Names = map[string]string{
	"attempt":      "witness_update_request",
	"success":      "witness_update_success",
	"invalid":      "witness_update_invalid_consistency",
	"inconsistent": "witness_update_inconsistent_checkpoints",
}

// c20Monitor must run single-threaded: it compares process-wide counters.
func c20Monitor(run *ev.Run) (func(), func(*wh.Step)) {
	last := wh.Metrics.Snapshot()
	return func() { last = wh.Metrics.Snapshot() }, func(s *wh.Step) {
		now := wh.Metrics.Snapshot()
		want := map[string]int64{}
		id := s.Req.LogID
		if s.Cfg != nil {
			want[c20Names["attempt"]+"{"+id+"}"] = 1
			switch s.Out.Class {
			case wh.OK:
				want[c20Names["success"]+"{"+id+"}"] = 1
			case wh.BadProof:
				want[c20Names["invalid"]+"{"+id+"}"] = 1
			case wh.RootMismatch:
				want[c20Names["inconsistent"]+"{"+id+"}"] = 1
			}
		}
		run.Hist("outcomes", s.Out.Class)
		run.Distinct(fmt.Sprintf("%s|%s|%s", s.StBefore.Key(), s.Out.Class, s.Req.Label))
		if run.HistGet("outcomes", s.Out.Class) == 1 {
			run.Sample(map[string]any{"state": s.StBefore.Key(), "request": s.Req.Label, "outcome": s.Out.Class, "counter_deltas": want})
		}
		keys := map[string]bool{}
		for k := range now {
			keys[k] = true
		}
		for k := range want {
			keys[k] = true
		}
		for k := range keys {
			d := now[k] - last[k]
			if d != want[k] {
				name := k[:strings.Index(k, "{")]
				lbl := "own-log"
				if !strings.Contains(k, "{"+id+"}") {
					lbl = "other-label"
				}
				run.Report(fmt.Sprintf("counter=%s outcome=%s delta=%d want=%d label=%s", name, s.Out.Class, d, want[k], lbl),
					fmt.Sprintf("request %q (%s, %v): counter %s moved by %d, want %d", s.Req.Label, s.Out.Class, s.Out.Err, k, d, want[k]), s.Replay())
			}
		}
	}
}

// flakySigner wraps a witness key; while fail is set its Sign returns an error
// (a key held by a remote signer / KMS that is unreachable for one call).
type flakySigner struct {
	note.Signer
	fail *bool
}

func (f flakySigner) Sign(msg []byte) ([]byte, error) {
	if *f.fail {
		return nil, fmt.Errorf("verif: signer %s unavailable", f.Name())
	}
	return f.Signer.Sign(msg)
}

// c04SignerFaults: one of the witness's keys fails for one call - first,
// middle or last in the configured order - during a first use, a growth and a
// same-size re-submission, both stores. The update may be refused (then
// nothing changes) or accepted - then the result and the following read carry
// exactly one valid signature of EVERY configured key.
func c04SignerFaults(run *ev.Run) {
	u := uni.New(ev.Seed(), 8, nil)
	gen := wh.NewCPGen(u)
	la := wh.LogCfg{Origin: logA() + "/signer-faults", Key: u.K1}
	keys := []struct {
		name string
		s    note.Signer
		v    note.Verifier
	}{{"legacy", u.W1.Signer, u.W1.Verif}, {"cosig", u.W1.CosigSigner, u.W1.CosigVerif}, {"cosig2", u.W2.CosigSigner, u.W2.CosigVerif}}
	for _, store := range []string{"mem", "sql"} {
		for _, order := range [][]int{{0, 1}, {1, 0}, {0, 1, 2}, {2, 0, 1}} {
			for failing := range order {
				for _, step := range []string{"first-use", "growth", "refresh"} {
					fail := false
					var sigs []note.Signer
					var names []string
					for i, k := range order {
						s := keys[k].s
						if i == failing {
							s = flakySigner{Signer: s, fail: &fail}
						}
						sigs = append(sigs, s)
						names = append(names, keys[k].name)
					}
					e := wh.NewEnv(u, wh.Config{Store: store, Logs: []wh.LogCfg{la}, CustomSigners: sigs})
					mk := func(old, n int) wh.Req {
						cp, meta := gen.Get(la, u.Main, n, "plain")
						return wh.Req{LogID: la.ID(), Old: uint64(old), CP: cp, Proof: u.Main.Proof(old, n), Meta: meta}
					}
					r := mk(0, 3)
					if step != "first-use" {
						if out := e.Do(mk(0, 3)); out.Class != wh.OK {
							e.Close()
							continue
						}
						r = mk(3, 5)
						if step == "refresh" {
							r = mk(3, 3)
						}
					}
					before := e.Snap()
					fail = true
					out := e.Do(r)
					fail = false
					run.Add("signer_fault_cases", 1)
					rep := map[string]any{"kind": "signer-fault", "store": store, "keys": names, "failing": names[failing], "step": step}
					sig := fmt.Sprintf("step=%s failing-key-position=%d-of-%d", step, failing+1, len(order))
					if out.Err != nil {
						if !e.Snap().Equal(before) {
							run.Report("signer-fault refused-but-state-changed "+sig, fmt.Sprintf("%s store, witness keys %v, key %s failing for this call: the %s was refused (%v) but the stored state changed", store, names, names[failing], step, out.Err), rep)
						}
					} else {
						got, _ := e.W.GetCheckpoint(la.ID())
						for _, b := range [][]byte{out.Bytes, got} {
							text, lines, ok := uni.SplitNote(b)
							for _, k := range order {
								if l, v := countValid(keys[k].v, text, lines); !ok || l != 1 || v != 1 {
									run.Report("signer-fault accepted-without-a-key's-signature "+sig, fmt.Sprintf("%s store, witness keys %v, key %s failing for this call: the %s was ACCEPTED, but the result / the following read carries %d lines (%d valid) of key %s, want exactly one valid", store, names, names[failing], step, l, v, keys[k].name), rep)
								}
							}
						}
					}
					e.Close()
				}
			}
		}
	}
}
