package checks

import (
	"bytes"
	"context"
	"encoding/json"
	"fmt"
	"io"
	"net"
	"net/http"
	"net/http/httptest"
	"os"
	"os/exec"
	"path/filepath"
	"sort"
	"strings"
	"sync"
	"time"

	"github.com/gorilla/mux"
	f_log "github.com/transparency-dev/formats/log"
	"github.com/transparency-dev/witness/internal/config"
	"github.com/transparency-dev/witness/internal/distribute/rest"
	"github.com/transparency-dev/witness/internal/feeder/bastion"
	ihttp "github.com/transparency-dev/witness/internal/http"
	"github.com/transparency-dev/witness/internal/persistence/inmemory"
	"github.com/transparency-dev/witness/omniwitness"
	"github.com/transparency-dev/witness/verifmc/ev"
	"github.com/transparency-dev/witness/verifmc/uni"
	"github.com/transparency-dev/witness/verifmc/wh"
	"golang.org/x/mod/sumdb/note"
	"golang.org/x/time/rate"
)

func init() { Registry["C12"] = c12 }

// c12Product explores the product of per-log state spaces.
func c12Product(run *ev.Run, u *uni.U, gen *wh.CPGen, logs []wh.LogCfg, store string, maxN int) (int, int64) {
	type pstate struct {
		key  string
		path []wh.Req // interleaved accepted requests
	}
	keyOf := func(e *wh.Env) (string, []wh.MState) {
		var ks []string
		var sts []wh.MState
		for _, l := range logs {
			st, ok := wh.StateOf(gen, e.Stored(l.ID()))
			if !ok {
				ks = append(ks, "?")
			} else {
				ks = append(ks, st.Key())
			}
			sts = append(sts, st)
		}
		return strings.Join(ks, " | "), sts
	}
	cfg := wh.Config{Store: store, Logs: logs}
	build := func(path []wh.Req) *wh.Env {
		e := wh.NewEnv(u, cfg)
		for _, r := range path {
			if out := e.Do(r); out.Class != wh.OK {
				ev.Internal("C12: replay refused %s: %v", r.Label, out.Err)
			}
		}
		return e
	}
	// single-log reference: only log X configured, only X's requests replayed.
	single := func(path []wh.Req, x wh.LogCfg) *wh.Env {
		e := wh.NewEnv(u, wh.Config{Store: store, Logs: []wh.LogCfg{x}})
		for _, r := range path {
			if r.LogID != x.ID() {
				continue
			}
			if out := e.Do(r); out.Class != wh.OK {
				ev.Internal("C12: single-log replay refused %s: %v", r.Label, out.Err)
			}
		}
		return e
	}
	alpha := wh.AlphaOpts{MaxN: maxN, Forged: true, RichProof: false}
	seen := map[string]*pstate{}
	e0 := build(nil)
	k0, _ := keyOf(e0)
	e0.Close()
	seen[k0] = &pstate{key: k0}
	level := []*pstate{seen[k0]}
	var trans int64
	var mu sync.Mutex
	for len(level) > 0 {
		var found []*pstate
		var wg sync.WaitGroup
		ch := make(chan *pstate)
		for w := 0; w < workers(); w++ {
			wg.Add(1)
			go func() {
				defer wg.Done()
				for ps := range ch {
					e := build(ps.path)
					_, sts := keyOf(e)
					for li, x := range logs {
						reqs := wh.Alphabet(gen, x, sts[li], alpha)
						// Cross-log replays: every other log's checkpoint
						// submitted under X's ID.
						for oj, o := range logs {
							if oj == li {
								continue
							}
							for n := 1; n <= maxN; n += 2 {
								cp, meta := gen.Get(o, u.Main, n, "plain")
								for _, old := range []uint64{0, sts[li].Size} {
									reqs = append(reqs, wh.Req{LogID: x.ID(), Old: old, CP: cp, Proof: u.Main.Proof(int(old), n), Meta: meta,
										Label: fmt.Sprintf("cross: checkpoint of %s@%d under the ID of %s old=%d", o.Origin, n, x.Origin, old)})
								}
							}
						}
						ref := single(ps.path, x)
						for _, r := range reqs {
							before := e.Snap()
							out := e.Do(r)
							after := e.Snap()
							refBefore := string(ref.Stored(x.ID()))
							rout := ref.Do(r)
							refAfter := string(ref.Stored(x.ID()))
							mu.Lock()
							trans++
							mu.Unlock()
							run.Hist("verdicts", out.Class)
							rep := map[string]any{"kind": "witness-path", "store": store, "request": r.JSON(), "logs": len(logs)}
							var path []any
							for _, pr := range ps.path {
								path = append(path, pr.JSON())
							}
							rep["path"] = path
							// (a) other logs untouched.
							for _, o := range logs {
								if o.ID() != x.ID() && before.ByID[o.ID()] != after.ByID[o.ID()] {
									run.Report("other-log-changed verdict="+out.Class, fmt.Sprintf("request %q naming %s changed the stored checkpoint of %s", r.Label, x.Origin, o.Origin), rep)
								}
							}
							if !sameSet(after.Logs, keysOf(after.ByID)) {
								run.Report("log-list-mismatch", fmt.Sprintf("after %q the log list %v differs from the logs holding a checkpoint", r.Label, after.Logs), rep)
							}
							// (b) X behaves as in the single-log system.
							gotRet := retKindRaw(out, before.ByID[x.ID()])
							refRet := retKindRaw(rout, refBefore)
							stA, _ := wh.StateOf(gen, []byte(after.ByID[x.ID()]))
							stR, _ := wh.StateOf(gen, []byte(refAfter))
							if _, has := after.ByID[x.ID()]; !has {
								stA = wh.MState{}
							}
							if refAfter == "" {
								stR = wh.MState{}
							}
							if out.Class != rout.Class || gotRet != refRet || stA.Key() != stR.Key() {
								run.Report(fmt.Sprintf("differs-from-isolated product=%s/%s isolated=%s/%s", out.Class, gotRet, rout.Class, refRet),
									fmt.Sprintf("request %q in product state [%s]: answered %s/%s -> %s, the same log alone answers %s/%s -> %s", r.Label, ps.key, out.Class, gotRet, stA.Key(), rout.Class, refRet, stR.Key()), rep)
							}
							// A cross-log checkpoint is never stored under X.
							if strings.HasPrefix(r.Label, "cross:") && after.ByID[x.ID()] != before.ByID[x.ID()] {
								run.Report("cross-log-stored", fmt.Sprintf("request %q stored another log's checkpoint", r.Label), rep)
							}
							if refAfter != refBefore {
								ref.Close()
								ref = single(ps.path, x)
							}
							if !after.Equal(before) {
								nk, _ := keyOf(e)
								np := append(append([]wh.Req{}, ps.path...), r)
								mu.Lock()
								found = append(found, &pstate{key: nk, path: np})
								mu.Unlock()
								e.Close()
								e = build(ps.path)
							}
						}
						ref.Close()
					}
					e.Close()
				}
			}()
		}
		for _, ps := range level {
			ch <- ps
		}
		close(ch)
		wg.Wait()
		sort.SliceStable(found, func(i, j int) bool {
			if found[i].key != found[j].key {
				return found[i].key < found[j].key
			}
			return len(found[i].path) < len(found[j].path)
		})
		level = nil
		for _, f := range found {
			if _, ok := seen[f.key]; !ok {
				seen[f.key] = f
				level = append(level, f)
				run.Distinct(store + "|" + f.key)
			}
		}
	}
	return len(seen), trans
}

func keysOf(m map[string]string) []string {
	var k []string
	for x := range m {
		k = append(k, x)
	}
	return k
}

func retKindRaw(o wh.Outcome, storedBefore string) string {
	switch {
	case o.Bytes == nil:
		return "nil"
	case string(o.Bytes) == storedBefore && storedBefore != "":
		return "stored"
	case o.Class == wh.OK:
		return "new"
	}
	return "other"
}

// c12Interleavings: all interleavings of two independently chosen per-log
// histories of length <= 3, compared with the isolated runs.
func c12Interleavings(run *ev.Run, u *uni.U, gen *wh.CPGen, logs []wh.LogCfg, histLen int) int64 {
	return c12InterleavingsN(run, u, gen, logs, histLen, 4)
}

// c12InterleavingsN: nHist = number of alternative histories per log.
func c12InterleavingsN(run *ev.Run, u *uni.U, gen *wh.CPGen, logs []wh.LogCfg, histLen int, nHist int) int64 {
	m, f := u.Main, u.Forks[0]
	mk := func(l wh.LogCfg, b *uni.Branch, old, n int) wh.Req {
		cp, meta := gen.Get(l, b, n, "plain")
		return wh.Req{LogID: l.ID(), Old: uint64(old), CP: cp, Proof: b.Proof(old, n), Meta: meta, Label: fmt.Sprintf("%s old=%d %s@%d", l.Origin, old, b.Name, n)}
	}
	hist := func(l wh.LogCfg) [][]wh.Req {
		all := [][]wh.Req{
			{mk(l, m, 0, 2), mk(l, m, 2, 4), mk(l, m, 4, 4)},
			{mk(l, m, 0, 3), mk(l, f, 3, 4), mk(l, m, 3, 4)},
			{mk(l, f, 0, 1), mk(l, m, 0, 2), mk(l, f, 1, 3)},
			{mk(l, m, 0, 0), mk(l, m, 0, 0), mk(l, f, 2, 3)},
		}
		for i := range all {
			all[i] = all[i][:histLen]
		}
		return all[:nHist]
	}
	var n int64
	final := func(reqs []wh.Req, cfgLogs []wh.LogCfg) map[string]string {
		e := wh.NewEnv(u, wh.Config{Store: "mem", Logs: cfgLogs})
		defer e.Close()
		classes := map[string]string{}
		for _, r := range reqs {
			out := e.Do(r)
			classes[r.LogID] += out.Class + ";"
		}
		res := map[string]string{}
		for _, l := range cfgLogs {
			st, _ := wh.StateOf(gen, e.Stored(l.ID()))
			res[l.ID()] = st.Key() + " <" + classes[l.ID()] + ">"
		}
		return res
	}
	var perLog [][][]wh.Req
	for _, l := range logs {
		perLog = append(perLog, hist(l))
	}
	// choose one history per log, then all interleavings.
	var choose func(i int, cur [][]wh.Req)
	choose = func(i int, cur [][]wh.Req) {
		if i == len(logs) {
			iso := map[string]string{}
			for li, l := range logs {
				for k, v := range final(cur[li], []wh.LogCfg{l}) {
					iso[k] = v
				}
			}
			var inter func(pos []int, acc []wh.Req)
			inter = func(pos []int, acc []wh.Req) {
				done := true
				for li := range logs {
					if pos[li] < len(cur[li]) {
						done = false
						np := append([]int{}, pos...)
						np[li]++
						inter(np, append(acc[:len(acc):len(acc)], cur[li][pos[li]]))
					}
				}
				if done {
					n++
					got := final(acc, logs)
					for id, want := range iso {
						if got[id] != want {
							var ls []string
							for _, r := range acc {
								ls = append(ls, r.Label)
							}
							run.Report("interleaving-differs-from-isolated", fmt.Sprintf("interleaving %v: log %s ends as %s, alone it ends as %s", ls, id[:8], got[id], want), map[string]any{"kind": "interleaving", "labels": ls})
						}
					}
				}
			}
			inter(make([]int, len(logs)), nil)
			return
		}
		for _, h := range perLog[i] {
			choose(i+1, append(cur[:len(cur):len(cur)], h))
		}
	}
	choose(0, nil)
	return n
}

// recWitness records the IDs the bastion handler and distributor use.
type recWitness struct {
	ids []string
	cp  map[string][]byte
}

func (r *recWitness) GetLatestCheckpoint(_ context.Context, id string) ([]byte, error) {
	r.ids = append(r.ids, "get:"+id)
	return r.cp[id], nil
}

func (r *recWitness) Update(_ context.Context, id string, old uint64, cp []byte, p [][]byte) ([]byte, error) {
	r.ids = append(r.ids, "update:"+id)
	return nil, fmt.Errorf("recorded")
}

type recTransport struct{ paths []string }

func (t *recTransport) RoundTrip(r *http.Request) (*http.Response, error) {
	// As net/http's transport: a request whose context has ended fails.
	if err := r.Context().Err(); err != nil {
		return nil, err
	}
	t.paths = append(t.paths, r.URL.EscapedPath())
	rec := httptest.NewRecorder()
	rec.WriteHeader(200)
	res := rec.Result()
	res.Request = r
	return res, nil
}

// c12Identity: every component derives the same ID for an origin.
func c12Identity(run *ev.Run, u *uni.U) int64 {
	origins := []string{"a", "verif.example/log-a", "with space", "with/slash/and+plus", "ünïcödé/ログ", strings.Repeat("x", 300),
		"go.sum database tree", "rekor.sigstore.dev - 2605736670972794746", "developers.google.com/android/binary_transparency/0", "lvfs", "sum.golang.org", "trailing ", " leading", "UPPER", "upper"}
	var n int64
	for _, o := range origins {
		n++
		want := f_log.ID(o)
		cl, err := config.NewLog(o, u.K1.VKey, "http://x.example/")
		if err != nil {
			run.Report("newlog-failed", fmt.Sprintf("config.NewLog(%q) failed: %v", o, err), nil)
			continue
		}
		lm, err := omniwitness.LogConfig{Logs: []omniwitness.LogInfo{{Origin: o, PublicKey: u.K1.VKey, URL: "http://x.example/"}}}.AsLogMap()
		var mapID string
		for k := range lm {
			mapID = k
		}
		rep := map[string]any{"kind": "identity", "origin": o}
		if err != nil || cl.ID != want || mapID != want {
			run.Report("id-mismatch config", fmt.Sprintf("origin %q: config.NewLog ID %s, witness map key %s, log.ID %s (err %v)", o, cl.ID, mapID, want, err), rep)
		}
		// Bastion endpoint: ID handed to the witness for a checkpoint of this origin.
		rw := &recWitness{cp: map[string][]byte{}}
		h := bastion.VerifNewHandler(rw, []config.Log{cl}, u.W1.CosigVerif, rate.Inf, 1, true)
		cp := u.Sign(uni.Body(o, 1, u.Main.Root(1)), u.K1.Signer)
		c10Serve(h, c10Body(0, nil, cp))
		if len(rw.ids) != 1 || rw.ids[0] != "update:"+want {
			run.Report("id-mismatch bastion", fmt.Sprintf("origin %q: the bastion endpoint called the witness with %v, want update:%s", o, rw.ids, want), rep)
		}
		// Distributor: ID asked from the witness and ID in the PUT path.
		wcp := u.Sign(uni.Body(o, 1, u.Main.Root(1)), u.K1.Signer, u.W1.CosigSigner)
		rw2 := &recWitness{cp: map[string][]byte{want: wcp}}
		rt := &recTransport{}
		d, _ := rest.NewDistributor("http://dist.example", &http.Client{Transport: rt}, []config.Log{cl}, u.W1.CosigVerif, rw2)
		derr := d.DistributeOnce(context.Background())
		wantPath := fmt.Sprintf("/distributor/v0/logs/%s/byWitness/%s/checkpoint", want, u.W1.CosigVerif.Name())
		if derr != nil || len(rw2.ids) != 1 || rw2.ids[0] != "get:"+want || len(rt.paths) != 1 || rt.paths[0] != wantPath {
			run.Report("id-mismatch distributor", fmt.Sprintf("origin %q: distributor asked %v and PUT %v (err %v), want get:%s and %s", o, rw2.ids, rt.paths, derr, want, wantPath), rep)
		}
		// HTTP route admits the ID and hands exactly it to the witness.
		e := wh.NewEnv(u, wh.Config{Store: "mem", Logs: []wh.LogCfg{{Origin: o, Key: u.K1}}})
		out := e.Do(wh.Req{LogID: want, CP: cp, Meta: wh.Meta{Origin: o, KeyName: wh.KeyID(u.K1.Verif), Size: 1, Root: u.Main.Root(1)}})
		r := mux.NewRouter()
		ihttp.NewServer(e.W).RegisterHandlers(r)
		req := httptest.NewRequest(http.MethodGet, "http://w.test/witness/v0/logs/"+want+"/checkpoint", nil)
		rec := httptest.NewRecorder()
		r.ServeHTTP(rec, req)
		body, _ := io.ReadAll(rec.Result().Body)
		if out.Class != wh.OK || rec.Code != 200 || !bytes.Equal(body, e.Stored(want)) {
			run.Report("id-mismatch http-route", fmt.Sprintf("origin %q: update under ID %s -> %s; GET through the route -> %d", o, want, out.Class, rec.Code), rep)
		}
		e.Close()
		run.Distinct("identity|" + o)
	}
	// All of them configured at once, plus origins that are prefixes /
	// extensions of one another: the bastion endpoint hands every checkpoint to
	// the witness under ITS origin's ID - every time (the handler's log lookup
	// may iterate a map: 25 submissions each).
	{
		all := append(append([]string{}, origins...), "verif.example/ci/2", "verif.example/ci/20", "verif.example/ci/2/x", "verif.example/ci", "ab", "verif.example/log-a/", "upper ")
		var cfgs []config.Log
		for _, o := range all {
			cl, err := config.NewLog(o, u.K1.VKey, "http://x.example/")
			if err == nil {
				cfgs = append(cfgs, cl)
			}
		}
		rw := &recWitness{cp: map[string][]byte{}}
		h := bastion.VerifNewHandler(rw, cfgs, u.W1.CosigVerif, rate.Inf, 1, true)
		for _, o := range all {
			cp := u.Sign(uni.Body(o, 1, u.Main.Root(1)), u.K1.Signer)
			for k := 0; k < 25; k++ {
				rw.ids = nil
				c10Serve(h, c10Body(0, nil, cp))
				n++
				if len(rw.ids) != 1 || rw.ids[0] != "update:"+f_log.ID(o) {
					run.Report("id-mismatch bastion many-logs", fmt.Sprintf("%d logs configured (some origins are prefixes of others): a checkpoint of origin %q reached the witness as %v, want update:%s", len(cfgs), o, rw.ids, f_log.ID(o)), map[string]any{"kind": "identity", "origin": o})
					break
				}
			}
		}
	}
	// Configurations: all lists of <= 3 entries over {o1,o2} x {K1,K2}.
	type ent struct{ o, k string }
	var ents []ent
	for _, o := range []string{"verif.example/o1", "verif.example/o2"} {
		for _, k := range []string{u.K1.VKey, u.K2.VKey} {
			ents = append(ents, ent{o, k})
		}
	}
	var lists [][]ent
	var gen func(cur []ent)
	gen = func(cur []ent) {
		if len(cur) > 0 {
			lists = append(lists, append([]ent{}, cur...))
		}
		if len(cur) == 3 {
			return
		}
		for _, e := range ents {
			gen(append(cur, e))
		}
	}
	gen(nil)
	for _, l := range lists {
		n++
		var infos []omniwitness.LogInfo
		seenO := map[string]bool{}
		dup := false
		for _, e := range l {
			infos = append(infos, omniwitness.LogInfo{Origin: e.o, PublicKey: e.k, URL: "http://x/"})
			if seenO[e.o] {
				dup = true
			}
			seenO[e.o] = true
		}
		lm, err := omniwitness.LogConfig{Logs: infos}.AsLogMap()
		run.Hist("config_lists", fmt.Sprintf("duplicate-origin=%v refused=%v", dup, err != nil))
		if dup != (err != nil) {
			run.Report(fmt.Sprintf("config-collision duplicate=%v refused=%v", dup, err != nil), fmt.Sprintf("configuration %v: duplicate origin=%v but AsLogMap error=%v", l, dup, err), map[string]any{"kind": "config", "entries": fmt.Sprint(l)})
		}
		if err == nil && len(lm) != len(seenO) {
			run.Report("config-map-size", fmt.Sprintf("configuration %v: witness map has %d entries for %d origins", l, len(lm), len(seenO)), nil)
		}
	}
	return n
}

func c12(tier string) int {
	run := ev.NewRun("C12", tier, "model_checking")
	wh.InstallLogicalClock()
	maxN := 3
	if tier == "thorough" {
		maxN = 4
	}
	u := uni.New(ev.Seed(), 5, []int{0})
	gen := wh.NewCPGen(u)
	la := wh.LogCfg{Origin: logA(), Key: u.K1}
	// IDs forced to collide where a sloppy key could: C shares A's signing key
	// (as the Rekor shards do) and the first three hex digits of A's ID; B
	// shares the last three.
	ida := la.ID()
	lb := wh.LogCfg{Origin: logB(), Key: u.K2}
	lc := wh.LogCfg{Origin: logC(), Key: u.K1}
	for k, fb, fc := 0, false, false; !(fb && fc); k++ {
		if o := fmt.Sprintf("%s/%d", logC(), k); !fc && strings.HasPrefix(uni.ID(o), ida[:3]) {
			lc.Origin, fc = o, true
		}
		if o := fmt.Sprintf("%s/%d", logB(), k); !fb && strings.HasSuffix(uni.ID(o), ida[len(ida)-3:]) {
			lb.Origin, fb = o, true
		}
	}
	run.Set("log_ids", []string{la.ID(), lb.ID(), lc.ID()})
	states, trans := 0, int64(0)
	for _, store := range []string{"mem", "sql"} {
		st, tr := c12Product(run, u, gen, []wh.LogCfg{la, lc}, store, maxN)
		states += st
		trans += tr
		run.Set("product_states[2 logs sharing a key,"+store+"]", st)
	}
	if tier == "thorough" {
		st, tr := c12Product(run, u, gen, []wh.LogCfg{la, lb, lc}, "mem", 2)
		states += st
		trans += tr
		run.Set("product_states[3 logs,mem]", st)
	} else {
		st, tr := c12Product(run, u, gen, []wh.LogCfg{la, lb, lc}, "mem", 1)
		states += st
		trans += tr
		run.Set("product_states[3 logs,mem]", st)
	}
	il := c12Interleavings(run, u, gen, []wh.LogCfg{la, lc}, 3)
	run.Set("interleavings_2_logs_len3", il)
	if tier == "thorough" {
		ld := wh.LogCfg{Origin: "verif.example/log-d", Key: u.K2}
		le := wh.LogCfg{Origin: "verif.example/log-e", Key: u.K1}
		// 5 logs x 1 step (all 120 orders x 4^5 history choices), 4 logs x 2
		// steps, 3 logs x 3 steps would be 1680 orders x 64 choices.
		il5 := c12Interleavings(run, u, gen, []wh.LogCfg{la, lb, lc, ld, le}, 1)
		run.Set("interleavings_5_logs_len1", il5)
		il4 := c12InterleavingsN(run, u, gen, []wh.LogCfg{la, lb, lc, ld}, 2, 2)
		run.Set("interleavings_4_logs_len2", il4)
		il3 := c12Interleavings(run, u, gen, []wh.LogCfg{la, lb, lc}, 2)
		run.Set("interleavings_3_logs_len2", il3)
		il += il5 + il4 + il3
	} else {
		il3 := c12Interleavings(run, u, gen, []wh.LogCfg{la, lb, lc}, 2)
		run.Set("interleavings_3_logs_len2", il3)
		il += il3
	}
	// Main leg: omniwitness.Main itself over configurations that mix every
	// feeder type (push-only logs included): the witness map, the HTTP
	// endpoint and the list handed to the distributor name the same logs.
	c12MainLists(run, u)
	c12FeederIDs(run)
	// Context leg: an abandoned update of log A leaves log B untouched and usable.
	ctxLeg(run, "C12")
	// Twin leg: two IDs configured with one origin line.
	twinLeg(run, "C12")
	idn := c12Identity(run, u)
	run.Set("identity_cases", idn)
	run.Sample(map[string]any{"product_state_example": "[" + strings.Join([]string{"2:<root of A>", "⊥"}, " | ") + "]", "request": "cross: checkpoint of log-c@3 under the ID of log-a old=2"})
	run.Set("states", states)
	run.Set("transitions", trans)
	run.Set("traces_validated_against_impl", trans)
	run.Set("evaluations", trans+il+idn)
	// Distributor leg: three and four logs, every assignment in which at most
	// one log deviates from (valid, 200) at every position - each checkpoint is
	// PUT under its own log's ID, a log without a usable checkpoint gets none,
	// in this round and in the following all-valid round (the C15 oracle run
	// under this property: the distributor must agree with the witness about
	// which log a checkpoint belongs to).
	{
		ud := uni.New(ev.Seed(), 12, nil)
		origins := []string{"verif.example/d0", "verif.example/d1", "verif.example/d2", "verif.example/d3"}
		var n int64
		for _, k := range []int{3, 4} {
			for pos := 0; pos < k; pos++ {
				for _, w := range c15WitnessAnswers {
					for _, d := range []string{"200", "500"} {
						if !strings.HasPrefix(w, "valid") && d != "200" {
							continue
						}
						wans, dans := make([]string, k), make([]string, k)
						for i := range wans {
							wans[i], dans[i] = "valid", "200"
						}
						wans[pos], dans[pos] = w, d
						c15Run(run, ud, origins[:k], wans, dans)
						n++
					}
				}
			}
		}
		run.Set("distributor_assignments", n)
		run.Add("evaluations", n)
	}
	// Fault leg: a storage failure while one log is updated must not change,
	// block or wedge anything for the other log (every single fault in the C07
	// histories, which include a two-log history).
	runFaults(run, "C12", tier, false)
	// Concurrent leg: updates of DIFFERENT logs overlapping at storage-operation
	// granularity (first use / growth of both) - neither may undo the other.
	c05Concurrent(run, "C12", tier)
	run.Set("exhaustive", true)
	run.Set("rule", fmt.Sprintf("product explicit-state BFS over 2 logs that share a signing key under different origins (sizes 0..%d, fork at 0, both stores) and 3 logs: for every product state and every request naming log X (reduced single-log alphabet + forged + every other log's checkpoints submitted under X's ID): all other components byte-identical before/after, and X's answer/successor equal to those of a one-log witness replaying only X's requests (differential oracle); plus all interleavings of independently chosen per-log histories (4 histories per log; 2 logs length 3, 3 logs length 2; thorough also 4 logs length 2 and 5 logs length 1) compared with the isolated runs; plus identity: for 15 origins the ID used by config.NewLog, the witness map, log.ID, the bastion endpoint (observed at a recording witness), the distributor (asked ID and PUT path) and the HTTP route agree, and all 84 configurations of <= 3 entries over 2 origins x 2 keys are refused iff two entries share an origin. distinct_nontrivial = distinct product states + identity cases", maxN))
	return run.Finish()
}

// c12MainLists: one configuration per feeder type with two logs of that type,
// and one with a log of every type.
func c12MainLists(run *ev.Run, u *uni.U) {
	types := []string{"serverless", "sumdb", "pixel", "rekor", "tiles", "none"}
	entry := func(origin, ft string, k uni.Key) string {
		url := "http://" + ft + ".log.verif.test/"
		if ft == "rekor" {
			url = "http://rekor.log.verif.test?treeID=1234567890"
		}
		return fmt.Sprintf("  - Origin: %s\n    URL: %s\n    PublicKey: %s\n    Feeder: %s\n", origin, url, k.VKey, ft)
	}
	mixed := "Logs:\n"
	// (In the mixed configuration the push-only log is listed SECOND, so that
	// entries with a feeder follow it.)
	for i, ft := range []string{"serverless", "none", "sumdb", "pixel", "rekor", "tiles"} {
		k := u.K1
		if i%2 == 1 {
			k = u.K2
		}
		mixed += entry("verif.example/main/mixed/"+ft, ft, k)
	}
	for i, ft := range types {
		k := u.K1
		if i%2 == 1 {
			k = u.K2
		}
		y := "Logs:\n" + entry("verif.example/main/"+ft+"/0", ft, k) + entry("verif.example/main/"+ft+"/1", ft, k)
		mainLogLists(run, "two-"+ft+"-logs", "a configuration of two "+ft+" logs", []byte(y))
		run.Add("main_configurations", 1)
	}
	mainLogLists(run, "one-log-of-every-feeder-type", "a configuration with one log of every feeder type", []byte(mixed))
	run.Add("main_configurations", 1)
	// Two entries that would share an ID (the same origin line, listed with
	// two keys / two URLs): Main refuses to start.
	for _, ft := range []string{"serverless", "none"} {
		dup := "Logs:\n" + entry("verif.example/main/dup/unrelated", "tiles", u.K1) + entry("verif.example/main/dup/twin", ft, u.K1) + entry("verif.example/main/dup/twin", ft, u.K2)
		c12MainMustRefuse(run, "two-"+ft+"-entries-with-one-origin", []byte(dup))
		run.Add("main_configurations", 1)
	}
}

// c12MainMustRefuse: omniwitness.Main over a configuration in which two logs
// would share an ID returns an error and never serves.
func c12MainMustRefuse(run *ev.Run, tag string, cfgYAML []byte) {
	saved := omniwitness.ConfigLogs
	omniwitness.ConfigLogs = cfgYAML
	defer func() { omniwitness.ConfigLogs = saved }()
	ln, err := net.Listen("tcp", "127.0.0.1:0")
	if err != nil {
		ev.Internal("C12: listen: %v", err)
	}
	defer ln.Close()
	ctx, cancel := context.WithCancel(context.Background())
	defer cancel()
	done := make(chan error, 1)
	go func() {
		defer func() {
			if p := recover(); p != nil {
				done <- fmt.Errorf("panic: %v", p)
			}
		}()
		done <- omniwitness.Main(ctx, omniwitness.OperatorConfig{WitnessKeys: []note.Signer{u12W.Signer, u12W.CosigSigner}, WitnessVerifier: u12W.CosigVerif},
			inmemory.NewPersistence(), ln, &http.Client{Transport: &pollRecorder{}})
	}()
	// A start-up refusal is immediate; a Main that serves answers its endpoint.
	deadline := time.Now().Add(20 * time.Second)
	for time.Now().Before(deadline) {
		select {
		case err := <-done:
			if err == nil {
				run.Report("duplicate-ids-not-refused config="+tag, "omniwitness.Main over a configuration in which two entries share an origin (hence an ID) returned without an error", map[string]any{"kind": "main-start"})
			}
			return
		default:
		}
		if resp, err := (&http.Client{Timeout: 2 * time.Second}).Get("http://" + ln.Addr().String() + "/witness/v0/logs"); err == nil {
			resp.Body.Close()
			if resp.StatusCode == 200 {
				run.Report("duplicate-ids-not-refused config="+tag, "omniwitness.Main over a configuration in which two entries share an origin (hence an ID) started and serves: one of the two silently replaced the other in the witness map", map[string]any{"kind": "main-start"})
				cancel()
				<-done
				return
			}
		}
		time.Sleep(50 * time.Millisecond)
	}
	run.Report("duplicate-ids-not-refused config="+tag, "omniwitness.Main over a configuration in which two entries share an ID neither returned an error nor served within 20 s", map[string]any{"kind": "main-start"})
}

var u12W = uni.New(ev.Seed(), 2, nil).W1

// twinLeg (shared by C01 and C12): two configured logs with DIFFERENT IDs but
// the same origin line (and key) - witness.Opts.KnownLogs allows it and the
// repository's own tests configure it ("monkeys"/"bananas" under one origin).
// Every interleaving of an honest history of A (first use 2, growth 4,
// same-size 4, growth 6) with an honest history of B (first use 3, growth 5),
// both stores; after every step what is held under each ID is exactly that
// ID's last accepted checkpoint (C12: a request naming B does not touch A),
// and a same-size fork and a fork growth of each log are refused and change
// nothing (C01: one append-only history per log ID).
func twinLeg(run *ev.Run, prop string) int64 {
	u := uni.New(ev.Seed(), 8, []int{0})
	gen := wh.NewCPGen(u)
	origin := "verif.example/twins"
	la := wh.LogCfg{Origin: origin, Key: u.K1, CustomID: "twin-a"}
	lb := wh.LogCfg{Origin: origin, Key: u.K1, CustomID: "twin-b"}
	m, f := u.Main, u.Forks[0]
	type step struct {
		l      wh.LogCfg
		old, n int
	}
	as := []step{{la, 0, 2}, {la, 2, 4}, {la, 4, 4}, {la, 4, 6}}
	bs := []step{{lb, 0, 3}, {lb, 3, 5}}
	var orders [][]step
	var rec func(i, j int, cur []step)
	rec = func(i, j int, cur []step) {
		if i == len(as) && j == len(bs) {
			orders = append(orders, append([]step{}, cur...))
			return
		}
		if i < len(as) {
			rec(i+1, j, append(cur, as[i]))
		}
		if j < len(bs) {
			rec(i, j+1, append(cur, bs[j]))
		}
	}
	rec(0, 0, nil)
	var n int64
	for _, store := range []string{"mem", "sql"} {
		for oi, ord := range orders {
			e := wh.NewEnv(u, wh.Config{Store: store, Logs: []wh.LogCfg{la, lb}})
			held := map[string]string{} // ID -> text last accepted
			size := map[string]int{}
			var names []string
			bad := false
			for si, st := range ord {
				cp, meta := gen.Get(st.l, m, st.n, "plain")
				names = append(names, fmt.Sprintf("%s %d->%d", st.l.CustomID, st.old, st.n))
				rep := map[string]any{"kind": "twin-logs", "store": store, "order": oi, "step": si, "history": names}
				out := e.Do(wh.Req{LogID: st.l.ID(), Old: uint64(st.old), CP: cp, Proof: m.Proof(st.old, st.n), Meta: meta})
				n++
				if e.Blocked {
					run.Report("twin-logs store-blocked", fmt.Sprintf("%s store, two IDs with one origin, history %v: the call did not return", store, names), rep)
					bad = true
					break
				}
				if out.Class != wh.OK {
					if prop == "C12" {
						run.Report("twin-logs honest-step-refused verdict="+out.Class, fmt.Sprintf("%s store, two IDs with one origin, history %v: the honest step of %s was answered %s (%v) - it depends on requests that named the other ID", store, names, st.l.CustomID, out.Class, out.Err), rep)
					}
					bad = true
					break
				}
				held[st.l.ID()], size[st.l.ID()] = meta.Text, st.n
				snap := e.Snap()
				for _, l := range []wh.LogCfg{la, lb} {
					text, _, _ := uni.SplitNote([]byte(snap.ByID[l.ID()]))
					if text != held[l.ID()] {
						if prop == "C12" {
							run.Report("twin-logs other-log-changed", fmt.Sprintf("%s store, two IDs with one origin, history %v: after a request naming %s the witness holds for %s something else than that ID's last accepted checkpoint (holds %d bytes)", store, names, st.l.CustomID, l.CustomID, len(snap.ByID[l.ID()])), rep)
						}
						bad = true
					}
				}
				// Forks of each log that has a checkpoint: refused, nothing changes.
				for _, l := range []wh.LogCfg{la, lb} {
					s, ok := size[l.ID()]
					if !ok {
						continue
					}
					before := e.Snap()
					cpS, mS := gen.Get(l, f, s, "plain")
					cpG, mG := gen.Get(l, f, s+1, "plain")
					for _, pr := range []wh.Req{{LogID: l.ID(), Old: uint64(s), CP: cpS, Meta: mS, Label: "same-size fork"}, {LogID: l.ID(), Old: uint64(s), CP: cpG, Proof: f.Proof(s, s+1), Meta: mG, Label: "fork growth"}} {
						o := e.Do(pr)
						n++
						if o.Class == wh.OK || !e.Snap().Equal(before) {
							if prop == "C01" {
								run.Report("twin-logs fork-accepted probe="+strings.ReplaceAll(pr.Label, " ", "-"), fmt.Sprintf("%s store, two IDs with one origin, history %v: a %s of %s at size %d was answered %s / changed the state: two inconsistent checkpoints cosigned for one log ID", store, names, pr.Label, l.CustomID, s, o.Class), rep)
							}
							bad = true
						}
					}
				}
				if bad {
					break
				}
			}
			if !bad {
				run.Hist("twin_logs", store+": histories in which both IDs kept their own state")
			}
			if !e.Blocked {
				e.Close()
			}
		}
	}
	run.Set("twin_log_interleavings", len(orders))
	run.Add("twin_log_requests", n)
	return n
}

// c12FeederIDs: "the ID under which the witness files an origin is the same ID
// the feeders use for it". omniwitness.Main is run for real (C14's worker:
// generated configuration, in-process stub log servers) once per polling
// feeder type over logs whose key NAME differs from their origin, with short
// honest growth schedules; what the log published must come to be served by
// the witness's HTTP API under ID(origin). A feeder that derives the ID from
// anything else (the key name: seeded change C12-s13) never gets there. Added
// after C12-s13; C14 runs the same worker over all its schedules and owns
// append-only progress - here only identity is at stake, so two schedules do.
func c12FeederIDs(run *ev.Run) {
	self, _ := os.Executable()
	scratch := c06Scratch()
	var wg sync.WaitGroup
	var mu sync.Mutex
	for i, ft := range []string{"tiles", "serverless", "pixel", "rekor"} {
		wg.Add(1)
		go func(i int, ft string) {
			defer wg.Done()
			spec := c14Spec{Mode: "running", Storage: "mem", Feeder: ft, Schedules: [][]int{{2}, {1, 257}}}
			spec.Scratch = filepath.Join(scratch, fmt.Sprintf("c12-feeder-%d", i))
			_ = os.MkdirAll(spec.Scratch, 0o755)
			defer os.RemoveAll(spec.Scratch)
			sj, _ := json.Marshal(spec)
			ctx, cancel := context.WithTimeout(context.Background(), 20*time.Minute)
			defer cancel()
			out, err := exec.CommandContext(ctx, self, "worker", "c14", string(sj)).Output()
			var r c14Result
			if err != nil || json.Unmarshal(lastLine(out), &r) != nil {
				ev.Internal("C12 feeder-ID worker %s failed: %v: %s", ft, err, tail(out))
			}
			if r.Err != "" {
				ev.Internal("C12 feeder-ID worker %s: %s", ft, r.Err)
			}
			mu.Lock()
			defer mu.Unlock()
			run.Add("feeder_id_checks", int64(r.Checks))
			run.Hist("feeder_id_leg", ft)
			for _, p := range r.Problems {
				run.Report(fmt.Sprintf("feeder-leg %s feeder=%s", p.Signature, ft), "omniwitness.Main with a "+ft+" log whose key name differs from its origin: "+p.What,
					map[string]any{"kind": "omniwitness-main", "feeder": ft, "mode": "running", "storage": "mem", "schedule": p.Schedule, "step": p.Step})
			}
		}(i, ft)
	}
	wg.Wait()
	if run.Get("feeder_id_checks") == 0 {
		run.Vacuous("the feeder-ID leg made no check")
	}
}
