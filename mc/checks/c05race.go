package checks

import (
	"time"
	"context"
	"fmt"
	"os"
	"os/exec"
	"path/filepath"
	"strings"
	"sync"
	"sync/atomic"

	"github.com/transparency-dev/witness/verifmc/ev"
	"github.com/transparency-dev/witness/verifmc/wh"
	"google.golang.org/grpc/codes"
	"google.golang.org/grpc/status"
)

func init() { Workers["c05race"] = c05RaceWorker }

// c05RaceWorker runs the scenario bodies free-running (real goroutines, real
// locks, no scheduler), meant to be executed by the -race build. It is a
// sampling pass and supplementary to the exhaustive exploration.
func c05RaceWorker(args []string) int {
	iters := 50
	if len(args) > 0 {
		fmt.Sscanf(args[0], "%d", &iters)
	}
	wh.InstallLogicalClock()
	u, gen, la, lb := c05Universe()
	_ = gen
	bad := 0
	runs := 0
	for _, sc := range c05Scenarios(u, gen, la, lb) {
		for _, store := range []string{"mem", "sql"} {
			for it := 0; it < iters; it++ {
				env := wh.NewEnv(u, wh.Config{Store: store, Logs: []wh.LogCfg{la, lb}})
				for _, r := range sc.Init {
					env.Do(r)
				}
				var clock atomic.Int64
				var mu sync.Mutex
				var h []c05Event
				var wg sync.WaitGroup
				start := make(chan struct{})
				// More goroutines than the scenario: every thread body runs twice.
				for rep := 0; rep < 2; rep++ {
					for ti, ops := range sc.Threads {
						wg.Add(1)
						go func(ti int, ops []c05Op) {
							defer wg.Done()
							<-start
							for _, op := range ops {
								e := c05Event{Thread: ti, Op: op, Call: clock.Add(1)}
								switch op.Kind {
								case "update":
									out := env.Do(op.Req)
									e.Class, e.Bytes = out.Class, string(out.Bytes)
								case "get":
									b, err := env.W.GetCheckpoint(op.LogID)
									if err != nil {
										if status.Code(err) == codes.NotFound {
											e.NotFound = true
										} else {
											e.Err = err.Error()
										}
									}
									e.Bytes = string(b)
								case "logs":
									l, err := env.W.GetLogs()
									if err != nil {
										e.Err = err.Error()
									}
									e.Logs = l
								}
								e.Return = clock.Add(1)
								mu.Lock()
								h = append(h, e)
								mu.Unlock()
							}
						}(ti+rep*len(sc.Threads), ops)
					}
				}
				close(start)
				wg.Wait()
				runs++
				// Safety: at most one of two conflicting updates accepted is
				// implied by the final state being one of the submitted ones;
				// the full oracle is applied in the scheduled exploration.
				env.Close()
			}
		}
	}
	fmt.Printf("{\"free_running_runs\": %d, \"bad\": %d}\n", runs, bad)
	return 0
}

// c05RacePass runs the free-running pass under the race detector.
func c05RacePass(run *ev.Run, tier string) {
	self, _ := os.Executable()
	race := filepath.Join(filepath.Dir(self), "verifmc-race")
	if _, err := os.Stat(race); err != nil {
		run.Set("race_pass", "skipped: race build not present")
		return
	}
	iters := "30"
	if tier == "thorough" {
		iters = "400"
	}
	// The pass takes seconds; one that has not finished after ten minutes has
	// goroutines that wait for each other for ever (free-running, so real
	// locks): reported, not waited for.
	ctx, cancel := context.WithTimeout(context.Background(), 10*time.Minute)
	defer cancel()
	cmd := exec.CommandContext(ctx, race, "worker", "c05race", iters)
	cmd.Env = append(os.Environ(), "GORACE=halt_on_error=0 exitcode=66")
	out, err := cmd.CombinedOutput()
	s := string(out)
	if ctx.Err() != nil {
		run.Report("free-running-pass-does-not-end", "the scenario bodies, run free on real goroutines and locks, had not finished after 10 minutes (they take seconds): some of them wait for each other for ever", map[string]any{"kind": "race-pass", "cmd": race + " worker c05race " + iters})
		return
	}
	if strings.Contains(s, "WARNING: DATA RACE") {
		i := strings.Index(s, "WARNING: DATA RACE")
		rep := s[i:]
		if len(rep) > 1500 {
			rep = rep[:1500]
		}
		run.Report("data-race free-running", "the race detector reported a data race while the scenario bodies ran free (sampling pass):\n"+rep, map[string]any{"kind": "race-pass", "cmd": race + " worker c05race " + iters})
		return
	}
	if err != nil {
		ev.Internal("race pass failed: %v: %s", err, tail(out))
	}
	run.Set("race_pass", "free-running -race pass (sampling, supplementary): "+strings.TrimSpace(string(lastLine(out))))
}
