package checks

import (
	"encoding/json"
	"fmt"
	"os"
	"os/exec"
	"path/filepath"
	"strings"
	"sync"

	"github.com/transparency-dev/witness/verifmc/ev"
	"github.com/transparency-dev/witness/verifmc/uni"
	"github.com/transparency-dev/witness/verifmc/wh"
)

const c06Calls = "pwrite64,write,fsync,fdatasync,unlink,unlinkat,ftruncate,openat"

// c06Syscalls (tier 2): SIGKILL on entry to every file syscall that touches
// the database or its rollback journal, injected by strace.
func c06Syscalls(run *ev.Run, u *uni.U, gen *wh.CPGen, la, lb wh.LogCfg, hists []string) int64 {
	if _, err := exec.LookPath("strace"); err != nil {
		run.Set("syscall_tier", "skipped: strace not found")
		return 0
	}
	self, _ := os.Executable()
	scratch := c06Scratch()
	total := int64(0)
	for _, hn := range hists {
		steps := c06History(hn, u, gen, la, lb)
		// Count matching syscalls in a crash-free run.
		ref := filepath.Join(scratch, "sref-"+hn+".db")
		tr := filepath.Join(scratch, "sref-"+hn+".trace")
		cmd := exec.Command("strace", "-f", "-qq", "-e", "trace="+c06Calls, "-P", ref, "-P", ref+"-journal", "-o", tr, self, "worker", "c06run", ref, hn, "-1", "pre")
		if out, err := cmd.CombinedOutput(); err != nil {
			run.Set("syscall_tier", fmt.Sprintf("skipped: strace failed: %v %s", err, tail(out)))
			return total
		}
		b, _ := os.ReadFile(tr)
		var calls []string
		for _, l := range strings.Split(string(b), "\n") {
			f := strings.Fields(l)
			if len(f) < 2 || strings.Contains(l, "+++") || strings.Contains(l, "---") || strings.Contains(l, "resumed>") {
				continue
			}
			name := f[1]
			if i := strings.Index(name, "("); i > 0 {
				calls = append(calls, name[:i])
			}
		}
		os.Remove(ref)
		os.Remove(tr)
		n := len(calls)
		run.Set("file_syscalls["+hn+"]", n)
		if n == 0 {
			run.Set("syscall_tier", "skipped: strace saw no file syscalls")
			return total
		}
		var wg sync.WaitGroup
		sem := make(chan struct{}, workers())
		var mu sync.Mutex
		for k := 1; k <= n; k++ {
			wg.Add(1)
			go func(k int) {
				defer wg.Done()
				sem <- struct{}{}
				defer func() { <-sem }()
				db := filepath.Join(scratch, fmt.Sprintf("c06s-%s-%d.db", hn, k))
				defer func() { os.Remove(db); os.Remove(db + "-journal") }()
				c := exec.Command("strace", "-f", "-qq", "-e", "trace="+c06Calls, "-e", fmt.Sprintf("inject=%s:signal=SIGKILL:when=%d", c06Calls, k),
					"-P", db, "-P", db+"-journal", "-o", "/dev/null", self, "worker", "c06run", db, hn, "-1", "pre")
				o, _ := c.Output()
				vo, err := exec.Command(self, "worker", "c06verify", db).Output()
				var v c06Verify
				if err != nil || json.Unmarshal(lastLine(vo), &v) != nil {
					v.Err = fmt.Sprintf("verify process failed: %v: %s", err, tail(vo))
				}
				mu.Lock()
				if strings.Contains(string(o), "OPS ") {
					// strace's injection counter skips syscalls on the
					// journal fd while its path is not yet resolvable at
					// syscall entry, so the highest indices are never
					// reached: not a crash point, not counted.
					run.Add("syscall_injection_indices_beyond_last_kill", 1)
				} else {
					total++
					run.Add("syscall_crash_points", 1)
					c06Judge(run, u, gen, la, lb, steps, c06Point{hn, k, "entry", "syscall"}, o, v, "file syscall")
				}
				mu.Unlock()
			}(k)
		}
		wg.Wait()
	}
	run.Set("syscall_tier", "ran")
	return total
}

var _ = wh.OK
var _ = uni.ID
var _ = ev.Seed
