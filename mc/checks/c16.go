package checks

import (
	"bytes"
	"context"
	"encoding/json"
	"errors"
	"fmt"
	"io"
	"net/http"
	"os"
	"net/http/httptest"
	"net/url"
	"sort"
	"strings"
	"testing/iotest"

	"github.com/gorilla/mux"
	whttp "github.com/transparency-dev/witness/client/http"
	ihttp "github.com/transparency-dev/witness/internal/http"
	"github.com/transparency-dev/witness/verifmc/ev"
	"github.com/transparency-dev/witness/verifmc/uni"
	"github.com/transparency-dev/witness/verifmc/wh"
)

func init() { Registry["C16"] = c16 }

// handlerTransport serves HTTP requests in process.
// handlerTransport answers from the handler directly. framing is the way the
// answer reaches the client, as net/http may report it: "" = no Content-Length
// (-1), "length" = Content-Length known, "length-bytewise" = known and the
// body arriving one byte per Read.
type handlerTransport struct {
	h       http.Handler
	framing string
}

func (t handlerTransport) RoundTrip(r *http.Request) (*http.Response, error) {
	// As net/http's transport: a request whose context has ended fails.
	if err := r.Context().Err(); err != nil {
		return nil, err
	}
	rec := httptest.NewRecorder()
	t.h.ServeHTTP(rec, r)
	res := rec.Result()
	if t.framing != "" {
		b, _ := io.ReadAll(res.Body)
		res.ContentLength = int64(len(b))
		res.Header.Set("Content-Length", fmt.Sprint(len(b)))
		res.Body = io.NopCloser(bytes.NewReader(b))
		if t.framing == "length-bytewise" {
			res.Body = io.NopCloser(iotest.OneByteReader(bytes.NewReader(b)))
		}
	}
	return res, nil
}

var c16Framings = []string{"", "length", "length-bytewise"}

func c16Get(h http.Handler, path string) (int, string, string) {
	req := httptest.NewRequest(http.MethodGet, "http://witness.test"+path, nil)
	rec := httptest.NewRecorder()
	h.ServeHTTP(rec, req)
	b, _ := io.ReadAll(rec.Result().Body)
	return rec.Code, string(b), rec.Header().Get("Location")
}

func c16Monitor(run *ev.Run, logs []wh.LogCfg) func(*wh.Step) {
	return func(s *wh.Step) {
		e := s.Env
		router := e.X["router"].(http.Handler)
		rep := s.Replay()
		accepted := map[string]bool{}
		for id := range s.After.ByID {
			accepted[id] = true
		}
		for _, l := range logs {
			id := l.ID()
			stored, has := s.After.ByID[id]
			code, body, _ := c16Get(router, "/witness/v0/logs/"+id+"/checkpoint")
			run.Add("reads", 1)
			kind := "stored"
			if !has {
				kind = "empty"
			}
			run.Hist("reads", fmt.Sprintf("%s->%d", kind, code))
			sig := func(k string) string {
				return fmt.Sprintf("%s log-has-checkpoint=%v status=%d store=%s", k, has, code, e.Cfg.Store)
			}
			if has && s.Out.Class == wh.OK && id == s.Req.LogID && e.X["do-is-update"] != nil && body != string(s.Out.Bytes) {
				// The latest cosigned checkpoint is the one the last accepted update returned.
				run.Report(sig("get-checkpoint-is-not-what-the-update-returned"), fmt.Sprintf("after accepted %q: GET checkpoint of %s returns %d bytes that are not the cosigned checkpoint that update returned (%d bytes): the read API serves an older cosignature", s.Req.Label, l.Origin, len(body), len(s.Out.Bytes)), rep)
			}
			if has {
				if code != 200 || body != stored {
					run.Report(sig("get-checkpoint"), fmt.Sprintf("after %q: GET checkpoint of %s returned %d and a body that %s the stored bytes", s.Req.Label, l.Origin, code, map[bool]string{true: "equals", false: "differs from"}[body == stored]), rep)
				}
			} else if code != 404 {
				run.Report(sig("get-checkpoint"), fmt.Sprintf("after %q: GET checkpoint of %s (nothing stored) returned %d %q", s.Req.Label, l.Origin, code, short(body)), rep)
			}
			for _, fr := range c16Framings {
				cl := e.X["client:"+fr].(whttp.Witness)
				got, err := cl.GetLatestCheckpoint(context.Background(), id)
				run.Add("client_reads", 1)
				if has {
					if err != nil || string(got) != stored {
						run.Report(sig("client"), fmt.Sprintf("after %q: client.GetLatestCheckpoint(%s) [answer framing %q] = %d bytes, err=%v; want the stored bytes", s.Req.Label, l.Origin, fr, len(got), err), rep)
					}
				} else if !errors.Is(err, os.ErrNotExist) {
					run.Report(sig("client"), fmt.Sprintf("after %q: client.GetLatestCheckpoint(%s) [answer framing %q] with nothing stored returned err=%v, want os.ErrNotExist", s.Req.Label, l.Origin, fr, err), rep)
				}
			}
		}
		// Log list = exactly the logs with an accepted update.
		code, body, _ := c16Get(router, "/witness/v0/logs")
		var list []string
		if code != 200 || json.Unmarshal([]byte(body), &list) != nil {
			run.Report(fmt.Sprintf("log-list status=%d", code), fmt.Sprintf("after %q: GET logs returned %d %q", s.Req.Label, code, short(body)), rep)
		} else {
			var want []string
			for id := range accepted {
				want = append(want, id)
			}
			sort.Strings(want)
			sort.Strings(list)
			if strings.Join(want, ",") != strings.Join(list, ",") {
				what := "lists a log without an accepted update"
				if len(list) < len(want) {
					what = "misses a log that has an accepted update"
				}
				run.Report("log-list-content "+what+" after="+s.Out.Class, fmt.Sprintf("after %q (%s): log list %v, logs with an accepted update %v", s.Req.Label, s.Out.Class, list, want), rep)
			}
			run.Hist("log_list_sizes", fmt.Sprint(len(list)))
		}
		run.Distinct(fmt.Sprintf("%s|%s|%s", e.Cfg.Store, s.StBefore.Key(), s.StAfter.Key()))
	}
}

// c16Setup mounts the read API on a router and builds the clients.
func c16Setup(e *wh.Env) {
	r := mux.NewRouter()
	ihttp.NewServer(e.W).RegisterHandlers(r)
	e.X["router"] = http.Handler(r)
	e.X["do-is-update"] = true
	base, _ := url.Parse("http://witness.test/")
	for _, fr := range c16Framings {
		e.X["client:"+fr] = whttp.NewWitness(base, &http.Client{Transport: handlerTransport{r, fr}})
	}
}

// c16ManyLogs: the log list as the number of logs grows one accepted first
// submission at a time up to 130 (page sizes, batch limits: 32/33, 64/65,
// 100/101, 128/129 are all crossed): after EVERY acceptance the decoded list
// is exactly the set of logs accepted so far, and each log's checkpoint reads
// back exactly (all of them every 16th step and at the end, the newest one
// every step).
func c16ManyLogs(run *ev.Run, u *uni.U, gen *wh.CPGen, store string, setup func(*wh.Env)) {
	const total = 130
	var many []wh.LogCfg
	for i := 0; i < total; i++ {
		k := u.K1
		if i%3 == 1 {
			k = u.K2
		}
		many = append(many, wh.LogCfg{Origin: fmt.Sprintf("verif.example/many/%03d", i), Key: k})
	}
	e := wh.NewEnv(u, wh.Config{Store: store, Logs: many})
	defer e.Close()
	setup(e)
	router := e.X["router"].(http.Handler)
	cl := e.X["client:"].(whttp.Witness)
	want := map[string]string{}
	for i, l := range many {
		cp, meta := gen.Get(l, u.Main, 1+i%4, "plain")
		out := e.Do(wh.Req{LogID: l.ID(), CP: cp, Meta: meta, Label: "first use"})
		if out.Class != wh.OK {
			ev.Internal("C16 many logs: first use of log %d refused: %v", i, out.Err)
		}
		want[l.ID()] = string(e.Stored(l.ID()))
		rep := map[string]any{"kind": "many-logs", "store": store, "logs": i + 1}
		code, body, _ := c16Get(router, "/witness/v0/logs")
		var list []string
		if code != 200 || json.Unmarshal([]byte(body), &list) != nil {
			run.Report(fmt.Sprintf("log-list status=%d logs=many", code), fmt.Sprintf("%s store, %d logs: GET logs returned %d %q", store, i+1, code, short(body)), rep)
			return
		}
		sort.Strings(list)
		var ids []string
		for id := range want {
			ids = append(ids, id)
		}
		sort.Strings(ids)
		run.Add("many_logs_list_reads", 1)
		if strings.Join(list, ",") != strings.Join(ids, ",") {
			run.Report("log-list-content many-logs store="+store, fmt.Sprintf("%s store: with %d logs accepted the log list has %d entries (%d distinct) and is not the accepted set", store, i+1, len(list), len(uniq(list))), rep)
			return
		}
		check := []string{l.ID()}
		if (i+1)%16 == 0 || i == total-1 {
			check = ids
		}
		for _, id := range check {
			code, body, _ := c16Get(router, "/witness/v0/logs/"+id+"/checkpoint")
			got, err := cl.GetLatestCheckpoint(context.Background(), id)
			run.Add("many_logs_checkpoint_reads", 1)
			if code != 200 || body != want[id] || err != nil || string(got) != want[id] {
				run.Report("get-checkpoint many-logs store="+store, fmt.Sprintf("%s store, %d logs: checkpoint of %.8s read back as status %d / client err %v, bytes exact: %v / %v", store, i+1, id, code, err, body == want[id], string(got) == want[id]), rep)
				return
			}
		}
	}
}

// c16ReducedConfig: two logs hold a checkpoint; the witness is started again on
// the same store with a configuration that no longer names one of them. What
// the witness holds is what the store holds: the log list still names both and
// both checkpoints are served byte-identical (raw GET and bundled client).
func c16ReducedConfig(run *ev.Run, u *uni.U, gen *wh.CPGen, store string, setup func(*wh.Env)) {
	la := wh.LogCfg{Origin: "verif.example/reduced/kept", Key: u.K1}
	lb := wh.LogCfg{Origin: "verif.example/reduced/dropped", Key: u.K2}
	e := wh.NewEnv(u, wh.Config{Store: store, Logs: []wh.LogCfg{la, lb}})
	defer e.Close()
	want := map[string]string{}
	for _, l := range []wh.LogCfg{la, lb} {
		cp, meta := gen.Get(l, u.Main, 3, "plain")
		if out := e.Do(wh.Req{LogID: l.ID(), CP: cp, Meta: meta}); out.Class != wh.OK {
			return // first use refused: C08/C09's subject
		}
		want[l.ID()] = string(e.Stored(l.ID()))
	}
	e.RestartWithout(lb.ID())
	setup(e)
	router := e.X["router"].(http.Handler)
	cl := e.X["client:"].(whttp.Witness)
	rep := map[string]any{"kind": "reduced-config", "store": store}
	code, body, _ := c16Get(router, "/witness/v0/logs")
	var list []string
	_ = json.Unmarshal([]byte(body), &list)
	sort.Strings(list)
	ids := []string{la.ID(), lb.ID()}
	sort.Strings(ids)
	if code != 200 || strings.Join(list, ",") != strings.Join(ids, ",") {
		run.Report("log-list-content reduced-config store="+store, fmt.Sprintf("%s store: restarted with a configuration that dropped one of two logs that hold a checkpoint, the log list is %d %v, want both logs", store, code, list), rep)
	}
	for _, l := range []wh.LogCfg{la, lb} {
		code, body, _ := c16Get(router, "/witness/v0/logs/"+l.ID()+"/checkpoint")
		got, err := cl.GetLatestCheckpoint(context.Background(), l.ID())
		run.Add("reduced_config_reads", 1)
		if code != 200 || body != want[l.ID()] || err != nil || string(got) != want[l.ID()] {
			run.Report(fmt.Sprintf("get-checkpoint reduced-config status=%d", code), fmt.Sprintf("%s store: the witness holds a cosigned checkpoint of %s (the log list names it); restarted with a configuration %s, GET answers %d (bytes exact: %v), the bundled client err=%v", store, l.Origin, map[bool]string{true: "that no longer names it", false: "that still names it"}[l.ID() == lb.ID()], code, body == want[l.ID()], err), rep)
		}
	}
}

// c16ReadSoak: reads that add up - 300 rounds of {a log that holds nothing, an
// unknown ID, a log that holds a checkpoint, the log list} on one server; the
// answers of the last round are the answers of the first.
func c16ReadSoak(run *ev.Run, u *uni.U, gen *wh.CPGen, store string, setup func(*wh.Env)) {
	la := wh.LogCfg{Origin: "verif.example/soak/held", Key: u.K1}
	lb := wh.LogCfg{Origin: "verif.example/soak/empty", Key: u.K2}
	e := wh.NewEnv(u, wh.Config{Store: store, Logs: []wh.LogCfg{la, lb}})
	defer e.Close()
	setup(e)
	router := e.X["router"].(http.Handler)
	cl := e.X["client:"].(whttp.Witness)
	cp, meta := gen.Get(la, u.Main, 3, "plain")
	if out := e.Do(wh.Req{LogID: la.ID(), CP: cp, Meta: meta}); out.Class != wh.OK {
		return // first use refused: C08/C09's subject
	}
	want := string(e.Stored(la.ID()))
	unknown := uni.ID("verif.example/soak/never-configured")
	for i := 1; i <= 300; i++ {
		rep := map[string]any{"kind": "read-soak", "store": store, "round": i}
		c1, _, _ := c16Get(router, "/witness/v0/logs/"+lb.ID()+"/checkpoint")
		c2, _, _ := c16Get(router, "/witness/v0/logs/"+unknown+"/checkpoint")
		c3, b3, _ := c16Get(router, "/witness/v0/logs/"+la.ID()+"/checkpoint")
		c4, b4, _ := c16Get(router, "/witness/v0/logs")
		got, err := cl.GetLatestCheckpoint(context.Background(), la.ID())
		_, errE := cl.GetLatestCheckpoint(context.Background(), lb.ID())
		run.Add("read_soak_requests", 6)
		var list []string
		_ = json.Unmarshal([]byte(b4), &list)
		if c1 != 404 || c2 != 404 || c3 != 200 || b3 != want || c4 != 200 || len(list) != 1 || list[0] != la.ID() || err != nil || string(got) != want || !os.IsNotExist(errE) {
			run.Report(fmt.Sprintf("reads-change-after-many-reads empty=%d unknown=%d held=%d list=%d", c1, c2, c3, c4), fmt.Sprintf("%s store: in round %d of {empty log, unknown ID, held log, log list} the answers were %d / %d / %d (bytes exact: %v) / %d (%d entries), client: err=%v, empty-log err=%v; want 404 / 404 / 200 exact / 200 with one entry, nil, does-not-exist", store, i, c1, c2, c3, b3 == want, c4, len(list), err, errE), rep)
			return
		}
	}
}

func uniq(l []string) map[string]bool {
	m := map[string]bool{}
	for _, x := range l {
		m[x] = true
	}
	return m
}

// c16OddIDs: requests naming unknown and syntactically odd IDs never yield 200.
func c16OddIDs(run *ev.Run, e *wh.Env, logs []wh.LogCfg) {
	router := e.X["router"].(http.Handler)
	known := logs[0].ID()
	odd := map[string]string{
		"unknown hex":       uni.ID("verif.example/none"),
		"prefix":            known[:len(known)-1],
		"suffix":            known[1:],
		"upper case":        strings.ToUpper(known),
		"known + x":         known + "0",
		"dash":              "-",
		"underscore":        "a_b",
		"dot":               "a.b",
		"dotdot":            "..",
		"slash":             "a/b",
		"encoded dotdot":    "%2e%2e",
		"encoded slash":     known + "%2F",
		"encoded slash mid": "a%2Fb",
		"300 hex digits":    strings.Repeat("ab", 150),
		"known + slash":     known + "/",
		"empty":             "",
		"space":             "a%20b",
		"nul":               "a%00b",
		"unicode":           "%E2%80%94",
		"plus":              known + "+",
	}
	var all []string
	for _, l := range logs {
		all = append(all, string(e.Stored(l.ID())))
	}
	for name, id := range odd {
		path := "/witness/v0/logs/" + id + "/checkpoint"
		req, err := http.NewRequest(http.MethodGet, "http://witness.test"+path, nil)
		if err != nil {
			run.Hist("odd_ids", name+"->unbuildable")
			continue
		}
		rec := httptest.NewRecorder()
		router.ServeHTTP(rec, req)
		code := rec.Code
		body := rec.Body.String()
		// Follow one redirect (mux cleans paths with 301).
		if code == 301 || code == 308 {
			loc := rec.Header().Get("Location")
			if u, err := url.Parse(loc); err == nil {
				c2, b2, _ := c16Get(router, u.RequestURI())
				code, body = c2, b2
				name += " (after redirect)"
			}
		}
		run.Add("odd_id_reads", 1)
		run.Hist("odd_ids", fmt.Sprintf("%s->%d", name, code))
		served := -1
		for li, st := range all {
			if st != "" && strings.Contains(body, st) {
				served = li
			}
		}
		if code == 200 || served >= 0 {
			// Path cleaning by the router may turn "<known id>/" or
			// "<known id>%2F" into the known id: that is the named log's own
			// checkpoint. Anything else served is another log's checkpoint.
			dec, _ := url.PathUnescape(id)
			if !(served >= 0 && strings.Trim(dec, "/") == logs[served].ID()) {
				run.Report("odd-id-served name="+strings.Fields(name)[0], fmt.Sprintf("GET %s (%s) answered %d with a stored checkpoint / success", path, name, code), map[string]any{"kind": "http-get", "path": path})
			}
		}
		clean := !strings.ContainsAny(id, "/%. _+") && id != "" && id != "-"
		if clean && code != 404 {
			run.Report(fmt.Sprintf("odd-id-status name=%s status=%d", strings.Fields(name)[0], code), fmt.Sprintf("GET %s (%s, a clean single path segment naming no log) answered %d, want 404", path, name, code), map[string]any{"kind": "http-get", "path": path})
		}
	}
}

func c16(tier string) int {
	run := ev.NewRun("C16", tier, "model_checking")
	wh.InstallLogicalClock()
	n := 5
	if tier == "thorough" {
		n = 8
	}
	u := uni.New(ev.Seed(), n, []int{0, 2})
	gen := wh.NewCPGen(u)
	la := wh.LogCfg{Origin: logA(), Key: u.K1}
	// Log B's origin carries characters that matter to formatting, routing and
	// escaping code (%, space, non-ASCII); its ID is still a hex digest.
	lb := wh.LogCfg{Origin: logB() + " 100%sure %25 %d \u2014 caf\u00e9", Key: u.K2}
	lc := wh.LogCfg{Origin: logC(), Key: u.K1}
	logs := []wh.LogCfg{la, lb, lc}
	setup := c16Setup
	cpB, mB := gen.Get(lb, u.Main, 2, "plain")
	prelude := []wh.Req{{LogID: lb.ID(), CP: cpB, Meta: mB, Label: "prelude: first use of log B"}}
	states, trans := 0, int64(0)
	for _, store := range []string{"mem", "sql"} {
		// bigextK: stored checkpoints of > 16 KiB, > 64 KiB and (thorough) close
		// to the note format's 1 MB limit, read back through handler and client.
		shapes := []string{"plain", "ext", "bigext17", "bigext70"}
		if tier == "thorough" {
			shapes = append(shapes, "bigext900")
		}
		alpha := wh.AlphaOpts{MaxN: n, Forged: true, RichProof: false, HugeOlds: true, Shapes: shapes}
		fn := func(st wh.MState) []wh.Req {
			reqs := wh.Alphabet(gen, la, st, alpha)
			// Refused first submissions for log C (never has a checkpoint).
			reqs = append(reqs, gen.Forged(lc, u.Main, 3)...)
			// A first submission refused only after the store was opened for
			// writing (its cosigned form would exceed the note format's limit).
			cpJ, mJ := gen.Get(lc, u.Main, 2, "junk99")
			reqs = append(reqs, wh.Req{LogID: lc.ID(), CP: cpJ, Meta: mJ, Label: "log C first submission with 99 extra signature lines (refused after WriteOps)"})
			cpX, mX := gen.Get(la, u.Main, 3, "plain")
			reqs = append(reqs, wh.Req{LogID: lc.ID(), CP: cpX, Meta: mX, Label: "log A's checkpoint submitted under log C's ID (same key, other origin)"})
			return reqs
		}
		st, tr := wh.Search(wh.SearchOpts{U: u, Gen: gen, Store: store, Log: la, Extra: []wh.LogCfg{lb, lc}, AlphaFn: fn, Prelude: prelude,
			Workers: workers(), OnStep: c16Monitor(run, logs), Run: run, SetupFn: setup})
		states += st
		trans += tr
		// Odd IDs on an environment with two stored logs.
		e := wh.NewEnv(u, wh.Config{Store: store, Logs: logs})
		setup(e)
		e.Do(prelude[0])
		cpA, mA := gen.Get(la, u.Main, 3, "plain")
		e.Do(wh.Req{LogID: la.ID(), CP: cpA, Meta: mA})
		c16OddIDs(run, e, logs)
		c16ManyLogs(run, u, gen, store, setup)
		c16ReadSoak(run, u, gen, store, setup)
		c16ReducedConfig(run, u, gen, store, setup)
		e.Close()
	}
	// Fault leg: reads under storage faults - never wrong bytes, never 'not
	// found' for a log that holds a checkpoint.
	runFaults(run, "C16", tier, false)
	// Upgrade leg: what an earlier release stored is served.
	legacyDBLeg(run, "C16")
	// Concurrent leg: reads overlapping an update on a freshly restarted witness.
	c05Concurrent(run, "C16", tier)
	for _, k := range []string{"stored->200", "empty->404"} {
		if run.HistGet("reads", k) == 0 {
			run.Vacuous("read class %s never observed", k)
		}
	}
	run.Sample(map[string]any{"after_every_transition": "GET /witness/v0/logs/<id>/checkpoint for 3 logs through the mux router and through client/http.Witness, GET /witness/v0/logs"})
	run.Set("states", states)
	run.Set("transitions", trans)
	run.Set("traces_validated_against_impl", trans)
	run.Set("evaluations", trans)
	run.Set("exhaustive", true)
	run.Set("rule", fmt.Sprintf("explicit-state BFS over a three-log witness (IDs from the repository's origin-to-ID function; log B holds a checkpoint, log C never gets one and receives refused submissions), sizes 0..%d, checkpoint shapes plain / two extension lines (with %% and non-ASCII) / 17 KiB, 70 KiB and (thorough) 900 KiB of extension lines, both stores; after EVERY transition, through the router built by RegisterHandlers and through client/http.Witness (answers framed without Content-Length, with it, and with it arriving one byte per Read): GET checkpoint of each log = 200 + exactly the stored bytes or 404 iff none, client returns the bytes / os.ErrNotExist, the log list decodes to exactly the logs with an accepted update; plus 20 unknown / odd IDs that must never be answered with a stored checkpoint. In addition, on both stores, 130 logs accepted one at a time: after every acceptance the list is exactly the accepted set and the checkpoints read back exactly. distinct_nontrivial = distinct (store, state before, state after)", n))
	return run.Finish()
}
