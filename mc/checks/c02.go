package checks

import (
	"crypto/ed25519"
	"encoding/base64"
	"encoding/binary"
	"fmt"
	"strings"
	"sync"

	"github.com/transparency-dev/witness/verifmc/ev"
	"github.com/transparency-dev/witness/verifmc/uni"
	"github.com/transparency-dev/witness/verifmc/wh"
)

func init() { Registry["C02"] = c02 }

// pubKeyOf extracts the raw Ed25519 public key from a note verifier key.
func pubKeyOf(vkey string) ed25519.PublicKey {
	parts := strings.SplitN(vkey, "+", 3)
	b, err := base64.StdEncoding.DecodeString(parts[2])
	if err != nil || len(b) != 33 || b[0] != 1 {
		panic("unexpected verifier key format")
	}
	return ed25519.PublicKey(b[1:])
}

// authentic decides, independently of x/mod/note and formats/log, whether msg
// carries a valid Ed25519 signature by key k over its text, using
// crypto/ed25519 directly. It returns the text and its first line.
func authentic(msg []byte, k uni.Key) (text, first string, validSig bool, isNote bool) {
	text, sigs, ok := uni.SplitNote(msg)
	if !ok {
		return "", "", false, false
	}
	first, _, _ = strings.Cut(text, "\n")
	pk := pubKeyOf(k.VKey)
	for _, l := range sigs {
		rest, ok := strings.CutPrefix(l, "— ")
		if !ok {
			continue
		}
		name, b64, ok := strings.Cut(rest, " ")
		if !ok || name != k.Verif.Name() {
			continue
		}
		raw, err := base64.StdEncoding.DecodeString(b64)
		if err != nil || len(raw) != 4+ed25519.SignatureSize || binary.BigEndian.Uint32(raw) != k.Verif.KeyHash() {
			continue
		}
		if ed25519.Verify(pk, []byte(text), raw[4:]) {
			return text, first, true, true
		}
	}
	return text, first, false, true
}

type c02Case struct {
	Label string
	ID    string
	Old   uint64
	CP    []byte
	Proof [][]byte
}

// lineEdits produces signature-block and body-line edits of a valid checkpoint.
func c02LineEdits(u *uni.U, l wh.LogCfg, other uni.Key, b *uni.Branch, n int, cp []byte) map[string][]byte {
	text, sigs, _ := uni.SplitNote(cp)
	lines := strings.Split(strings.TrimSuffix(text, "\n"), "\n")
	join := func(ls []string, sg []string) []byte {
		return []byte(strings.Join(ls, "\n") + "\n\n" + strings.Join(sg, "\n") + "\n")
	}
	with := func(i int, v string) []string {
		c := append([]string{}, lines...)
		c[i] = v
		return c
	}
	out := map[string][]byte{}
	out["size+1"] = join(with(1, fmt.Sprint(n+1)), sigs)
	out["size-1"] = join(with(1, fmt.Sprint(n-1)), sigs)
	out["size leading zero"] = join(with(1, "0"+lines[1]), sigs)
	out["root changed"] = join(with(2, base64.StdEncoding.EncodeToString(b.Root(n+1))), sigs)
	out["origin changed"] = join(with(0, lines[0]+"x"), sigs)
	out["origin case"] = join(with(0, strings.ToUpper(lines[0])), sigs)
	out["origin trailing space"] = join(with(0, lines[0]+" "), sigs)
	out["extension line added"] = join(append(append([]string{}, lines...), "extra"), sigs)
	if len(lines) > 3 {
		out["extension line removed"] = join(lines[:len(lines)-1], sigs)
		sw := append([]string{}, lines...)
		sw[len(sw)-1], sw[len(sw)-2] = sw[len(sw)-2], sw[len(sw)-1]
		out["extension lines reordered"] = join(sw, sigs)
	}
	out["signature line dropped"] = join(lines, sigs[1:])
	out["no signature block"] = []byte(text)
	out["signature line duplicated (same)"] = join(lines, append([]string{sigs[0]}, sigs...))
	renamed := strings.Replace(sigs[0], l.Key.Name, l.Key.Name+"x", 1)
	out["signature line renamed"] = join(lines, append([]string{renamed}, sigs[1:]...))
	// key hash changed: flip a bit in the first 4 decoded bytes.
	{
		rest, _ := strings.CutPrefix(sigs[0], "— ")
		name, b64, _ := strings.Cut(rest, " ")
		raw, _ := base64.StdEncoding.DecodeString(b64)
		raw[0] ^= 1
		out["key hash changed"] = join(lines, append([]string{"— " + name + " " + base64.StdEncoding.EncodeToString(raw)}, sigs[1:]...))
	}
	out["signature moved above blank line"] = []byte(text + sigs[0] + "\n\n" + strings.Join(sigs[1:], "\n") + "\n")
	// other key's signature over the same text, under its own name.
	otherSigned := u.Sign(text+"", other.Signer)
	_, osigs, _ := uni.SplitNote(otherSigned)
	out["only other key's signature"] = join(lines, osigs)
	// other key's signature bytes under the log's name and key hash.
	{
		rest, _ := strings.CutPrefix(osigs[0], "— ")
		_, b64, _ := strings.Cut(rest, " ")
		raw, _ := base64.StdEncoding.DecodeString(b64)
		out["other key's signature under the log's name"] = join(lines, []string{strings.TrimSuffix(uni.SigLine(l.Key.Verif.Name(), l.Key.Verif.KeyHash(), raw[4:]), "\n")})
	}
	// witness's own signature only.
	ws := u.Sign(text, u.W1.Signer, u.W1.CosigSigner)
	_, wsigs, _ := uni.SplitNote(ws)
	out["witness's own signatures only"] = join(lines, wsigs)
	out["CRLF line ends"] = []byte(strings.ReplaceAll(string(cp), "\n", "\r\n"))
	out["trailing garbage"] = append(append([]byte{}, cp...), []byte("garbage\n")...)
	return out
}

func c02(tier string) int {
	run := ev.NewRun("C02", tier, "exploration")
	wh.InstallLogicalClock()
	u := uni.New(ev.Seed(), 8, []int{0})
	gen := wh.NewCPGen(u)
	la := wh.LogCfg{Origin: logA(), Key: u.K1}
	lb := wh.LogCfg{Origin: logB(), Key: u.K2}
	lc := wh.LogCfg{Origin: logC(), Key: u.K1} // same key as A, other origin
	ld := wh.LogCfg{Origin: "verif.example/elsewhere", Key: u.K2}
	// Same key NAME as log A, different key material (so a different key hash).
	k1b := uni.NewKey(u.K1.Name, ev.Seed()+7919)
	le := wh.LogCfg{Origin: "verif.example/log-e", Key: k1b}
	// Two individually valid keys with the same name AND the same 32-bit key
	// hash (a birthday pair, from seeded change C02-s12): name+hash is what a
	// signature line carries, so anything that identifies a key by it - a
	// verifier shared between configuration entries, a table keyed by it -
	// lets one log's key sign for the other.
	kca := uni.KeyFromStrings("PRIVATE+KEY+shard.example.org/log+adc3429b+AQQgMEEeQig6Gf/ybpSX+eOoiEU8RUQFPyBWmUoSFR3B", "shard.example.org/log+adc3429b+AV5NRznS/fO0hsaPKwHY1dqKPkcy7dULZ4IoMd3NCbmN")
	kcb := uni.KeyFromStrings("PRIVATE+KEY+shard.example.org/log+adc3429b+ASYhVamJD1afzEJ+x5MjteJPXWkuX6HPRD4HkSfWgNbd", "shard.example.org/log+adc3429b+ASCVDCI68JupgCmpFgr8fD5lr5Uge8IwDjYCvyFDYvCb")
	if wh.KeyID(kca.Verif) != wh.KeyID(kcb.Verif) || kca.VKey == kcb.VKey {
		ev.Internal("C02: the colliding key pair does not collide")
	}
	configs := map[string][]wh.LogCfg{
		"2 logs, same key name and same key hash, different keys": {{Origin: "shard.example.org/log - 1", Key: kca}, {Origin: "shard.example.org/log - 2", Key: kcb}},
		"1 log":                                 {la},
		"2 logs distinct keys":                  {la, lb},
		"3 logs, two sharing one key":           {la, lc, lb},
		"2 logs, same key name, different keys": {la, le},
		// The same origin as log A under a NEW key (a key rotation, or a second
		// configuration loaded in the same process): nothing remembered from
		// the other configurations may leak into this one.
		"log A re-keyed": {{Origin: la.Origin, Key: k1b}},
		// Two IDs configured with ONE origin line and different keys
		// (witness.Opts.KnownLogs allows it): the key is configured per ID,
		// not per origin.
		"2 IDs, one origin, different keys": {{Origin: la.Origin, Key: u.K1, CustomID: "twin-a"}, {Origin: la.Origin, Key: u.K2, CustomID: "twin-b"}},
	}
	confNames := []string{"1 log", "2 logs distinct keys", "3 logs, two sharing one key", "2 logs, same key name, different keys", "log A re-keyed", "2 IDs, one origin, different keys", "2 logs, same key name and same key hash, different keys"}
	subst := []byte{0x00, '\n', ' ', 0x7f, 0x80, 0xff, '+', 0xe2}
	stores := []string{"mem"}
	if tier == "thorough" {
		stores = []string{"mem", "sql"}
	}
	var mu sync.Mutex
	var evals int64
	seedFail := ""
	judge := func(e *wh.Env, cfgName string, c c02Case, seeded bool, seedAt int) {
		before := e.Snap()
		out := e.Do(wh.Req{LogID: c.ID, Old: c.Old, CP: c.CP, Proof: c.Proof})
		after := e.Snap()
		mu.Lock()
		evals++
		mu.Unlock()
		lc, known := e.LogByID[c.ID]
		changed := !after.Equal(before)
		accepted := out.Err == nil || changed
		rep := map[string]any{"kind": "witness-path", "store": e.Cfg.Store, "config": cfgName, "seeded": seeded, "seed_size": seedAt,
			"request": map[string]any{"log_id": c.ID, "old": fmt.Sprint(c.Old), "cp_b64": base64.StdEncoding.EncodeToString(c.CP), "label": c.Label}}
		sig := func(k string) string {
			st := ""
			if seeded && seedAt != 2 {
				st = fmt.Sprintf(" stored-size=%d", seedAt)
			}
			return fmt.Sprintf("%s config=%s edit=%s%s", k, cfgName, editClass(c.Label), st)
		}
		cls := "refused"
		if accepted {
			cls = "accepted"
		}
		run.Hist("outcomes", editClass(c.Label)+" -> "+cls)
		if !known {
			if accepted || out.Bytes != nil {
				run.Report(sig("unknown-id-not-refused"), fmt.Sprintf("%s: submission under an ID that is not configured was not refused outright (err=%v)", c.Label, out.Err), rep)
			}
			return
		}
		text, first, valid, isNote := authentic(c.CP, lc.Key)
		mustRefuse := !isNote || !valid || !u.WasSigned(lc.Key.Verif, text) || first != lc.Origin
		if accepted {
			// Positive direction: whatever is stored/cosigned is authentic.
			stored := after.ByID[c.ID]
			stext, _, ok := uni.SplitNote([]byte(stored))
			sfirst, _, _ := strings.Cut(stext, "\n")
			if !ok || !u.WasSigned(lc.Key.Verif, stext) || sfirst != lc.Origin {
				run.Report(sig("stored-unauthentic"), fmt.Sprintf("%s: the witness stored/cosigned for %s a text that the configured key never signed or whose first line is not the configured origin", c.Label, lc.Origin), rep)
				return
			}
			if !mustRefuse && stext != text {
				// An authentic submission was accepted: what is stored and
				// cosigned must be THAT text, not another one (even one the
				// log signed at some other time).
				run.Report(sig("stored-other-text-than-submitted"), fmt.Sprintf("%s: accepted, but the witness stored/cosigned a text that differs from the submitted one", c.Label), rep)
				return
			}
			for id, v := range before.ByID {
				if id != c.ID && after.ByID[id] != v {
					run.Report(sig("other-log-changed"), fmt.Sprintf("%s: another log's state changed", c.Label), rep)
				}
			}
			if mustRefuse {
				why := "no valid signature by the configured key"
				switch {
				case !isNote:
					why = "not a note"
				case valid && first != lc.Origin:
					why = "first line is not the configured origin"
				}
				run.Report(sig("accepted-unauthentic"), fmt.Sprintf("%s (%s) was accepted for %s", c.Label, why, lc.Origin), rep)
			}
			return
		}
		if mustRefuse && out.Bytes != nil && string(out.Bytes) != before.ByID[c.ID] {
			run.Report(sig("bytes-with-refusal"), fmt.Sprintf("%s: refusal returned bytes that are not the stored checkpoint", c.Label), rep)
		}
	}

	type job struct {
		cfgName string
		store   string
		seeded  bool
		// seedAt / subAt: size every log holds when seeded, and the size of the
		// submitted seeds: (2,4) growth; (4,4) and (0,0) same-size
		// re-submission (the path that needs no consistency proof).
		seedAt, subAt int
		cases         []c02Case
	}
	var jobs []job
	for _, store := range stores {
		for _, cn := range confNames {
			logs := configs[cn]
			for _, mode := range [][2]int{{-1, 4}, {2, 4}, {4, 4}, {0, 0}} {
				seeded, seedAt, subAt := mode[0] >= 0, mode[0], mode[1]
				refresh := seeded && seedAt == subAt
				old, proof := uint64(0), [][]byte{}
				if seeded {
					old, proof = uint64(seedAt), u.Main.Proof(seedAt, subAt)
				}
				var cases []c02Case
				add := func(label string, id string, cp []byte) {
					cases = append(cases, c02Case{Label: label, ID: id, Old: old, CP: cp, Proof: proof})
				}
				shapes := []string{"plain", "ext", "otherlog", "stale-own-valid", "sizepad", "looseb64"}
				if refresh {
					shapes = []string{"plain", "ext"}
				}
				// The seeds are checkpoints of the first configured log (log A's
				// origin in every configuration), signed with ITS configured key.
				la := logs[0]
				for _, shape := range shapes {
					seed, _ := gen.Get(la, u.Main, subAt, shape)
					add("valid "+shape, la.ID(), seed)
					// byte-level 1-edit neighbourhood.
					for i := 0; i <= len(seed); i++ {
						add(fmt.Sprintf("%s: prefix of %d bytes", shape, i), la.ID(), seed[:i])
					}
					step := 1
					if false {
						step = 3 // covering subset of positions for the richer shapes in the quick tier
					}
					for i := 0; i < len(seed); i += step {
						for bit := 0; bit < 8; bit++ {
							m := append([]byte{}, seed...)
							m[i] ^= 1 << bit
							add(fmt.Sprintf("%s: bit %d of byte %d flipped", shape, bit, i), la.ID(), m)
						}
						for _, s := range subst {
							if seed[i] == s {
								continue
							}
							m := append([]byte{}, seed...)
							m[i] = s
							add(fmt.Sprintf("%s: byte %d replaced by 0x%02x", shape, i, s), la.ID(), m)
						}
						add(fmt.Sprintf("%s: byte %d deleted", shape, i), la.ID(), append(append([]byte{}, seed[:i]...), seed[i+1:]...))
					}
					for name, m := range c02LineEdits(u, la, u.K2, u.Main, subAt, seed) {
						add(shape+": line edit: "+name, la.ID(), m)
					}
				}
				// Cross-log replays: every log's checkpoints under every other ID,
				// plus unknown IDs. The sources include logs that are configured
				// nowhere but are validly signed with A's key under origins that
				// are NEAR A's origin (byte extensions, a prefix, case, spacing):
				// "a correctly signed checkpoint of a different origin that
				// shares the same key".
				all := append(append([]wh.LogCfg{}, logs...), ld)
				for _, near := range []string{la.Origin + "0", la.Origin + " ", la.Origin + "/x", la.Origin + "\t", la.Origin[:len(la.Origin)-1], strings.ToUpper(la.Origin), " " + la.Origin, la.Origin + ".", strings.Replace(la.Origin, "/", "//", 1)} {
					all = append(all, wh.LogCfg{Origin: near, Key: la.Key})
				}
				ids := []string{}
				for _, l := range logs {
					ids = append(ids, l.ID())
				}
				ids = append(ids, ld.ID(), "0000", "", uni.ID("verif.example/never"))
				// Spellings NEAR a configured ID are unknown IDs too: other case,
				// surrounding space, one character less or more, URL-escaped.
				for _, l := range logs {
					id := l.ID()
					ids = append(ids, strings.ToUpper(id), strings.ToUpper(id[:1])+id[1:], id+" ", " "+id, id[:len(id)-1], id+"0", id+"/", "%"+id, id+"\x00")
				}
				// Impostors: the origin of a configured log, signed only with a key
				// that is NOT configured for it (every other configured key, the
				// second universe key and the same-name key), under that log's ID.
				for _, t := range logs {
					for _, k := range []uni.Key{u.K1, u.K2, k1b, kca, kcb} {
						if k.VKey == t.Key.VKey {
							continue
						}
						src := wh.LogCfg{Origin: t.Origin, Key: k}
						for _, n := range []int{0, 2, 4, 6} {
							cp, _ := gen.Get(src, u.Main, n, "plain")
							cases = append(cases, c02Case{Label: fmt.Sprintf("cross-log: impostor: origin %s@%d signed only by key %s (not that log's key) under its own ID", t.Origin, n, wh.KeyID(k.Verif)), ID: t.ID(), Old: old, CP: cp, Proof: u.Main.Proof(int(old), n)})
						}
					}
				}
				for _, src := range all {
					if refresh {
						break // the cross-log product is explored in the first two states
					}
					for _, n := range []int{0, 2, 4, 6} {
						for _, shape := range []string{"plain", "otherlog"} {
							cp, _ := gen.Get(src, u.Main, n, shape)
							for _, id := range ids {
								if id == src.ID() {
									continue
								}
								cases = append(cases, c02Case{Label: fmt.Sprintf("cross-log: checkpoint of %s@%d (%s) submitted under ID %.8s", src.Origin, n, shape, id), ID: id, Old: old, CP: cp, Proof: u.Main.Proof(int(old), n)})
							}
						}
					}
				}
				jobs = append(jobs, job{cn, store, seeded, seedAt, subAt, cases})
			}
		}
	}
	ch := make(chan struct {
		j  job
		lo int
		hi int
	})
	var wg sync.WaitGroup
	for w := 0; w < workers(); w++ {
		wg.Add(1)
		go func() {
			defer wg.Done()
			for part := range ch {
				logs := configs[part.j.cfgName]
				mk := func() *wh.Env {
					e := wh.NewEnv(u, wh.Config{Store: part.j.store, Logs: logs})
					if e.ConfigDiff != "" {
						run.Report("log-map-differs-from-configuration config="+part.j.cfgName, fmt.Sprintf("configuration %q: %s", part.j.cfgName, e.ConfigDiff), map[string]any{"kind": "config-map", "config": part.j.cfgName})
						return e
					}
					if part.j.seeded {
						for _, l := range logs {
							cp, meta := gen.Get(l, u.Main, part.j.seedAt, "plain")
							if out := e.Do(wh.Req{LogID: l.ID(), CP: cp, Meta: meta}); out.Class != wh.OK {
								// Not fatal at once: a change that makes the witness refuse
								// an honest checkpoint here (a verifier mixed up between
								// logs) is the kind that also accepts a wrong one, and the
								// cases below must still run. Without any report at the
								// end, a failed seeding is an internal error as before.
								mu.Lock()
								if seedFail == "" {
									seedFail = fmt.Sprintf("C02 seeding failed (%s, %s, size %d): %v", part.j.cfgName, l.Origin, part.j.seedAt, out.Err)
								}
								mu.Unlock()
							}
						}
					}
					return e
				}
				e := mk()
				if e.ConfigDiff != "" {
					e.Close()
					continue // reported; this configuration cannot be explored
				}
				for _, c := range part.j.cases[part.lo:part.hi] {
					b := e.Snap()
					judge(e, part.j.cfgName, c, part.j.seeded, part.j.seedAt)
					if !e.Snap().Equal(b) {
						e.Close()
						e = mk()
					}
					run.Distinct(fmt.Sprintf("%s|%v@%d|%s", part.j.cfgName, part.j.seeded, part.j.seedAt, c.Label))
				}
				e.Close()
			}
		}()
	}
	for _, j := range jobs {
		const chunk = 4000
		for lo := 0; lo < len(j.cases); lo += chunk {
			hi := lo + chunk
			if hi > len(j.cases) {
				hi = len(j.cases)
			}
			ch <- struct {
				j  job
				lo int
				hi int
			}{j, lo, hi}
		}
	}
	close(ch)
	wg.Wait()
	if seedFail != "" && run.Violations() == 0 {
		ev.Internal("%s", seedFail)
	}
	run.Sample(map[string]any{"config": "3 logs, two sharing one key", "case": "plain: bit 3 of byte 57 flipped", "oracle": "if accepted or state changed: stored text must be in the set of texts the harness signed with that ID's key and its first line that ID's origin"})
	run.Sample(map[string]any{"config": "3 logs, two sharing one key", "case": "cross-log: checkpoint of verif.example/log-a@4 submitted under the ID of verif.example/log-c (same key, other origin)"})
	for _, k := range []string{"valid -> accepted", "bit-flip -> refused", "cross-log -> refused", "line-edit -> refused", "prefix -> refused"} {
		if run.HistGet("outcomes", k) == 0 {
			run.Vacuous("outcome class %q never observed", k)
		}
	}
	run.Set("evaluations", evals)
	run.Set("exhaustive", true)
	run.Set("rule", "for 7 configurations - six built through the repository's own AsLogMap in one process, one with hand-picked IDs (two IDs, one origin line, different keys) - (1 log; 2 logs distinct keys; 3 logs of which two share one key under different origins; 2 logs whose keys have the same name but different key material; 2 logs whose keys have the same name AND the same 32-bit key hash but different key material; log A under a new key) x {empty witness, every log holding a smaller checkpoint (growth), every log holding a checkpoint of the submitted size 4 and of size 0 (same-size re-submission: no consistency proof involved; seeds plain and with extension lines, without the cross-log product)} x 6 seed checkpoints (plain, extension lines, extra signature by another configured log, already cosigned, size with a leading zero, root with non-zero base64 padding bits): the complete byte-level 1-edit neighbourhood (every prefix, every single-bit flip, 8 boundary substitutions and deletion at every byte), 25 line-level / signature-block edits, and every checkpoint of every log (4 sizes x 2 shapes, incl. a log configured only elsewhere) submitted under every other configured ID and under unknown IDs (incl. spellings near a configured ID: other case, surrounding space, one character less or more), and every configured origin signed only by each key that is not its own (impostors) under its own ID. Oracle one-directional: accepted or state changed => stored text is in the set of texts the harness signed with the key configured for that ID and starts with that ID's origin; and for inputs the harness decides (crypto/ed25519 directly) carry no valid signature of that key / unsigned text / wrong origin: refused, state unchanged. distinct_nontrivial = distinct (configuration, state, mutated input)")
	run.Assumption("Ed25519 unforgeability: the set of texts the harness signed is the ground truth for authenticity")
	return run.Finish()
}

func editClass(label string) string {
	switch {
	case strings.HasPrefix(label, "valid "):
		return "valid"
	case strings.HasPrefix(label, "cross-log"):
		return "cross-log"
	case strings.Contains(label, "line edit"):
		return "line-edit"
	case strings.Contains(label, "prefix of"):
		return "prefix"
	case strings.Contains(label, "flipped"):
		return "bit-flip"
	case strings.Contains(label, "replaced"):
		return "substitution"
	case strings.Contains(label, "deleted"):
		return "deletion"
	}
	return "other"
}
