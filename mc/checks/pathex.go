package checks

import (
	"fmt"

	"github.com/transparency-dev/witness/verifmc/ev"
	"github.com/transparency-dev/witness/verifmc/uni"
	"github.com/transparency-dev/witness/verifmc/wh"
)

// pathExhaustive runs every request sequence of length <= 3 over a reduced
// alphabet on a fresh witness, with no state merging, so that behaviour which
// depends on hidden history (a cache, a remembered previous step) rather than
// on the stored checkpoint is reached. Returns the number of transitions.
func pathExhaustive(run *ev.Run, tier string, mon func(*wh.Step)) int64 {
	sizes := []int{2, 4, 6}
	divs := []int{3}
	if tier == "thorough" {
		sizes = []int{1, 2, 4, 5, 7}
		divs = []int{1, 3}
	}
	n := sizes[len(sizes)-1]
	u := uni.New(ev.Seed(), n, divs)
	gen := wh.NewCPGen(u)
	la := wh.LogCfg{Origin: logA(), Key: u.K1}
	fn := func(st wh.MState, hist []wh.Req) []wh.Req {
		var out []wh.Req
		olds := map[int]bool{0: true}
		for _, s := range sizes {
			olds[s] = true
		}
		for _, b := range u.Branches() {
			for _, sz := range sizes {
				if b.Div >= 0 && sz <= b.Div {
					continue
				}
				cp, meta := gen.Get(la, b, sz, "plain")
				for old := range olds {
					if old > sz {
						continue
					}
					seen := map[string]bool{}
					for _, p := range [][][]byte{{}, b.Proof(old, sz)} {
						k := fmt.Sprintf("%x", p)
						if seen[k] {
							continue
						}
						seen[k] = true
						out = append(out, wh.Req{LogID: la.ID(), Old: uint64(old), CP: cp, Proof: p, Meta: meta,
							Label: fmt.Sprintf("%s@%d old=%d proof=%d-hashes", b.Name, sz, old, len(p))})
					}
				}
			}
		}
		return out
	}
	var seqs, trans int64
	for _, store := range []string{"mem", "sql"} {
		s, t := wh.PathSearch(wh.SearchOpts{U: u, Gen: gen, Store: store, Log: la, Workers: workers(), OnStep: mon, Run: run}, 3, fn)
		seqs += s
		trans += t
	}
	run.Add("path_exhaustive_sequences_depth3", seqs)
	run.Add("transitions", trans)
	run.Add("traces_validated_against_impl", trans)
	run.Add("evaluations", trans)
	run.Set("path_exhaustive", fmt.Sprintf("every sequence of <= 3 requests over {main, forks at %v} x sizes %v x old sizes {0} u sizes x {empty proof, proof on the submitted branch from the claimed old size}, each on a fresh witness, no state merging, both stores", divs, sizes))
	return trans
}
