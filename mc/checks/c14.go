package checks

import (
	yamlv3 "gopkg.in/yaml.v3"
	"context"
	"database/sql"
	"encoding/json"
	"fmt"
	"io"
	"net"
	"net/http"
	"os"
	"os/exec"
	"path/filepath"
	"strings"
	"sync"
	"time"

	_ "github.com/mattn/go-sqlite3"
	"github.com/transparency-dev/witness/internal/persistence"
	"github.com/transparency-dev/witness/internal/persistence/inmemory"
	psql "github.com/transparency-dev/witness/internal/persistence/sql"
	"github.com/transparency-dev/witness/internal/witness"
	"github.com/transparency-dev/witness/omniwitness"
	"github.com/transparency-dev/witness/verifmc/ev"
	"github.com/transparency-dev/witness/verifmc/lspwrap"
	"github.com/transparency-dev/witness/verifmc/stublog"
	"github.com/transparency-dev/witness/verifmc/uni"
	"golang.org/x/mod/sumdb/note"
)

func init() {
	Registry["C14"] = c14
	Workers["c14"] = c14Worker
}

var c14Sizes = []int{1, 2, 255, 256, 257, 511, 513, 65535, 65536, 65537}

// c14Schedules: all strictly increasing size sequences of length 1..maxLen.
func c14Schedules(maxLen int) [][]int {
	var out [][]int
	var rec func(start int, cur []int)
	rec = func(start int, cur []int) {
		if len(cur) > 0 {
			out = append(out, append([]int{}, cur...))
		}
		if len(cur) == maxLen {
			return
		}
		for i := start; i < len(c14Sizes); i++ {
			rec(i+1, append(cur, c14Sizes[i]))
		}
	}
	rec(0, nil)
	return out
}

type c14Spec struct {
	Mode      string  `json:"mode"`    // running | restart
	Storage   string  `json:"storage"` // mem | sqlite
	Feeder    string  `json:"feeder"`  // tiles | sumdb
	Schedules [][]int `json:"schedules"`
	Fork      bool    `json:"fork"`
	// Note: form of the checkpoints the log publishes: "" (minimal), "cosigned"
	// (already carrying 90 signature lines of other witnesses: ~9 KiB), "ext"
	// (70 KiB of extension lines). Both are legitimate notes.
	Note string `json:"note"`
	// Flavour: the stub log's flavour when it differs from the feeder type
	// ("rekor-inactive": the configured tree is an inactive shard).
	Flavour string `json:"flavour"`
	// Rekeyed: the store already holds each log's first checkpoint, cosigned
	// by an EARLIER key set of this witness (legacy signature only); Main runs
	// with legacy + cosignature/v1 keys, as cmd/omniwitness does.
	Rekeyed bool `json:"rekeyed"`
	Scratch   string  `json:"scratch"`
}

type c14Problem struct {
	Signature string `json:"signature"`
	What      string `json:"what"`
	Schedule  []int  `json:"schedule"`
	Step      int    `json:"step"`
}

type c14Result struct {
	Problems []c14Problem `json:"problems"`
	Steps    int          `json:"steps"`
	// LateCatchUps counts 200 ms waits beyond the expected completion event.
	LateCatchUps int    `json:"late_catch_ups"`
	Checks       int    `json:"checks"`
	Err          string `json:"err"`
}

type hostMux struct{ m map[string]*stublog.Server }

func (h hostMux) RoundTrip(r *http.Request) (*http.Response, error) {
	// As net/http's transport: a request whose context has ended fails.
	if err := r.Context().Err(); err != nil {
		return nil, err
	}
	if s, ok := h.m[r.URL.Host]; ok {
		return s.RoundTrip(r)
	}
	// A log that has moved: its configured host answers every request with a
	// redirect to where it lives now.
	if to, ok := strings.CutPrefix(r.URL.Host, "moved-"); ok {
		u2 := *r.URL
		u2.Host = to
		return &http.Response{StatusCode: 302, Status: "302 Found", Body: io.NopCloser(strings.NewReader("")), Header: http.Header{"Location": []string{u2.String()}}, Request: r}, nil
	}
	// The distributor service: takes whatever is pushed.
	if r.URL.Host == "distributor.test" {
		if r.Body != nil {
			_, _ = io.Copy(io.Discard, r.Body)
		}
		return &http.Response{StatusCode: 200, Status: "200 OK", Body: io.NopCloser(strings.NewReader("ok")), Header: http.Header{}, Request: r}, nil
	}
	return nil, fmt.Errorf("verif: no stub for host %s", r.URL.Host)
}

type c14Log struct {
	origin string
	url    string
	id     string
	srv    *stublog.Server
	sched  []int
	head   int    // current head size (0 = not yet published)
	branch string // main | fork
	closes int    // write handles closed (accepted or not)
	sets   int    // successful Sets
}

// c14Worker runs one omniwitness.Main scenario: verifmc worker c14 <spec-json>
func c14Worker(args []string) int {
	var spec c14Spec
	if err := json.Unmarshal([]byte(args[0]), &spec); err != nil {
		fmt.Println(`{"err":"bad spec"}`)
		return 0
	}
	res := c14Result{}
	defer func() {
		b, _ := json.Marshal(res)
		fmt.Println(string(b))
	}()
	var bodyOf func(origin string, size int, b *uni.Branch) string
	const N = 65537
	u := uni.New(ev.Seed(), N, []int{0})
	flavour := spec.Feeder
	if spec.Flavour != "" {
		flavour = spec.Flavour
	}
	mainSrv := stublog.New(flavour, u.Main)
	forkSrv := stublog.New(flavour, u.Forks[0])
	var logs []*c14Log
	byHost := hostMux{m: map[string]*stublog.Server{}}
	byID := map[string]*c14Log{}
	var yaml strings.Builder
	yaml.WriteString("Logs:\n")
	for i, s := range spec.Schedules {
		l := &c14Log{sched: s, branch: "main"}
		l.origin = fmt.Sprintf("verif.example/c14/%s/%d", spec.Feeder, i)
		host := fmt.Sprintf("log-%d.test", i)
		l.url = "http://" + host + "/"
		if spec.Feeder == "sumdb" {
			l.origin = "go.sum database tree"
			l.url = "http://" + host
		}
		if spec.Feeder == "rekor" {
			l.url = "http://" + host + "/?treeID=1"
		}
		prefix := ""
		if spec.Feeder != "rekor" && spec.Feeder != "sumdb" && i%2 == 1 {
			// Every other log is served below a path, as most shipped entries
			// are (".../armory-drive-log/master/log/", ".../ftlog/lvfs/").
			prefix = fmt.Sprintf("mirror/logs/%d/", i)
			l.url = "http://" + host + "/" + prefix
		}
		l.id = uni.ID(l.origin)
		l.srv = &stublog.Server{Flavour: flavour, Branch: u.Main, Hashes: mainSrv.Hashes, TreeID: "1", Prefix: prefix}
		// Nothing published yet: the checkpoint endpoint answers 404.
		l.srv.Answer = func(int, string) string { return "http-404" }
		byHost.m[host] = l.srv
		if i%4 == 2 {
			// Every fourth log has moved: the configured host redirects.
			l.url = strings.Replace(l.url, "http://"+host, "http://moved-"+host, 1)
		}
		byID[l.id] = l
		logs = append(logs, l)
		fmt.Fprintf(&yaml, "  - Origin: %s\n    URL: %s\n    PublicKey: %s\n    Feeder: %s\n", l.origin, l.url, u.K1.VKey, spec.Feeder)
	}
	omniwitness.ConfigLogs = []byte(yaml.String())

	var mu sync.Mutex
	newPersistence := func() (persistence.LogStatePersistence, func()) {
		var p persistence.LogStatePersistence
		closer := func() {}
		if spec.Storage == "sqlite" {
			db, err := sql.Open("sqlite3", filepath.Join(spec.Scratch, "witness.db"))
			if err != nil {
				res.Err = err.Error()
				return nil, closer
			}
			db.SetMaxOpenConns(1)
			p = psql.NewPersistence(db)
			closer = func() { db.Close() }
		} else {
			p = inmemory.NewPersistence()
		}
		return lspwrap.New(p, lspwrap.Hooks{Observe: func(op, id string, _ []byte, err error) {
			mu.Lock()
			defer mu.Unlock()
			if l, ok := byID[id]; ok {
				switch op {
				case "w.Close":
					l.closes++
				case "w.Set":
					if err == nil {
						l.sets++
					}
				}
			}
		}}), closer
	}
	opCfg := func(interval time.Duration) omniwitness.OperatorConfig {
		// A distributor is configured as well (it shares the HTTP client with the feeders).
		return omniwitness.OperatorConfig{WitnessKeys: []note.Signer{u.W1.Signer, u.W1.CosigSigner}, WitnessVerifier: u.W1.CosigVerif, FeedInterval: interval,
			RestDistributorBaseURL: "http://distributor.test", DistributeInterval: time.Hour}
	}
	type running struct {
		cancel context.CancelFunc
		done   chan error
		addr   string
		closer func()
	}
	start := func(p persistence.LogStatePersistence, closer func(), interval time.Duration) *running {
		ln, err := net.Listen("tcp", "127.0.0.1:0")
		if err != nil {
			res.Err = "listen: " + err.Error()
			return nil
		}
		ctx, cancel := context.WithCancel(context.Background())
		r := &running{cancel: cancel, done: make(chan error, 1), addr: ln.Addr().String(), closer: closer}
		go func() {
			r.done <- omniwitness.Main(ctx, opCfg(interval), p, ln, &http.Client{Transport: byHost, Timeout: 10 * time.Second})
		}()
		return r
	}
	stop := func(r *running) {
		r.cancel()
		select {
		case <-r.done:
		case <-time.After(30 * time.Second):
			res.Problems = append(res.Problems, c14Problem{Signature: "main-does-not-stop", What: "omniwitness.Main did not return within 30 s of its context being cancelled"})
		}
		r.closer()
	}
	// A service that does not answer at all (three requests in a row time out
	// after 10 s each) is reported once; the remaining reads of that start are
	// not attempted (175 logs x 10 s would only repeat the finding).
	silent, silentAddr := 0, ""
	get := func(addr, id string) (int, []byte) {
		if addr != silentAddr {
			silent, silentAddr = 0, addr
		}
		if silent >= 3 {
			return 0, nil
		}
		resp, err := (&http.Client{Timeout: 10 * time.Second}).Get("http://" + addr + "/witness/v0/logs/" + id + "/checkpoint")
		if err != nil {
			silent++
			if silent == 3 {
				res.Problems = append(res.Problems, c14Problem{Signature: "service-not-answering", What: fmt.Sprintf("%s/%s/%s: the witness's HTTP endpoint did not answer three requests in a row (10 s each): %v", spec.Mode, spec.Storage, spec.Feeder, err)})
			}
			return 0, nil
		}
		silent = 0
		defer resp.Body.Close()
		b, _ := io.ReadAll(resp.Body)
		return resp.StatusCode, b
	}
	var extLines []string
	if spec.Note == "ext" {
		for i := 0; i < 140; i++ {
			extLines = append(extLines, fmt.Sprintf("x%05d %s", i, strings.Repeat(string(rune('a'+i%26)), 504)))
		}
	}
	bodyOf = func(origin string, size int, b *uni.Branch) string {
		return uni.Body(origin, uint64(size), b.Root(size), extLines...)
	}
	publish := func(l *c14Log, size int, fork bool) {
		b := u.Main
		hashes := mainSrv.Hashes
		if fork {
			b, hashes = u.Forks[0], forkSrv.Hashes
			l.branch = "fork"
		}
		cp := u.Sign(bodyOf(l.origin, size, b), u.K1.Signer)
		if spec.Note == "cosigned" {
			cp = uni.AppendSigLines(cp, uni.JunkSigLines(90))
		}
		l.srv.Branch, l.srv.Hashes = b, hashes
		l.srv.SetHead(size, cp)
		l.srv.Answer = nil
		l.head = size
	}
	fetches := func(l *c14Log) int {
		n := 0
		for _, r := range l.srv.Requests() {
			if strings.Contains(r, "checkpoint") || strings.Contains(r, "latest") || (strings.Contains(r, "api/v1/log") && !strings.Contains(r, "/proof")) {
				n++
			}
		}
		return n
	}
	// check compares the served checkpoint with what is expected.
	check := func(addr string, l *c14Log, wantSize int, wantBranch *uni.Branch, step int, what string) {
		res.Checks++
		code, body := get(addr, l.id)
		prob := func(sig, msg string) {
			res.Problems = append(res.Problems, c14Problem{Signature: sig, What: fmt.Sprintf("%s/%s/%s, schedule %v, step %d (%s): %s", spec.Mode, spec.Storage, spec.Feeder, l.sched, step, what, msg), Schedule: l.sched, Step: step})
		}
		if wantSize == 0 {
			if code != 404 {
				prob("served-before-published", fmt.Sprintf("GET checkpoint answered %d before the log published anything", code))
			}
			return
		}
		if code != 200 {
			prob(fmt.Sprintf("not-caught-up status=%d %s", code, c14StepKind(l.sched, step)), fmt.Sprintf("GET checkpoint answered %d, the log's head is size %d", code, wantSize))
			return
		}
		text, sigs, ok := uni.SplitNote(body)
		if !ok {
			prob("served-not-a-note", "served bytes are not a note")
			return
		}
		if _, v := countValid(u.K1.Verif, text, sigs); v < 1 {
			prob("served-without-log-signature", "served checkpoint lacks a valid log signature")
		}
		if n, v := countValid(u.W1.CosigVerif, text, sigs); n != 1 || v != 1 {
			prob("served-without-cosignature", "served checkpoint lacks exactly one valid witness cosignature")
		}
		want := bodyOf(l.origin, wantSize, wantBranch)
		if text != want {
			var got uint64
			fmt.Sscanf(strings.Split(text, "\n")[1], "%d", &got)
			sig := fmt.Sprintf("not-caught-up served-size<head %s", c14StepKind(l.sched, step))
			if what == "fork" {
				sig = "left-witnessed-history-after-fork"
			}
			prob(sig, fmt.Sprintf("served checkpoint has size %d, expected size %d on branch %s", got, wantSize, wantBranch.Name))
		}
	}
	// await: the property bounds catching up by "a bounded number of poll
	// intervals"; K complete cycles is the expectation, but only never catching
	// up within the (much longer) safety deadline is a violation, so that a
	// loaded machine cannot raise an alarm. The number of extra waits is reported.
	await := func(addr string, l *c14Log, wantSize int, step int, what string, until time.Time) {
		want := bodyOf(l.origin, wantSize, u.Main)
		for time.Now().Before(until) {
			code, body := get(addr, l.id)
			if text, _, ok := uni.SplitNote(body); code == 200 && ok && text == want {
				break
			}
			res.LateCatchUps++
			time.Sleep(200 * time.Millisecond)
		}
		check(addr, l, wantSize, u.Main, step, what)
	}
	maxLen := 0
	for _, s := range spec.Schedules {
		if len(s) > maxLen {
			maxLen = len(s)
		}
	}
	cur := func(l *c14Log, k int) int {
		if k >= len(l.sched) {
			return l.sched[len(l.sched)-1]
		}
		return l.sched[k]
	}
	const K = 3
	deadline := 90 * time.Second

	if spec.Mode == "running" {
		interval := 400 * time.Millisecond
		p, closer := newPersistence()
		if spec.Rekeyed {
			var lc omniwitness.LogConfig
			_ = yamlv3.Unmarshal(omniwitness.ConfigLogs, &lc)
			known, err := lc.AsLogMap()
			if err != nil {
				res.Err = "rekeyed: " + err.Error()
				return 0
			}
			old, err := witness.New(witness.Opts{Persistence: p, Signers: []note.Signer{u.W1.Signer}, KnownLogs: known})
			if err != nil {
				res.Err = "rekeyed: " + err.Error()
				return 0
			}
			for _, l := range logs {
				cp := u.Sign(bodyOf(l.origin, l.sched[0], u.Main), u.K1.Signer)
				if _, err := old.Update(context.Background(), l.id, 0, cp, nil); err != nil {
					res.Err = "rekeyed: seeding: " + err.Error()
					return 0
				}
			}
		}
		r := start(p, closer, interval)
		if r == nil {
			return 0
		}
		// Before anything is published: 404.
		time.Sleep(interval)
		for _, l := range logs {
			if !spec.Rekeyed {
				check(r.addr, l, 0, u.Main, -1, "nothing published")
			}
		}
		waitCycles := func() bool {
			base := map[*c14Log]int{}
			for _, l := range logs {
				base[l] = fetches(l)
			}
			t0 := time.Now()
			for {
				all := true
				for _, l := range logs {
					if fetches(l)-base[l] < K+1 {
						all = false
					}
				}
				if all {
					return true
				}
				if time.Since(t0) > deadline {
					return false
				}
				time.Sleep(50 * time.Millisecond)
			}
		}
		for k := 0; k < maxLen; k++ {
			for _, l := range logs {
				if k < len(l.sched) {
					publish(l, l.sched[k], false)
				}
			}
			res.Steps++
			if !waitCycles() {
				res.Problems = append(res.Problems, c14Problem{Signature: "polling-stopped", What: fmt.Sprintf("%s/%s/%s step %d: some log was not polled %d more times within %s", spec.Mode, spec.Storage, spec.Feeder, k, K+1, deadline), Step: k})
			}
			until := time.Now().Add(deadline) // one deadline for the whole step
			for _, l := range logs {
				await(r.addr, l, cur(l, k), k, fmt.Sprintf("after %d complete poll cycles following the growth and a further %s", K, deadline), until)
			}
		}
		if spec.Fork {
			// The fork claims a size three above the witnessed one where the
			// universe allows, so that the witnessed history can afterwards
			// resume BELOW the size the fork had claimed.
			forkSize := map[*c14Log]int{}
			for _, l := range logs {
				last := l.sched[len(l.sched)-1]
				fs := last + 3
				if fs > N {
					fs = last + 1
				}
				if fs <= N && last > 0 {
					publish(l, fs, true)
					forkSize[l] = fs
				}
			}
			res.Steps++
			waitCycles()
			for _, l := range logs {
				last := l.sched[len(l.sched)-1]
				if l.branch == "fork" {
					check(r.addr, l, last, u.Main, maxLen, "fork")
				}
			}
			// The log returns to the witnessed history and grows by one leaf
			// (still below what the fork claimed): it is followed again.
			var resumed []*c14Log
			for _, l := range logs {
				last := l.sched[len(l.sched)-1]
				if forkSize[l] >= last+2 {
					publish(l, last+1, false)
					l.branch = "main"
					resumed = append(resumed, l)
				}
			}
			if len(resumed) > 0 {
				res.Steps++
				waitCycles()
				until := time.Now().Add(deadline)
				for _, l := range resumed {
					await(r.addr, l, l.sched[len(l.sched)-1]+1, maxLen+1, "honest growth after a refused fork that had claimed a larger size", until)
				}
			}
		}
		stop(r)
		return 0
	}

	// restart mode: one cycle per start (interval 1h), service restarted
	// between steps on durable storage.
	step := func(k int, what string, wantClosed int) (string, func()) {
		p, closer := newPersistence()
		mu.Lock()
		base := map[*c14Log]int{}
		for _, l := range logs {
			base[l] = l.closes
		}
		mu.Unlock()
		r := start(p, closer, time.Hour)
		if r == nil {
			return "", func() {}
		}
		t0 := time.Now()
		for {
			all := true
			mu.Lock()
			for _, l := range logs {
				if l.head > 0 && l.closes-base[l] < wantClosed {
					all = false
				}
			}
			mu.Unlock()
			if all || time.Since(t0) > 40*time.Second {
				break
			}
			time.Sleep(10 * time.Millisecond)
		}
		return r.addr, func() { stop(r) }
	}
	for k := 0; k < maxLen; k++ {
		for _, l := range logs {
			if k < len(l.sched) {
				publish(l, l.sched[k], false)
			}
		}
		res.Steps++
		addr, done := step(k, "growth", 1)
		until := time.Now().Add(40 * time.Second)
		for _, l := range logs {
			await(addr, l, cur(l, k), k, "one feed cycle after a restart (and a further 40 s)", until)
		}
		done()
	}
	if spec.Fork {
		for _, l := range logs {
			last := l.sched[len(l.sched)-1]
			if last+1 <= N {
				publish(l, last+1, true)
			}
		}
		res.Steps++
		addr, done := step(maxLen, "fork", 2)
		for _, l := range logs {
			if l.branch == "fork" {
				check(addr, l, l.sched[len(l.sched)-1], u.Main, maxLen, "fork")
			}
		}
		done()
	}
	return 0
}

// c14StepKind abstracts which kind of growth a step is (for signatures).
func c14StepKind(sched []int, k int) string {
	if k <= 0 || k >= len(sched) {
		return "step=first"
	}
	a, b := sched[k-1], sched[k]
	switch {
	case a/256 == b/256:
		return "step=within-tile"
	case a%256 == 0 || b%256 == 0:
		return "step=on-tile-boundary"
	}
	return "step=across-tiles"
}

func c14(tier string) int {
	run := ev.NewRun("C14", tier, "exploration")
	self, _ := os.Executable()
	scratch := c06Scratch()
	maxLen := 3
	if tier == "thorough" {
		maxLen = 4
	}
	all := c14Schedules(maxLen)
	run.Set("growth_schedules", len(all))
	type job struct {
		spec c14Spec
		name string
	}
	var jobs []job
	// tiles: one Main instance follows every schedule at once (one log each).
	for _, mode := range []string{"running", "restart"} {
		for _, st := range []string{"mem", "sqlite"} {
			if mode == "restart" && st == "mem" {
				continue // a restart loses an in-memory store by definition
			}
			jobs = append(jobs, job{c14Spec{Mode: mode, Storage: st, Feeder: "tiles", Schedules: all, Fork: true}, fmt.Sprintf("tiles/%s/%s", mode, st)})
		}
	}
	// The other three feeder types follow every schedule at once, like tiles.
	for _, ft := range []string{"serverless", "pixel", "rekor"} {
		jobs = append(jobs, job{c14Spec{Mode: "running", Storage: "mem", Feeder: ft, Schedules: all, Fork: true}, ft + "/running/mem"})
	}
	// Rekor once more with the configured tree being an INACTIVE shard (as two
	// of the three shipped Rekor entries are).
	jobs = append(jobs, job{c14Spec{Mode: "running", Storage: "mem", Feeder: "rekor", Flavour: "rekor-inactive", Schedules: all, Fork: true}, "rekor-inactive/running/mem"})
	// A store that an earlier key set of this witness cosigned (an upgrade from
	// legacy-only signing, a key rotation).
	jobs = append(jobs, job{c14Spec{Mode: "running", Storage: "mem", Feeder: "tiles", Schedules: all, Fork: true, Rekeyed: true}, "tiles/running/mem/rekeyed"})
	// The same with checkpoints as large as real ones get: a log that publishes
	// checkpoints already cosigned by 90 other witnesses (~9 KiB) and one that
	// signs 70 KiB of extension lines.
	for _, nf := range []string{"cosigned", "ext"} {
		jobs = append(jobs, job{c14Spec{Mode: "running", Storage: "mem", Feeder: "tiles", Schedules: all, Fork: true, Note: nf}, "tiles/running/mem/" + nf})
	}
	// sumdb: its origin is fixed, so one log per Main instance: one process
	// per schedule; quick tier runs a covering subset (every schedule of
	// length maxLen that contains a tile-boundary size, plus one of each length).
	var sumdbScheds [][]int
	for _, s := range all {
		if tier == "thorough" || len(s) == 1 && s[0] == 257 || len(s) == 2 && s[0] == 255 && s[1] == 65536 ||
			len(s) == maxLen && (s[0] == 255 || s[0] == 1) && (s[1] == 256 || s[1] == 257 || s[1] == 513) && s[2] >= 511 {
			sumdbScheds = append(sumdbScheds, s)
		}
	}
	for i, s := range sumdbScheds {
		mode, st := "running", "mem"
		switch i % 3 {
		case 1:
			mode, st = "restart", "sqlite"
		case 2:
			mode, st = "running", "sqlite"
		}
		if tier == "thorough" {
			for _, ms := range [][2]string{{"running", "mem"}, {"restart", "sqlite"}} {
				jobs = append(jobs, job{c14Spec{Mode: ms[0], Storage: ms[1], Feeder: "sumdb", Schedules: [][]int{s}, Fork: true}, fmt.Sprintf("sumdb/%s/%s/%v", ms[0], ms[1], s)})
			}
			continue
		}
		jobs = append(jobs, job{c14Spec{Mode: mode, Storage: st, Feeder: "sumdb", Schedules: [][]int{s}, Fork: true}, fmt.Sprintf("sumdb/%s/%s/%v", mode, st, s)})
	}
	for i, nf := range []string{"cosigned", "ext"} {
		if i < len(sumdbScheds) {
			s := sumdbScheds[len(sumdbScheds)-1-i]
			jobs = append(jobs, job{c14Spec{Mode: "running", Storage: "mem", Feeder: "sumdb", Schedules: [][]int{s}, Fork: true, Note: nf}, fmt.Sprintf("sumdb/running/mem/%v/%s", s, nf)})
		}
	}
	run.Set("sumdb_schedules", len(sumdbScheds))
	var mu sync.Mutex
	var wg sync.WaitGroup
	sem := make(chan struct{}, workers())
	var checks, steps int64
	for ji, j := range jobs {
		wg.Add(1)
		go func(ji int, j job) {
			defer wg.Done()
			sem <- struct{}{}
			defer func() { <-sem }()
			j.spec.Scratch = filepath.Join(scratch, fmt.Sprintf("c14-%d", ji))
			_ = os.MkdirAll(j.spec.Scratch, 0o755)
			defer os.RemoveAll(j.spec.Scratch)
			sj, _ := json.Marshal(j.spec)
			ctx, cancel := context.WithTimeout(context.Background(), 20*time.Minute)
			defer cancel()
			out, err := exec.CommandContext(ctx, self, "worker", "c14", string(sj)).Output()
			var r c14Result
			if err != nil || json.Unmarshal(lastLine(out), &r) != nil {
				ev.Internal("C14 worker %s failed: %v: %s", j.name, err, tail(out))
			}
			if r.Err != "" {
				ev.Internal("C14 worker %s: %s", j.name, r.Err)
			}
			mu.Lock()
			defer mu.Unlock()
			checks += int64(r.Checks)
			run.Add("waits_beyond_the_expected_completion_event", int64(r.LateCatchUps))
			steps += int64(r.Steps)
			if j.spec.Rekeyed {
				run.Hist("scenarios", j.spec.Feeder+"/"+j.spec.Mode+"/"+j.spec.Storage+"/rekeyed")
			}
			run.Hist("scenarios", j.spec.Feeder+map[bool]string{true: "(" + j.spec.Flavour + ")"}[j.spec.Flavour != ""]+"/"+j.spec.Mode+"/"+j.spec.Storage+map[bool]string{true: "/" + j.spec.Note}[j.spec.Note != ""])
			for _, s := range j.spec.Schedules {
				run.Distinct(fmt.Sprintf("%s%s/%s/%s/%v/%s", j.spec.Feeder, j.spec.Flavour, j.spec.Mode, j.spec.Storage, s, j.spec.Note))
			}
			for _, p := range r.Problems {
				run.Report(fmt.Sprintf("%s feeder=%s mode=%s storage=%s%s", p.Signature, j.spec.Feeder, j.spec.Mode, j.spec.Storage, map[bool]string{true: " published-checkpoints=" + j.spec.Note}[j.spec.Note != ""]), p.What,
					map[string]any{"kind": "omniwitness-main", "feeder": j.spec.Feeder, "mode": j.spec.Mode, "storage": j.spec.Storage, "schedule": p.Schedule, "step": p.Step, "note": j.spec.Note})
			}
		}(ji, j)
	}
	wg.Wait()
	run.Sample(map[string]any{"feeder": "tiles", "mode": "running", "storage": "sqlite", "schedule": []int{255, 257, 65536}, "then": "fork at 65537", "observed": "HTTP GET /witness/v0/logs/<id>/checkpoint of the running service after 3 complete poll cycles"})
	run.Sample(map[string]any{"feeder": "sumdb", "mode": "restart", "storage": "sqlite", "schedule": []int{1, 256, 511}})
	run.Set("evaluations", checks)
	run.Set("served_checkpoint_checks", checks)
	run.Set("steps", steps)
	run.Set("exhaustive", true)
	run.Set("rule", fmt.Sprintf("omniwitness.Main is run for real (generated ConfigLogs, listener on 127.0.0.1:0, outbound HTTP answered by in-process stub log servers generated from a 65537-leaf tree) for ALL strictly increasing growth schedules of length <= %d over sizes %v followed by a fork step: feeder type tiles follows every schedule at once (one configured log per schedule) in {running: 400 ms polling, in-memory and SQLite} and {restart between every step: one feed cycle per start, SQLite file}; feeder types serverless, pixel and rekor (the configured tree active, and as an inactive shard) follow every schedule at once on the running in-memory service; feeder type sumdb (its origin line is fixed, so one log per process) runs a covering subset in the quick tier and every schedule in the thorough tier. Every Main instance also has a distributor configured (it shares the HTTP client with the feeders), every fourth log is configured under a host that redirects to where it lives, every other tiles / serverless / pixel log is served below a path prefix, and one tiles run starts on a store whose checkpoints an earlier key set of the witness cosigned. Both feeder types also follow logs whose checkpoints are large (already cosigned by 90 other witnesses, ~9 KiB; 70 KiB of extension lines). After each growth the service's HTTP GET checkpoint must be the log's head, cosigned, after 3 complete poll cycles (cycle completion observed at the stub, not timed) / after the single cycle of a restart (write-handle close observed by wrapping the persistence); after the fork step it must still be the last checkpoint of the witnessed history. distinct_nontrivial = distinct (feeder, mode, storage, schedule)", maxLen, c14Sizes))
	run.Assumption("goroutine interleavings and timer races inside Main are not enumerated; the scenario space is. Safety deadlines (90 s / 40 s per step, >= 100x the normal latency) only end a broken build")
	// Addressing leg: the schedules above stay below 65 538 leaves; the tile
	// paths the sumdb feeder will ask for in larger trees (indices up to 10^9,
	// every carry boundary of the x%03d encoding) are checked against the
	// reference tlog paths directly (shared with C18).
	run.Add("evaluations", c18Addressing(run))
	return run.Finish()
}
