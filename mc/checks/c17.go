package checks

import (
	"bytes"
	"context"
	"encoding/json"
	"errors"
	"fmt"
	"github.com/transparency-dev/witness/internal/persistence/inmemory"
	"github.com/transparency-dev/witness/verifmc/lspwrap"
	"github.com/transparency-dev/witness/verifmc/uni"
	"golang.org/x/mod/sumdb/note"
	"net"
	"net/http"
	"net/url"
	"os"
	"os/exec"
	"path/filepath"
	"sort"
	"strings"
	"sync"
	"time"

	f_log "github.com/transparency-dev/formats/log"
	"github.com/transparency-dev/witness/internal/config"
	"github.com/transparency-dev/witness/omniwitness"
	"github.com/transparency-dev/witness/verifmc/ev"
	"gopkg.in/yaml.v3"
)

func init() { Registry["C17"] = c17 }

var errNoNetwork = errors.New("verif: transport refuses every request")

type failTransport struct{ urls []string }

func (t *failTransport) RoundTrip(r *http.Request) (*http.Response, error) {
	t.urls = append(t.urls, r.URL.String())
	return nil, errNoNetwork
}

// pollRecorder refuses every request and remembers what was asked for.
type pollRecorder struct {
	mu   sync.Mutex
	urls []string
}

func (t *pollRecorder) RoundTrip(r *http.Request) (*http.Response, error) {
	t.mu.Lock()
	t.urls = append(t.urls, r.URL.String())
	t.mu.Unlock()
	return nil, errNoNetwork
}

func (t *pollRecorder) seen(prefix string) bool {
	t.mu.Lock()
	defer t.mu.Unlock()
	for _, u := range t.urls {
		if strings.HasPrefix(u, prefix) {
			return true
		}
	}
	return false
}

type nopWitness struct{ calls int }

func (n *nopWitness) GetLatestCheckpoint(context.Context, string) ([]byte, error) {
	n.calls++
	return nil, os.ErrNotExist
}
func (n *nopWitness) Update(context.Context, string, uint64, []byte, [][]byte) ([]byte, error) {
	n.calls++
	return nil, errors.New("verif: no updates expected")
}

func repoDir() string {
	if d := os.Getenv("VERIF_REPO"); d != "" {
		return d
	}
	return "/repo"
}

func c17(tier string) int {
	run := ev.NewRun("C17", tier, "exploration")
	files := map[string][]byte{}
	for _, f := range []string{"logs.yaml", "logs_test.yaml"} {
		b, err := os.ReadFile(filepath.Join(repoDir(), "omniwitness", f))
		if err != nil {
			run.Report("config-file-missing file="+f, fmt.Sprintf("omniwitness/%s cannot be read: %v", f, err), nil)
			continue
		}
		files[f] = b
	}
	if b, ok := files["logs.yaml"]; ok && !bytes.Equal(b, omniwitness.ConfigLogs) {
		ev.Internal("embedded ConfigLogs differs from omniwitness/logs.yaml in the working tree: the harness was not rebuilt")
	}
	var evals int64
	for _, fname := range []string{"logs.yaml", "logs_test.yaml"} {
		raw, ok := files[fname]
		if !ok {
			continue
		}
		rep := func(i int, origin string) map[string]any {
			return map[string]any{"kind": "config-entry", "file": fname, "index": i, "origin": origin}
		}
		cfg := omniwitness.LogConfig{}
		if err := yaml.Unmarshal(raw, &cfg); err != nil {
			run.Report("yaml-unmarshal file="+fname, fmt.Sprintf("omniwitness/%s does not load: %v", fname, err), rep(-1, ""))
			continue
		}
		if len(cfg.Logs) == 0 {
			run.Report("no-entries file="+fname, "configuration has no logs", rep(-1, ""))
		}
		// As Main does: map for the witness, list for feeders/bastion/distributor.
		logMap, mapErr := cfg.AsLogMap()
		if mapErr != nil {
			run.Report("aslogmap file="+fname, fmt.Sprintf("omniwitness/%s: AsLogMap fails (start-up would abort): %v", fname, mapErr), rep(-1, ""))
		}
		ids := map[string]string{}
		firstURL := map[string]string{}
		var listIDs []string
		for i, l := range cfg.Logs {
			evals++
			run.Distinct(fname + "|" + l.Origin)
			sig := func(k string) string { return fmt.Sprintf("%s file=%s origin=%q", k, fname, l.Origin) }
			if i < 3 {
				run.Sample(map[string]any{"file": fname, "origin": l.Origin, "url": l.URL, "feeder": fmt.Sprint(l.Feeder)})
			}
			if l.Origin == "" {
				run.Report(sig("empty-origin"), fmt.Sprintf("entry %d has no origin", i), rep(i, l.Origin))
			}
			lc, err := config.NewLog(l.Origin, l.PublicKey, l.URL)
			if err != nil {
				run.Report(sig("public-key"), fmt.Sprintf("entry %d (%s): public key does not parse into a verifier: %v", i, l.Origin, err), rep(i, l.Origin))
				continue
			}
			parts := strings.SplitN(l.PublicKey, "+", 3)
			if lc.Verifier.Name() != parts[0] || fmt.Sprintf("%08x", lc.Verifier.KeyHash()) != strings.ToLower(parts[1]) {
				run.Report(sig("key-name-hash"), fmt.Sprintf("entry %d (%s): verifier name/hash %s+%08x do not match the key string %s+%s", i, l.Origin, lc.Verifier.Name(), lc.Verifier.KeyHash(), parts[0], parts[1]), rep(i, l.Origin))
			}
			if lc.ID != f_log.ID(l.Origin) {
				run.Report(sig("id-derivation"), fmt.Sprintf("entry %d: config.NewLog ID differs from log.ID(origin)", i), rep(i, l.Origin))
			}
			if prev, dup := ids[lc.ID]; dup {
				run.Report(sig("duplicate-id"), fmt.Sprintf("entry %d (%s) has the same ID as %q", i, l.Origin, prev), rep(i, l.Origin))
			}
			ids[lc.ID] = l.Origin
			listIDs = append(listIDs, lc.ID)
			if l.Feeder < omniwitness.Serverless || l.Feeder > omniwitness.None {
				run.Report(sig("feeder-type"), fmt.Sprintf("entry %d (%s): feeder enum value %d is not a known feeder (Main would panic in FeedFunc)", i, l.Origin, l.Feeder), rep(i, l.Origin))
				continue
			}
			run.Hist("feeders", fmt.Sprint(l.Feeder))
			u, err := url.Parse(l.URL)
			if err != nil || u.Host == "" && u.Scheme != "file" {
				run.Report(sig("url"), fmt.Sprintf("entry %d (%s): URL %q is not well-formed: %v", i, l.Origin, l.URL, err), rep(i, l.Origin))
				continue
			}
			if l.Feeder == omniwitness.None {
				continue
			}
			// Start the feeder once (interval 0) with a transport that fails
			// every request: it must get as far as the network.
			tr := &failTransport{}
			w := &nopWitness{}
			var ferr error
			panicked := func() (p any) {
				defer func() { p = recover() }()
				ctx, cancel := context.WithTimeout(context.Background(), 30*time.Second)
				defer cancel()
				ferr = l.Feeder.FeedFunc()(ctx, lc, w, &http.Client{Transport: tr}, 0)
				return nil
			}()
			switch {
			case panicked != nil:
				run.Report(sig("feeder-panics"), fmt.Sprintf("entry %d (%s): starting its feeder panics: %v", i, l.Origin, panicked), rep(i, l.Origin))
			case len(tr.urls) == 0 && u.Scheme != "file":
				run.Report(sig("feeder-cannot-start"), fmt.Sprintf("entry %d (%s): its feeder returned %v without attempting any request: the URL %q is not one the feeder can start from", i, l.Origin, ferr, l.URL), rep(i, l.Origin))
			case ferr == nil:
				run.Report(sig("feeder-succeeded-offline"), fmt.Sprintf("entry %d (%s): feeder reported success although every request failed", i, l.Origin), rep(i, l.Origin))
			default:
				ru, _ := url.Parse(tr.urls[0])
				if ru == nil || ru.Host != u.Host || ru.Scheme != u.Scheme {
					run.Report(sig("feeder-wrong-host"), fmt.Sprintf("entry %d (%s): first request went to %s, configured URL is %s", i, l.Origin, tr.urls[0], l.URL), rep(i, l.Origin))
				} else {
					// ... and to a resource BELOW the configured URL taken as a
					// directory (a URL the feeder resolves relative references
					// against must not lose its last segment).
					dir := strings.TrimSuffix(u.Path, "/") + "/"
					if !strings.HasPrefix(ru.Path, dir) {
						run.Report(sig("feeder-leaves-configured-url"), fmt.Sprintf("entry %d (%s): configured URL %s, but its feeder's first request went to %s, which is not below it", i, l.Origin, l.URL, tr.urls[0]), rep(i, l.Origin))
					}
					// No two entries (other than the Rekor shards, which share
					// one endpoint and differ by treeID) read the same resource.
					if l.Feeder != omniwitness.Rekor {
						if prev, dup := firstURL[tr.urls[0]]; dup {
							run.Report(sig("two-entries-one-resource"), fmt.Sprintf("entry %d (%s) and entry %q both start from %s", i, l.Origin, prev, tr.urls[0]), rep(i, l.Origin))
						}
						firstURL[tr.urls[0]] = l.Origin
					}
				}
				run.Add("feeders_started", 1)
			}
		}
		if mapErr == nil {
			var mapIDs []string
			for k := range logMap {
				mapIDs = append(mapIDs, k)
			}
			sort.Strings(mapIDs)
			sort.Strings(listIDs)
			if strings.Join(mapIDs, ",") != strings.Join(listIDs, ",") {
				run.Report("witness-map-vs-log-list file="+fname, fmt.Sprintf("omniwitness/%s: the witness map has IDs %v, the feeder/bastion list has %v", fname, mapIDs, listIDs), rep(-1, ""))
			}
		}
		run.Set("entries["+fname+"]", len(cfg.Logs))
	}
	// The binary's own start-up path: omniwitness.Main over the embedded
	// (shipped) configuration, in-memory storage, polling off (no network),
	// a loopback listener: it must get as far as serving the log list.
	c17MainStarts(run)
	run.Set("evaluations", evals)
	run.Set("exhaustive", true)
	run.Set("rule", "every entry of omniwitness/logs.yaml (embedded ConfigLogs, checked equal to the working-tree file) and omniwitness/logs_test.yaml, through the functions Main uses: yaml.Unmarshal into LogConfig, config.NewLog (verifier name/hash vs key string), ID uniqueness, feeder enum known, AsLogMap, then the entry's feeder is started once (interval 0) with an HTTP transport that fails every request - it must reach the network (first request to the configured host, to a resource below the configured URL taken as a directory, and not to a resource another non-Rekor entry starts from) and return a transport error without panicking; witness map IDs == feeder/bastion list IDs; finally omniwitness.Main itself is started over the embedded configuration (in-memory storage, polling off) and must come up serving, and its distributor must ask about exactly the logs of the witness map. distinct_nontrivial = distinct entries")
	return run.Finish()
}

// c17MainStarts runs omniwitness.Main on the shipped configuration and waits
// for its HTTP endpoint to answer; Main returning before that is a start-up
// failure on the shipped configuration.
func c17MainStarts(run *ev.Run) {
	mainLogLists(run, "shipped-config", "the embedded logs.yaml", omniwitness.ConfigLogs)
	// The same in a process of its own with the Prometheus metric factory - the
	// default of cmd/omniwitness (metrics are registered once per process, so
	// what is created per log or per start shows only there).
	self, _ := os.Executable()
	cmd := exec.Command(self, "worker", "c17main")
	cmd.Env = append(os.Environ(), "VERIF_METRICS=prometheus")
	out, err := cmd.Output()
	var found []ev.Violation
	if jerr := json.Unmarshal(lastLine(out), &found); err != nil || jerr != nil {
		run.Report("main-crashes-on-shipped-config metrics=prometheus", fmt.Sprintf("omniwitness.Main over the embedded logs.yaml with the Prometheus metric factory installed (as cmd/omniwitness does by default) ended the process: %v: %s", err, tail(out)), map[string]any{"kind": "main-start"})
		return
	}
	for _, v := range found {
		run.Report(v.Signature+" metrics=prometheus", "with the Prometheus metric factory installed: "+v.What, map[string]any{"kind": "main-start"})
	}
	run.Add("main_started_with_prometheus_metrics", 1)
}

func init() { Workers["c17main"] = c17MainWorker }

// c17MainWorker: verifmc worker c17main - mainLogLists on the shipped list in
// this process (the parent chooses the metric factory through VERIF_METRICS);
// prints the findings as one JSON line.
func c17MainWorker(args []string) int {
	run := ev.NewRun("C17", "quick", "exploration")
	run.Scratch = true
	mainLogLists(run, "shipped-config", "the embedded logs.yaml", omniwitness.ConfigLogs)
	b, _ := json.Marshal(run.List())
	fmt.Println(string(b))
	return 0
}

// mainLogLists runs omniwitness.Main over the given log list (with a
// distributor configured) and checks that it starts, that the log list its
// HTTP endpoint is built on and the list the distributor was handed are both
// exactly the configured logs (one witness map, one ID per origin), and that
// it stops. tag = "shipped-config" keeps C17's signatures.
func mainLogLists(run *ev.Run, tag, what string, cfgYAML []byte, pollingOff ...bool) {
	feedInterval := 50 * time.Millisecond
	if len(pollingOff) > 0 && pollingOff[0] {
		// Bastion-only operation (--poll_interval=0): nothing is polled, the
		// distributor works all the same.
		feedInterval = 0
	}
	saved := omniwitness.ConfigLogs
	omniwitness.ConfigLogs = cfgYAML
	defer func() { omniwitness.ConfigLogs = saved }()
	sfx := map[bool]string{true: "", false: " config=" + tag}[tag == "shipped-config"]
	onwhat := map[bool]string{true: "on-shipped-config", false: "on-config"}[tag == "shipped-config"]
	u := uni.New(ev.Seed(), 2, nil)
	ln, err := net.Listen("tcp", "127.0.0.1:0")
	if err != nil {
		ev.Internal("C17: listen: %v", err)
	}
	ctx, cancel := context.WithCancel(context.Background())
	defer cancel()
	done := make(chan error, 1)
	var askedMu sync.Mutex
	asked := map[string]bool{}
	var cfg omniwitness.LogConfig
	_ = yaml.Unmarshal(cfgYAML, &cfg)
	want, _ := cfg.AsLogMap()
	polled := &pollRecorder{}
	go func() {
		defer func() {
			if p := recover(); p != nil {
				done <- fmt.Errorf("panic: %v", p)
			}
		}()
		// The distributor is configured (its pushes fail: no network): it asks the
		// witness about every log IT was given, which must be the witness map's logs.
		done <- omniwitness.Main(ctx, omniwitness.OperatorConfig{WitnessKeys: []note.Signer{u.W1.Signer, u.W1.CosigSigner}, WitnessVerifier: u.W1.CosigVerif,
			RestDistributorBaseURL: "http://distributor.verif.test", DistributeInterval: time.Hour, FeedInterval: feedInterval},
			lspwrap.New(inmemory.NewPersistence(), lspwrap.Hooks{Observe: func(op, id string, _ []byte, _ error) {
				if op == "ReadOps" {
					askedMu.Lock()
					asked[id] = true
					askedMu.Unlock()
				}
			}}), ln, &http.Client{Transport: polled})
	}()
	deadline := time.Now().Add(60 * time.Second)
	for time.Now().Before(deadline) {
		select {
		case err := <-done:
			run.Report("main-does-not-start-"+onwhat+sfx, fmt.Sprintf("omniwitness.Main over %s returned before serving anything: %v", what, err), map[string]any{"kind": "main-start"})
			return
		default:
		}
		resp, err := (&http.Client{Timeout: 2 * time.Second}).Get("http://" + ln.Addr().String() + "/witness/v0/logs")
		if err == nil {
			resp.Body.Close()
			if resp.StatusCode == 200 {
				run.Add("main_started_"+strings.ReplaceAll(onwhat, "-", "_"), 1)
				// The distributor's first round: every log of the witness map is asked about.
				missing := func() []string {
					askedMu.Lock()
					defer askedMu.Unlock()
					var m []string
					for id, li := range want {
						if !asked[id] {
							m = append(m, li.Origin)
						}
					}
					sort.Strings(m)
					return m
				}
				for t0 := time.Now(); len(missing()) > 0 && time.Since(t0) < 20*time.Second; {
					time.Sleep(50 * time.Millisecond)
				}
				if m := missing(); len(want) > 0 && len(m) > 0 {
					run.Report("distributor-log-list-differs-from-witness-map"+sfx, fmt.Sprintf("omniwitness.Main over %s with a distributor configured: the witness map has %d logs, the distributor never asked about %d of them: %v", what, len(want), len(m), m), map[string]any{"kind": "main-start"})
				}
				askedMu.Lock()
				for id := range asked {
					if _, ok := want[id]; !ok {
						run.Report("distributor-asks-about-unknown-log"+sfx, fmt.Sprintf("the distributor asked the witness about log ID %s, which is not in the witness map", id), map[string]any{"kind": "main-start"})
					}
				}
				askedMu.Unlock()
				// Polling is on: every entry that has a feeder is polled under
				// ITS OWN URL, an entry without one (Feeder: none) is not polled.
				base := func(raw string) string {
					if i := strings.IndexByte(raw, '?'); i >= 0 {
						raw = raw[:i]
					}
					return strings.TrimSuffix(raw, "/")
				}
				var withFeeder, without []omniwitness.LogInfo
				for _, l := range cfg.Logs {
					if l.Feeder == omniwitness.None {
						without = append(without, l)
					} else if !strings.HasPrefix(l.URL, "file:") {
						withFeeder = append(withFeeder, l)
					}
				}
				if feedInterval == 0 {
					withFeeder = nil // nothing is to be polled
				}
				unpolled := func() []string {
					var m []string
					for _, l := range withFeeder {
						if !polled.seen(base(l.URL)) {
							m = append(m, l.Origin)
						}
					}
					return m
				}
				for t0 := time.Now(); len(unpolled()) > 0 && time.Since(t0) < 20*time.Second; {
					time.Sleep(50 * time.Millisecond)
				}
				if m := unpolled(); len(m) > 0 {
					run.Report("configured-log-never-polled"+sfx, fmt.Sprintf("omniwitness.Main over %s with polling on: %d of %d entries that have a feeder were never polled under their own URL: %v", what, len(m), len(withFeeder), m), map[string]any{"kind": "main-start"})
				}
				for _, l := range without {
					shared := false
					for _, o := range withFeeder {
						if strings.HasPrefix(base(l.URL), base(o.URL)) || strings.HasPrefix(base(o.URL), base(l.URL)) {
							shared = true
						}
					}
					if !shared && polled.seen(base(l.URL)) {
						run.Report("log-without-feeder-polled"+sfx, fmt.Sprintf("omniwitness.Main over %s: %s is configured with Feeder: none, yet its URL %s was polled", what, l.Origin, l.URL), map[string]any{"kind": "main-start"})
					}
				}
				run.Add("main_polled_entries_checked", int64(len(withFeeder)+len(without)))
				cancel()
				select {
				case <-done:
				case <-time.After(30 * time.Second):
					run.Report("main-does-not-stop"+sfx, "omniwitness.Main did not return within 30 s of its context being cancelled", map[string]any{"kind": "main-start"})
				}
				return
			}
		}
		time.Sleep(50 * time.Millisecond)
	}
	run.Report("main-not-serving-"+onwhat+sfx, "omniwitness.Main over "+what+" did not answer GET /witness/v0/logs with 200 within 60 s", map[string]any{"kind": "main-start"})
}
