package checks

import (
	"github.com/transparency-dev/witness/omniwitness"
	"bytes"
	"context"
	"errors"
	"fmt"
	"io"
	"net/http"
	"net/url"
	"os"
	"strings"
	"sync"

	"github.com/transparency-dev/witness/internal/config"
	"github.com/transparency-dev/witness/internal/distribute/rest"
	"github.com/transparency-dev/witness/verifmc/ev"
	"github.com/transparency-dev/witness/verifmc/uni"
	"github.com/transparency-dev/witness/verifmc/wh"
)

func init() { Registry["C15"] = c15 }

var c15WitnessAnswers = []string{"valid", "valid-70KiB", "valid-unknown-sig-lines", "valid-witness-line-first", "same-bytes-as-previous-log", "same-bytes-as-next-log", "missing", "wrong-log-key", "no-witness-sig", "invalid-witness-sig", "corrupted", "other-logs-checkpoint", "witness-error", "two-witness-sigs", "wrong-origin", "foreign-witness-sig-only",
	// a correctly cosigned checkpoint whose tail is malformed: not a note, must not be pushed
	"tail-lf", "tail-crlf", "tail-space", "tail-nonl"}
var c15DistAnswers = []string{"200", "404", "500", "conn-error", "redirect-302", "redirect-307", "204", "200-after-body-unread"}

type c15Log struct {
	cfg   config.Log
	l     wh.LogCfg
	wans  string
	dans  string
	cp    []byte // what the witness returns (nil = none)
	valid []byte // this log's valid cosigned checkpoint
}

type c15Put struct {
	Path   string
	Body   []byte
	Method string
}

// c15Transport is the stub distributor.
type c15Transport struct {
	logs []*c15Log
	puts []c15Put
	all  []string
}

func (t *c15Transport) RoundTrip(r *http.Request) (*http.Response, error) {
	// As net/http's transport: a request whose context has ended fails.
	if err := r.Context().Err(); err != nil {
		return nil, err
	}
	var body []byte
	path := r.URL.EscapedPath()
	t.all = append(t.all, r.Method+" "+path)
	var lg *c15Log
	for _, l := range t.logs {
		if strings.Contains(path, "/logs/"+l.cfg.ID+"/") {
			lg = l
		}
	}
	ans := "200"
	if lg != nil {
		ans = lg.dans
	}
	if strings.HasPrefix(path, "/redirected") {
		ans = "200"
	}
	if ans == "conn-error" {
		// Fails before the body is consumed, as a refused connection does.
		return nil, errors.New("verif: connection refused")
	}
	if r.Body != nil && ans != "200-after-body-unread" {
		body, _ = io.ReadAll(r.Body)
		r.Body.Close()
	}
	if r.Method == http.MethodPut && !strings.HasPrefix(path, "/redirected") {
		t.puts = append(t.puts, c15Put{Path: path, Body: body, Method: r.Method})
	}
	mk := func(code int, hdr map[string]string) *http.Response {
		h := http.Header{}
		for k, v := range hdr {
			h.Set(k, v)
		}
		return &http.Response{StatusCode: code, Status: fmt.Sprintf("%d %s", code, http.StatusText(code)), Header: h, Body: io.NopCloser(strings.NewReader("answer")), Request: r, ProtoMajor: 1, ProtoMinor: 1}
	}
	switch ans {
	case "200", "200-after-body-unread":
		if ans == "200-after-body-unread" && r.Method == http.MethodPut {
			// the server answered without reading the body
			t.puts[len(t.puts)-1].Body = nil
		}
		return mk(200, nil), nil
	case "404":
		return mk(404, nil), nil
	case "500":
		return mk(500, nil), nil
	case "204":
		return mk(204, nil), nil
	case "redirect-302":
		return mk(302, map[string]string{"Location": "http://dist.example/redirected/a"}), nil
	case "redirect-307":
		return mk(307, map[string]string{"Location": "http://dist.example/redirected/b"}), nil
	}
	return mk(200, nil), nil
}

type c15Witness struct{ logs []*c15Log }

func (w *c15Witness) GetLatestCheckpoint(_ context.Context, id string) ([]byte, error) {
	for _, l := range w.logs {
		if l.cfg.ID == id {
			switch l.wans {
			case "missing":
				return nil, os.ErrNotExist
			case "witness-error":
				return nil, errors.New("verif: witness unavailable")
			}
			return l.cp, nil
		}
	}
	return nil, fmt.Errorf("verif: asked for a log that is not configured: %s", id)
}

// c15Run executes one assignment and applies the oracle.
func c15Run(run *ev.Run, u *uni.U, origins []string, wans, dans []string) {
	c15RunOpt(run, u, origins, wans, dans, false)
}

// c15RunOpt: with warm, the same Distributor first performs a round in which
// every log is valid and the distributor answers 200 (state carried from one
// polling round into the next - a cache, a reused buffer - is then in play).
func c15RunOpt(run *ev.Run, u *uni.U, origins []string, wans, dans []string, warm bool, slashed ...bool) {
	// wk: the configured witness key; optionally one whose NAME contains a
	// slash (the target path must still name it in ONE escaped segment).
	wk := u.W1
	if len(slashed) > 0 && slashed[0] {
		wk = u.W4
	}
	// Second option: the LOG keys carry the witness key's NAME (own key
	// material) - a signature by such a log key is not a witness signature.
	namesake := len(slashed) > 1 && slashed[1]
	// prefixed: the distributor service lives below a path prefix (behind a
	// gateway); every PUT must go below that prefix.
	basePrefix := ""
	if len(slashed) > 2 && slashed[2] {
		basePrefix = "/gw/prod"
	}
	var logs []*c15Log
	for i, o := range origins {
		key := u.K1
		if i%2 == 1 {
			key = u.K2
		}
		if namesake {
			key = uni.NewKey(wk.CosigVerif.Name(), ev.Seed()+int64(1000+i%2))
		}
		l := wh.LogCfg{Origin: o, Key: key}
		cl, _ := config.NewLog(o, key.VKey, "http://log.example/")
		lg := &c15Log{cfg: cl, l: l, wans: wans[i], dans: dans[i]}
		text := uni.Body(o, uint64(3+i), u.Main.Root(3+i))
		lg.valid = u.Sign(text, key.Signer, wk.CosigSigner)
		switch lg.wans {
		case "valid":
			lg.cp = u.Sign(text, key.Signer, wk.CosigSigner)
		case "valid-70KiB":
			// 70 KiB of extension lines: legitimate, must travel unabridged.
			var ext []string
			for j := 0; j < 140; j++ {
				ext = append(ext, fmt.Sprintf("x%05d %s", j, strings.Repeat(string(rune('a'+j%26)), 504)))
			}
			lg.cp = u.Sign(uni.Body(o, uint64(3+i), u.Main.Root(3+i), ext...), key.Signer, wk.CosigSigner)
		case "valid-unknown-sig-lines":
			// Signature lines by keys the distributor does not know, before
			// and after the witness's line: "exactly the bytes".
			plain := uni.AppendSigLines(u.Sign(text, key.Signer), uni.JunkSigLines(2))
			_, ws, _ := uni.SplitNote(u.Sign(text, wk.CosigSigner))
			lg.cp = uni.AppendSigLines(uni.AppendSigLines(plain, ws[0]+"\n"), uni.JunkSigLines(1))
		case "valid-witness-line-first":
			// The witness's cosignature line BEFORE the log's line: a valid
			// note (signature order carries no meaning); the target path
			// names the WITNESS key all the same (seeded change C15-s13 took
			// the name from the last verified signature).
			lg.cp = u.Sign(text, wk.CosigSigner, key.Signer)
		case "tail-lf", "tail-crlf", "tail-space", "tail-nonl":
			good := u.Sign(text, key.Signer, wk.CosigSigner)
			switch lg.wans {
			case "tail-lf":
				lg.cp = append(append([]byte{}, good...), '\n')
			case "tail-crlf":
				lg.cp = append(append([]byte{}, good[:len(good)-1]...), '\r', '\n')
			case "tail-space":
				lg.cp = append(append([]byte{}, good...), ' ')
			default:
				lg.cp = append([]byte{}, good[:len(good)-1]...)
			}
		case "wrong-log-key":
			other := u.K2
			if key.Name == u.K2.Name {
				other = u.K1
			}
			lg.cp = u.Sign(text, other.Signer, wk.CosigSigner)
		case "no-witness-sig":
			lg.cp = u.Sign(text, key.Signer)
		case "invalid-witness-sig":
			good := u.Sign(text, key.Signer)
			bad := bytes.Repeat([]byte{7}, 72)
			lg.cp = uni.AppendSigLines(good, uni.SigLine(wk.CosigVerif.Name(), wk.CosigVerif.KeyHash(), bad))
		case "corrupted":
			good := u.Sign(text, key.Signer, wk.CosigSigner)
			lg.cp = append([]byte{}, good...)
			lg.cp[len(o)+1] ^= 1 // size digit
		case "other-logs-checkpoint":
			oo := origins[(i+1)%len(origins)] + "/elsewhere"
			lg.cp = u.Sign(uni.Body(oo, 9, u.Main.Root(5)), key.Signer, wk.CosigSigner)
		case "two-witness-sigs":
			lg.cp = u.Sign(text, key.Signer, wk.CosigSigner, u.W2.CosigSigner)
		case "wrong-origin":
			lg.cp = u.Sign(uni.Body(o+"x", uint64(3+i), u.Main.Root(3+i)), key.Signer, wk.CosigSigner)
		case "foreign-witness-sig-only":
			// cosigned by some other witness, not by the configured one
			lg.cp = u.Sign(text, key.Signer, u.W2.CosigSigner)
		}
		logs = append(logs, lg)
	}
	// Exactly the bytes another configured log's witness answer consists of
	// (a valid checkpoint of THAT log): must not verify for this log.
	for i, lg := range logs {
		var src *c15Log
		switch lg.wans {
		case "same-bytes-as-previous-log":
			src = logs[(i+len(logs)-1)%len(logs)]
		case "same-bytes-as-next-log":
			src = logs[(i+1)%len(logs)]
		default:
			continue
		}
		if src == lg || src.cp == nil || strings.HasPrefix(src.wans, "same-bytes") {
			k := u.K1
			if i%2 == 0 {
				k = u.K2
			}
			lg.cp = u.Sign(uni.Body(origins[i]+"/neighbour", 4, u.Main.Root(4)), k.Signer, wk.CosigSigner)
		} else {
			lg.cp = src.cp
		}
	}
	tr := &c15Transport{logs: logs}
	var cfgs []config.Log
	for _, l := range logs {
		cfgs = append(cfgs, l.cfg)
	}
	d, err := rest.NewDistributor("http://dist.example"+basePrefix, &http.Client{Transport: tr}, cfgs, wk.CosigVerif, &c15Witness{logs: logs})
	if err != nil {
		ev.Internal("NewDistributor: %v", err)
	}
	if warm {
		type saved struct {
			w, d string
			cp   []byte
		}
		var sv []saved
		for _, l := range logs {
			sv = append(sv, saved{l.wans, l.dans, l.cp})
			l.wans, l.dans, l.cp = "valid", "200", l.valid
		}
		if err := c15Once(run, d); err != nil {
			run.Report("warm-round-failed", fmt.Sprintf("a round in which every log is valid and the distributor answers 200 failed: %v", err), nil)
		}
		for i, l := range logs {
			l.wans, l.dans, l.cp = sv[i].w, sv[i].d, sv[i].cp
		}
		tr.puts, tr.all = nil, nil
	}
	derr := c15Once(run, d)

	rep := map[string]any{"kind": "distribute", "origins": origins, "witness_answers": wans, "distributor_answers": dans, "after_a_valid_round": warm, "witness_name_with_slash": wk.Name == u.W4.Name, "log_keys_named_like_the_witness": namesake, "base_url_with_path": basePrefix != ""}
	desc := func(s string) string {
		w := ""
		if warm {
			w = " (second round on the same Distributor, after a round in which everything was valid)"
		}
		return fmt.Sprintf("logs %v, witness answers %v, distributor answers %v%s: %s", origins, wans, dans, w, s)
	}
	wantFail := 0
	putIdx := 0
	for i, l := range logs {
		// "two-witness-sigs": the property says "carry a valid signature by
		// the configured witness key"; a second signature by another witness
		// is outside the claim, so it is not judged either way.
		okW := strings.HasPrefix(l.wans, "valid")
		sig := func(k string) string {
			return fmt.Sprintf("%s witness-answer=%s distributor-answer=%s position=%s", k, l.wans, l.dans, posKind(i, len(logs)))
		}
		wantPath := basePrefix + fmt.Sprintf("/distributor/v0/logs/%s/byWitness/%s/checkpoint", l.cfg.ID, url.PathEscape(wk.CosigVerif.Name()))
		var mine []c15Put
		for _, p := range tr.puts {
			if strings.Contains(p.Path, "/logs/"+l.cfg.ID+"/") {
				mine = append(mine, p)
			}
		}
		if l.wans == "two-witness-sigs" {
			run.Add("cells_outside_claim", 1)
			if len(mine) == 0 {
				wantFail++
			} else if l.dans != "200" && l.dans != "200-after-body-unread" && l.dans != "redirect-307" {
				wantFail++
			}
			continue
		}
		if !okW {
			wantFail++
			if len(mine) > 0 {
				run.Report(sig("pushed-unverified"), desc(fmt.Sprintf("log %d: a checkpoint that must not be distributed (%s) was PUT to the distributor", i, l.wans)), rep)
			}
			continue
		}
		if l.dans == "conn-error" {
			wantFail++
			continue
		}
		if len(mine) != 1 {
			run.Report(sig(fmt.Sprintf("put-count=%d", len(mine))), desc(fmt.Sprintf("log %d: %d PUT requests were made for a valid checkpoint, want exactly 1 (an earlier failure must not stop later logs)", i, len(mine))), rep)
			if len(mine) == 0 {
				continue
			}
		}
		p := mine[0]
		if p.Path != wantPath {
			run.Report(sig("put-path"), desc(fmt.Sprintf("log %d: PUT path %s, want %s", i, p.Path, wantPath)), rep)
		}
		if l.dans != "200-after-body-unread" && !bytes.Equal(p.Body, l.cp) {
			run.Report(sig("put-body"), desc(fmt.Sprintf("log %d: PUT body (%d bytes) is not byte-identical to the checkpoint the witness reported (%d bytes)", i, len(p.Body), len(l.cp))), rep)
		}
		switch l.dans {
		case "200", "200-after-body-unread", "redirect-307":
		default:
			wantFail++
		}
		putIdx++
	}
	// No request for anything else.
	for _, p := range tr.puts {
		known := false
		for _, l := range logs {
			if strings.Contains(p.Path, "/logs/"+l.cfg.ID+"/") {
				known = true
			}
		}
		if !known {
			run.Report("put-for-unknown-log", desc("a PUT was made for a log that is not configured: "+p.Path), rep)
		}
	}
	run.Hist("results", fmt.Sprintf("failures=%d err=%v", wantFail, derr != nil))
	if (wantFail > 0) != (derr != nil) {
		run.Report(fmt.Sprintf("overall-result failures=%v error=%v", wantFail > 0, derr != nil), desc(fmt.Sprintf("%d logs must count as failed but DistributeOnce returned %v", wantFail, derr)), rep)
	} else if derr != nil && !strings.Contains(derr.Error(), fmt.Sprintf("%d out of %d", wantFail, len(logs))) {
		run.Report("failure-count", desc(fmt.Sprintf("%d of %d logs failed but the result says %q", wantFail, len(logs), derr.Error())), rep)
	}
	// The NEXT polling round of the same Distributor, in which everything is
	// valid: whatever happened in the judged round, every configured log is
	// fetched and pushed exactly once again (a failure is for that round and
	// that log only).
	for _, l := range logs {
		l.wans, l.dans, l.cp = "valid", "200", l.valid
	}
	tr.puts, tr.all = nil, nil
	nerr := c15Once(run, d)
	run.Add("following_valid_rounds", 1)
	if nerr != nil {
		run.Report("next-round-failed after="+failShape(wans, dans), desc(fmt.Sprintf("the following round, in which every log is valid and the distributor answers 200, failed: %v", nerr)), rep)
	}
	for i, l := range logs {
		n := 0
		exact := true
		for _, p := range tr.puts {
			if strings.Contains(p.Path, "/logs/"+l.cfg.ID+"/") {
				n++
				exact = exact && bytes.Equal(p.Body, l.valid)
			}
		}
		if n != 1 || !exact {
			run.Report(fmt.Sprintf("next-round put-count=%d exact=%v position=%s after=%s", n, exact, posKind(i, len(logs)), failShape(wans, dans)), desc(fmt.Sprintf("in the following all-valid round log %d got %d PUTs (bodies exact: %v), want exactly 1", i, n, exact)), rep)
			break
		}
	}
}

// failShape abstracts which positions failed in the judged round.
func failShape(wans, dans []string) string {
	var sb strings.Builder
	for i := range wans {
		if strings.HasPrefix(wans[i], "valid") && (dans[i] == "200" || dans[i] == "200-after-body-unread" || dans[i] == "redirect-307") {
			sb.WriteByte('.')
		} else {
			sb.WriteByte('F')
		}
	}
	return sb.String()
}

func posKind(i, n int) string {
	switch {
	case n == 1:
		return "only"
	case i == 0:
		return "first"
	case i == n-1:
		return "last"
	}
	return "middle"
}

func c15(tier string) int {
	run := ev.NewRun("C15", tier, "fault_enumeration")
	u := uni.New(ev.Seed(), 12, nil)
	var total int64
	origins := []string{"verif.example/d0", "verif.example/d1", "verif.example/d2", "verif.example/d3", "verif.example/d4", "verif.example/d5"}
	type asg struct {
		n          int
		wans, dans []string
	}
	var asgs []asg
	exec := func(n int, wans, dans []string) { asgs = append(asgs, asg{n, wans, dans}) }
	defer func() {}()
	runAll := func() {
		var mu sync.Mutex
		var wg sync.WaitGroup
		ch := make(chan asg, 256)
		for w := 0; w < workers(); w++ {
			wg.Add(1)
			go func() {
				defer wg.Done()
				for a := range ch {
					c15Run(run, u, origins[:a.n], a.wans, a.dans)
					k := int64(1)
					run.Distinct(fmt.Sprint(a.n, a.wans, a.dans))
					if a.n <= 2 || tier == "thorough" {
						// the same assignment as the SECOND polling round of a Distributor
						c15RunOpt(run, u, origins[:a.n], a.wans, a.dans, true)
						k++
					}
					if a.n <= 2 {
						// ... and with a witness key whose name contains '/'.
						c15RunOpt(run, u, origins[:a.n], a.wans, a.dans, false, true)
						// ... and with log keys that carry the witness key's name.
						c15RunOpt(run, u, origins[:a.n], a.wans, a.dans, false, false, true)
						// ... and with the distributor service below a path prefix.
						c15RunOpt(run, u, origins[:a.n], a.wans, a.dans, false, false, false, true)
						k += 3
						run.Distinct(fmt.Sprint("warm", a.n, a.wans, a.dans))
					}
					mu.Lock()
					total += k
					mu.Unlock()
				}
			}()
		}
		for _, a := range asgs {
			ch <- a
		}
		close(ch)
		wg.Wait()
	}
	// 1 and 2 logs: all assignments.
	for _, n := range []int{1, 2} {
		var rec func(i int, wans, dans []string)
		rec = func(i int, wans, dans []string) {
			if i == n {
				exec(n, append([]string{}, wans...), append([]string{}, dans...))
				return
			}
			for _, w := range c15WitnessAnswers {
				for _, d := range c15DistAnswers {
					rec(i+1, append(wans, w), append(dans, d))
				}
			}
		}
		rec(0, nil, nil)
	}
	// 3..6 logs: all assignments with at most k logs deviating from (valid, 200).
	k := 2
	if tier == "thorough" {
		k = 3
	}
	for n := 3; n <= 6; n++ {
		kk := k
		if n > 4 && tier != "thorough" {
			kk = 1
		}
		if n > 4 && tier == "thorough" {
			kk = 2
		}
		var rec func(i, dev int, wans, dans []string)
		rec = func(i, dev int, wans, dans []string) {
			if i == n {
				exec(n, append([]string{}, wans...), append([]string{}, dans...))
				return
			}
			rec(i+1, dev, append(wans, "valid"), append(dans, "200"))
			if dev == kk {
				return
			}
			for _, w := range c15WitnessAnswers {
				for _, d := range c15DistAnswers {
					if w == "valid" && d == "200" {
						continue
					}
					// Distributor answers matter only when something is sent.
					if !strings.HasPrefix(w, "valid") && w != "two-witness-sigs" && d != "200" {
						continue
					}
					// The two unusual valid shapes: with the accepting, one
					// refusing and the body-unread distributor answer only.
					if w != "valid" && strings.HasPrefix(w, "valid") && d != "200" && d != "500" && d != "200-after-body-unread" {
						continue
					}
					rec(i+1, dev+1, append(wans, w), append(dans, d))
				}
			}
		}
		rec(0, 0, nil, nil)
	}
	runAll()
	run.Sample(map[string]any{"logs": 3, "witness_answers": []string{"valid", "invalid-witness-sig", "valid"}, "distributor_answers": []string{"conn-error", "200", "redirect-302"}, "expect": "PUT for logs 0 and 2 only, exact bytes, error reporting 2 out of 3"})
	run.Set("evaluations", total)
	run.Set("assignments", total)
	run.Set("exhaustive", true)
	run.Set("witness_answer_menu", c15WitnessAnswers)
	run.Set("distributor_answer_menu", c15DistAnswers)
	run.Set("rule", fmt.Sprintf("the real Distributor.DistributeOnce with a scripted witness and an in-process stub distributor (RoundTripper): ALL assignments of (witness answer x distributor answer) for 1 and 2 logs, each also as the second polling round of a Distributor whose first round was entirely valid; for 3..6 logs all assignments with at most %d logs (1-2 for 5-6 logs) deviating from (valid, 200) at every position. For 1 and 2 logs every assignment also with a witness key whose name contains a slash (the path names it in one escaped segment), with log keys that carry the witness key's NAME, and with a distributor base URL that has a path component (every PUT stays below it). Oracle: exactly one PUT per log whose witness answer is valid, at /distributor/v0/logs/<id>/byWitness/<witness key name>/checkpoint, body byte-identical to what the witness reported; no PUT for any other log; every log attempted regardless of earlier failures; error iff some log failed, with the right count; then one more round on the same Distributor in which everything is valid: every log pushed exactly once, exact bytes, no error. The two unusual valid shapes (70 KiB of extension lines; unknown signature lines around the witness line) are combined with distributor answers 200, 500 and body-left-unread only. distinct_nontrivial = distinct assignments", k))
	run.Assumption("a checkpoint carrying a second, foreign witness signature is outside the property's claim and is not judged; a connection error is modelled as failing before the request body is read")
	// Bastion-only operation (polling off, distributor on): Main still hands
	// the distributor every configured log.
	mainLogLists(run, "shipped-config-polling-off", "the embedded logs.yaml with polling switched off", omniwitness.ConfigLogs, true)
	// Through the real binary: the HTTP client cmd/omniwitness builds.
	c15Binary(run)
	return run.Finish()
}

// c15Once is DistributeOnce with a panic of the code under test reported (a
// transport error or an odd answer 'counts as a failure for that log only' -
// a panic ends the round for every log) and turned into the round's error.
func c15Once(run *ev.Run, d *rest.Distributor) (err error) {
	defer func() {
		if p := recover(); p != nil {
			run.Report("distribute-round-panics", fmt.Sprintf("DistributeOnce panicked: %v", p), map[string]any{"kind": "distribute-panic"})
			err = fmt.Errorf("DistributeOnce panicked: %v", p)
		}
	}()
	return d.DistributeOnce(context.Background())
}
