package checks

import (
	"bytes"
	"fmt"
	"sync"
	"sync/atomic"

	"github.com/transparency-dev/witness/verifmc/ev"
	"github.com/transparency-dev/witness/verifmc/ref6962"
	"github.com/transparency-dev/witness/verifmc/uni"
	"github.com/transparency-dev/witness/verifmc/wh"
)

// uniformGrid is {2^k-1, 2^k, 2^k+1 : 0 <= k <= 62} intersected with [1, 2^62+1].
func uniformGrid(reduced bool) []uint64 {
	seen := map[uint64]bool{}
	var g []uint64
	add := func(v uint64) {
		if v >= 1 && !seen[v] {
			seen[v] = true
			g = append(g, v)
		}
	}
	ks := []int{}
	for k := 0; k <= 62; k++ {
		ks = append(ks, k)
	}
	if reduced {
		ks = []int{0, 1, 2, 3, 8, 16, 31, 32, 33, 62}
	}
	for _, k := range ks {
		for _, d := range []int64{-1, 0, 1} {
			add(uint64(int64(uint64(1)<<uint(k)) + d))
		}
	}
	// Sizes a log can sign although no real tree has them: around 2^63 and
	// the largest uint64 (int64 wrap-around, sign confusion).
	for _, v := range []uint64{1<<63 - 1, 1 << 63, 1<<63 + 1, 1<<63 + 5, ^uint64(0) - 1, ^uint64(0)} {
		add(v)
	}
	return g
}

// uniformTable explores the power-of-two grid up to 2^62 on "uniform" trees
// (all leaves identical, so roots and RFC 6962 proofs of any size are
// computable exactly in O(log^2 n)): two families A and B that are
// inconsistent with each other at every size. For prop C09 every cell is
// compared with wmodel; for C01 accepted transitions are checked against the
// ground truth (same family and not smaller); for C08 every honest step s -> n
// must be accepted.
func uniformTable(run *ev.Run, prop string, states *int, trans *int64) {
	uniformTableTier(run, prop, false, states, trans)
}

// uniformTableTier: reduced = the quick tier's grid.
func uniformTableTier(run *ev.Run, prop string, reduced bool, states *int, trans *int64) {
	u := uni.New(ev.Seed(), 2, nil)
	la := wh.LogCfg{Origin: logA(), Key: u.K1}
	fam := map[string]*ref6962.Uniform{"A": ref6962.NewUniform([]byte("uniform-leaf-A")), "B": ref6962.NewUniform([]byte("uniform-leaf-B"))}
	grid := uniformGrid(reduced)
	submitted := append([]uint64{0}, grid...)
	cp := func(f string, n uint64) ([]byte, wh.Meta) {
		r := fam[f].Root(n)
		text := uni.Body(la.Origin, n, r[:])
		return u.Sign(text, la.Key.Signer), wh.Meta{Origin: la.Origin, KeyName: wh.KeyID(la.Key.Verif), Size: n, Root: r[:], Text: text, Shape: "uniform-" + f}
	}
	proofOf := func(f string, s, n uint64) [][]byte {
		if s == 0 || s >= n {
			return [][]byte{}
		}
		return ref6962.Bytes(fam[f].Proof(s, n))
	}
	gridIndex := map[uint64]int{}
	for i, v := range grid {
		gridIndex[v] = i
	}
	var nTrans atomic.Int64
	var nStates atomic.Int64
	ch := make(chan uint64)
	var wg sync.WaitGroup
	for w := 0; w < workers(); w++ {
		wg.Add(1)
		go func() {
			defer wg.Done()
			for s := range ch {
				nStates.Add(1)
				seedCP, seedMeta := cp("A", s)
				// Both stores: stored sizes alternate between them (every grid
				// size is submitted to both).
				store := "mem"
				if gridIndex[s]%2 == 1 {
					store = "sql"
				}
				mk := func() *wh.Env {
					e := wh.NewEnv(u, wh.Config{Store: store, Logs: []wh.LogCfg{la}})
					if out := e.Do(wh.Req{LogID: la.ID(), CP: seedCP, Meta: seedMeta}); out.Class != wh.OK {
						ev.Internal("uniform table: seeding size %d failed: %v", s, out.Err)
					}
					return e
				}
				e := mk()
				st := wh.MState{Has: true, Size: s, Root: seedMeta.Root}
				for _, n := range submitted {
					for _, f := range []string{"A", "B"} {
						c, meta := cp(f, n)
						olds := []uint64{s}
						if prop == "C09" || prop == "C01" {
							olds = []uint64{s, s - 1, s + 1, n, 0, 1 << 63, ^uint64(0)}
						}
						for _, old := range olds {
							type pv struct {
								l string
								p [][]byte
							}
							good := proofOf(f, s, n)
							pvs := []pv{{"correct-for-submitted-family", good}}
							if prop != "C08" {
								pvs = append(pvs, pv{"empty", [][]byte{}})
								if f == "B" {
									pvs = append(pvs, pv{"correct-for-stored-family", proofOf("A", s, n)})
								}
								if len(good) > 0 {
									pvs = append(pvs, pv{"drop-last", good[:len(good)-1]}, pv{"drop-first", good[1:]})
									fl := append([][]byte{}, good...)
									fl[len(fl)/2] = append([]byte{fl[len(fl)/2][0] ^ 1}, fl[len(fl)/2][1:]...)
									pvs = append(pvs, pv{"flip-middle", fl})
								}
								if s > 1 && old != s {
									pvs = pvs[:2]
								}
							} else if f == "B" || n < s {
								continue
							}
							for _, v := range pvs {
								r := wh.Req{LogID: la.ID(), Old: old, CP: c, Proof: v.p, Meta: meta, Label: fmt.Sprintf("uniform %s@%d old=%d proof=%s", f, n, old, v.l)}
								exp := wh.Model(&la, st, r)
								before := string(e.Stored(la.ID()))
								out := e.Do(r)
								after := string(e.Stored(la.ID()))
								nTrans.Add(1)
								got := "nil"
								switch {
								case out.Bytes == nil:
								case string(out.Bytes) == before:
									got = "stored"
								case out.Class == wh.OK && string(out.Bytes) == after:
									got = "new"
								default:
									got = "other"
								}
								// Whatever the property: an accepted request is stored as submitted.
								if out.Class == wh.OK {
									if text, _, ok := uni.SplitNote([]byte(after)); !ok || text != meta.Text {
										run.Report("uniform-grid accepted-not-stored store="+store, fmt.Sprintf("uniform tree on the %s store, stored size %d: request %q was answered as accepted but the store does not hold the submitted checkpoint", store, s, r.Label), map[string]any{"kind": "uniform-cell", "stored_size": fmt.Sprint(s), "submitted_size": fmt.Sprint(n), "store": store})
									}
								}
								rep := map[string]any{"kind": "uniform-cell", "stored_size": fmt.Sprint(s), "submitted_family": f, "submitted_size": fmt.Sprint(n), "old": fmt.Sprint(old), "proof": v.l}
								cell := fmt.Sprintf("stored=2^k%+d submitted=%s old-rel=%s proof=%s", gridOffset(s), f, oldRel(old, s, n), v.l)
								switch prop {
								case "C09":
									if exp.Claimed && (out.Class != exp.Class || got != exp.Ret) {
										run.Report(fmt.Sprintf("uniform-grid verdict expected=%s/%s got=%s/%s", exp.Class, exp.Ret, out.Class, got), fmt.Sprintf("uniform tree, stored size %d, request %q: answered %s/%s (%v), model says %s/%s", s, r.Label, out.Class, got, out.Err, exp.Class, exp.Ret), rep)
									}
									if tv, app := tlogVerdict(s, n, v.p, st.Root, meta.Root); app && old == s && n > s {
										rv, _ := ref6962.Verify(s, n, v.p, st.Root, meta.Root)
										if tv != rv {
											ev.Internal("reference verifiers disagree on the uniform grid at %d -> %d (%s)", s, n, v.l)
										}
										run.Add("proof_verdicts_cross_checked_with_tlog", 1)
									}
									run.Hist("uniform_verdicts", exp.Class)
								case "C01":
									if out.Class == wh.OK || after != before {
										if f != "A" || n < s || (n == s && !bytes.Equal(meta.Root, st.Root)) {
											run.Report("uniform-grid inconsistent-accepted "+cell, fmt.Sprintf("uniform tree, stored A@%d: request %q was accepted: split view / regression cosigned", s, r.Label), rep)
										}
										run.Hist("accepted_kinds", "uniform-growth-or-refresh")
									}
								case "C08":
									if out.Class != wh.OK {
										run.Report(fmt.Sprintf("uniform-grid honest-step-refused verdict=%s", out.Class), fmt.Sprintf("uniform tree: honest step %d -> %d with a correct proof was refused: %v", s, n, out.Err), rep)
									}
									run.Hist("probe_outcomes", out.Class)
								}
								if after != before {
									e.Close()
									e = mk()
								}
							}
						}
					}
				}
				e.Close()
			}
		}()
	}
	for _, s := range grid {
		ch <- s
	}
	close(ch)
	wg.Wait()
	*states += int(nStates.Load())
	*trans += nTrans.Load()
	run.Set("uniform_grid_sizes", len(grid))
	run.Set("uniform_grid_transitions", nTrans.Load())
	run.Set("uniform_grid", fmt.Sprintf("stored and submitted sizes on {2^k-1, 2^k, 2^k+1 : k in %s} plus 2^63-1, 2^63, 2^63+1, 2^63+5, 2^64-2, 2^64-1 (submitted also 0): all pairs, exact - not sampled; stored sizes alternate between the in-memory and the SQL store; two mutually inconsistent uniform-leaf tree families, proofs computed exactly from perfect-subtree hashes", map[bool]string{true: "{0,1,2,3,8,16,31,32,33,62}", false: "0..62"}[reduced]))
}

func gridOffset(s uint64) int {
	switch {
	case s&(s-1) == 0:
		return 0
	case (s+1)&s == 0:
		return -1
	}
	return 1
}

func oldRel(old, s, n uint64) string {
	switch {
	case old == s:
		return "=stored"
	case old > n:
		return ">submitted"
	case old < s:
		return "<stored"
	}
	return ">stored"
}
