package checks

import "github.com/transparency-dev/witness/verifmc/ev"

func uniformTable(run *ev.Run, prop string, states *int, trans *int64) {}
