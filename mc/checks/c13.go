package checks

import (
	"crypto/sha256"
	"bytes"
	"context"
	"encoding/json"
	"errors"
	"fmt"
	"github.com/transparency-dev/witness/internal/persistence"
	"github.com/transparency-dev/witness/verifmc/lspwrap"
	"net/url"
	"os"
	"os/exec"
	"strings"
	"sync"
	"sync/atomic"
	"time"

	f_log "github.com/transparency-dev/formats/log"
	"github.com/transparency-dev/witness/internal/feeder"
	"github.com/transparency-dev/witness/internal/witness"
	"github.com/transparency-dev/witness/omniwitness"
	"github.com/transparency-dev/witness/verifmc/choice"
	"github.com/transparency-dev/witness/verifmc/ev"
	"github.com/transparency-dev/witness/verifmc/uni"
	"github.com/transparency-dev/witness/verifmc/wh"
)

func init() { Registry["C13"] = c13 }

var errTransient = errors.New("verif: transient failure")

// Transient failures come in the kinds real clients produce: a plain error, a
// per-request timeout (net/http reports *url.Error wrapping
// context.DeadlineExceeded) and an inner cancellation - all while the
// feeder's own context is live, so all of them must be retried.
var c13Failures = []error{
	errTransient,
	&url.Error{Op: "Get", URL: "http://witness.test/", Err: context.DeadlineExceeded},
	fmt.Errorf("verif: rpc failed: %w", context.Canceled),
}

type c13Call struct {
	Kind        string // get, proof, update, fetchcp
	Attempt     int
	Old         uint64
	CP          []byte
	Proof       [][]byte
	From        f_log.Checkpoint
	To          f_log.Checkpoint
	Ret         []byte
	Err         error
	AfterCancel bool
}

// c13Stub is a scripted witness: it holds (main, w) or nothing and accepts any
// update whose old size matches, cosigning it itself.
type c13Stub struct {
	u    *uni.U
	l    wh.LogCfg
	has  bool
	size int
	br   *uni.Branch
	head int
}

func (s *c13Stub) latest() []byte {
	if !s.has {
		return nil
	}
	return s.u.Sign(uni.Body(s.l.Origin, uint64(s.size), s.br.Root(s.size)), s.l.Key.Signer, s.u.W1.CosigSigner)
}

type c13Scenario struct {
	Bound int
	W     int // -1 = nothing stored
	Head  int
	Kind  string // honest, fork, wrong-key, wrong-origin
	Real  bool
}

func (sc c13Scenario) String() string {
	m := "stub"
	if sc.Real {
		m = "real"
	}
	return fmt.Sprintf("%s witness=%d head=%d %s", m, sc.W, sc.Head, sc.Kind)
}

// c13Exec runs one feed cycle under one chooser and applies the oracle.
// c13StopGrace: how long a cycle whose context has ended and whose every
// environment call is answered at once may take to return before it is held
// to be not stopping.
const c13StopGrace = 60 * time.Second

var c13Stuck atomic.Bool

func rep13Snapshot(sc c13Scenario, c *choice.C) map[string]any {
	return map[string]any{"kind": "feed-cycle", "scenario": sc.String(), "choices": append([]int{}, c.Choices()...), "deviations": append([]string{}, c.Trace()...)}
}

func c13Honest(kind string) bool { return kind == "honest" || strings.HasPrefix(kind, "honest+") }

func c13Exec(run *ev.Run, u *uni.U, gen *wh.CPGen, la wh.LogCfg, sc c13Scenario, c *choice.C, horizon int) {
	m, fk := u.Main, u.Forks[0]
	headBranch := m
	if sc.Kind == "fork" {
		headBranch = fk
	}
	// The log's head checkpoint as served.
	var headCP []byte
	switch sc.Kind {
	case "wrong-key":
		headCP = u.Sign(uni.Body(la.Origin, uint64(sc.Head), m.Root(sc.Head)), u.K2.Signer)
	case "wrong-origin":
		headCP = u.Sign(uni.Body(la.Origin+"/other", uint64(sc.Head), m.Root(sc.Head)), la.Key.Signer)
	case "tail-lf", "tail-crlf", "tail-space", "tail-nonl", "tail-nul":
		// A correctly signed checkpoint served with a malformed tail: not a
		// note, so it verifies under nothing - tidying it up before the check
		// and sending the raw bytes would submit something unverified.
		good, _ := gen.Get(la, m, sc.Head, "plain")
		switch sc.Kind {
		case "tail-lf":
			headCP = append(append([]byte{}, good...), '\n')
		case "tail-crlf":
			headCP = append(append([]byte{}, good[:len(good)-1]...), '\r', '\n')
		case "tail-space":
			headCP = append(append([]byte{}, good...), ' ')
		case "tail-nonl":
			headCP = append([]byte{}, good[:len(good)-1]...)
		case "tail-nul":
			headCP = append(append([]byte{}, good...), 0)
		}
	default:
		headCP, _ = gen.Get(la, headBranch, sc.Head, "plain")
		switch sc.Kind {
		case "honest+foreign-first":
			// A signature line of a key the witness does not know stands BEFORE
			// the log's own line (another witness's cosignature, the log's next
			// key): what the witness answers is then no byte-extension of what
			// was submitted - note.Sign writes verified signatures first.
			text, sigs, _ := uni.SplitNote(headCP)
			headCP = []byte(text + "\n" + uni.JunkSigLines(1) + sigs[0] + "\n")
		case "honest+dup-logsig":
			headCP, _ = gen.Get(la, headBranch, sc.Head, "dup-logsig")
		case "honest+own-cosig":
			// The log serves a checkpoint that already carries this witness's
			// (older) cosignature.
			headCP, _ = gen.Get(la, headBranch, sc.Head, "stale-own-valid")
		}
	}
	valid := c13Honest(sc.Kind) || sc.Kind == "fork"

	// Witness under test.
	failRead := false // real mode: the witness's next storage read fails
	var inner feeder.Witness
	var env *wh.Env
	stub := &c13Stub{u: u, l: la, has: sc.W >= 0, size: sc.W, br: m, head: sc.Head}
	if sc.Real {
		env = wh.NewEnv(u, wh.Config{Store: "mem", Logs: []wh.LogCfg{la}, Wrap: func(p persistence.LogStatePersistence) persistence.LogStatePersistence {
			return lspwrap.New(p, lspwrap.Hooks{Fault: func(op, id string) (error, bool) {
				if failRead && (op == "ReadOps" || op == "r.GetLatest") {
					failRead = false
					return errInjected, false
				}
				return nil, false
			}})
		}})
		defer env.Close()
		if sc.W >= 0 {
			cp, meta := gen.Get(la, m, sc.W, "plain")
			if out := env.Do(wh.Req{LogID: la.ID(), CP: cp, Meta: meta}); out.Class != wh.OK {
				ev.Internal("C13: seeding the real witness failed: %v", out.Err)
			}
		}
		inner = omniwitness.VerifWitnessAdapter(env.W)
	}
	curSize := func() (int, bool) {
		if sc.Real {
			st, _ := wh.StateOf(gen, env.Stored(la.ID()))
			return int(st.Size), st.Has
		}
		return stub.size, stub.has
	}
	// Out-of-band advance of the witness by one honest step (another feeder).
	advance := func() bool {
		s, has := curSize()
		if !has || s == 0 || s+1 > u.N {
			return false
		}
		if sc.Real {
			cp, meta := gen.Get(la, m, s+1, "plain")
			return env.Do(wh.Req{LogID: la.ID(), Old: uint64(s), CP: cp, Proof: m.Proof(s, s+1), Meta: meta}).Class == wh.OK
		}
		stub.size++
		return true
	}

	ctx, cancel := context.WithCancel(context.Background())
	defer cancel()
	cancelled := false
	var calls []*c13Call
	attempt := 0
	rec := func(k string) *c13Call {
		cl := &c13Call{Kind: k, Attempt: attempt, AfterCancel: cancelled}
		calls = append(calls, cl)
		return cl
	}
	w := &c13Witness{
		get: func(ctx context.Context, id string) ([]byte, error) {
			attempt++
			cl := rec("get")
			nGet := 5
			if sc.Real {
				nGet = 6 // + the witness's own storage read fails underneath the adapter
			}
			switch k := c.Choose(nGet, "GetLatestCheckpoint"); k {
			case 1, 2, 3:
				cl.Err = c13Failures[k-1]
				return nil, cl.Err
			case 4:
				advance()
			case 5:
				failRead = true
			}
			if sc.Real {
				_, had := curSize()
				cl.Ret, cl.Err = inner.GetLatestCheckpoint(ctx, id)
				if failRead {
					failRead = false // the read path did not touch the store
				} else if had && errors.Is(cl.Err, os.ErrNotExist) {
					run.Report("storage-error-reported-as-no-checkpoint", fmt.Sprintf("scenario %s: the witness holds a checkpoint, its storage read failed, and the adapter told the feeder that no checkpoint exists (the feeder then proceeds as on first use)", sc), nil)
				}
				return cl.Ret, cl.Err
			}
			if !stub.has {
				cl.Err = os.ErrNotExist
				return nil, os.ErrNotExist
			}
			cl.Ret = stub.latest()
			return cl.Ret, nil
		},
		update: func(ctx context.Context, id string, old uint64, cp []byte, proof [][]byte) ([]byte, error) {
			cl := rec("update")
			cl.Old, cl.CP, cl.Proof = old, cp, proof
			switch k := c.Choose(5, "Update"); k {
			case 1, 2, 3:
				cl.Err = c13Failures[k-1]
				return nil, cl.Err
			case 4:
				advance()
			}
			if sc.Real {
				cl.Ret, cl.Err = inner.Update(ctx, id, old, cp, proof)
				return cl.Ret, cl.Err
			}
			if stub.has && int(old) != stub.size {
				cl.Ret, cl.Err = stub.latest(), witness.ErrCheckpointStale
				return cl.Ret, cl.Err
			}
			stub.has, stub.size, stub.br = true, sc.Head, headBranch
			cl.Ret = stub.latest()
			return cl.Ret, nil
		},
	}
	opts := feeder.FeedOpts{
		LogID: la.ID(),
		FetchCheckpoint: func(ctx context.Context) ([]byte, error) {
			cl := rec("fetchcp")
			if c.Choose(2, "FetchCheckpoint") == 1 {
				cl.Err = errTransient
				return nil, errTransient
			}
			return headCP, nil
		},
		FetchProof: func(ctx context.Context, from, to f_log.Checkpoint) ([][]byte, error) {
			cl := rec("proof")
			cl.From, cl.To = from, to
			if k := c.Choose(4, "FetchProof"); k > 0 {
				cl.Err = c13Failures[k-1]
				return nil, cl.Err
			}
			p := [][]byte{}
			if from.Size > 0 && from.Size < to.Size && int(to.Size) <= u.N {
				p = headBranch.Proof(int(from.Size), int(to.Size))
			}
			cl.Proof = p
			return p, nil
		},
		LogSigVerifier: la.Key.Verif,
		LogOrigin:      la.Origin,
		Witness:        w,
	}
	timers := 0
	horizonHit := false
	// A cycle whose context has ended has nothing left to wait for: every
	// environment call is answered at once by the explorer. If it has not
	// returned c13StopGrace later it does not stop when its context ends
	// (it waits on something other than the context it was given); that is
	// reported once and the exploration is cut there.
	returned := make(chan struct{})
	watch := func() {
		sn := rep13Snapshot(sc, c)
		go func() {
			select {
			case <-returned:
			case <-time.After(c13StopGrace):
				if c13Stuck.CompareAndSwap(false, true) {
					run.Report(fmt.Sprintf("does-not-stop-when-context-ends kind=%s mode=%s", sc.Kind, map[bool]string{true: "real", false: "stub"}[sc.Real]),
						fmt.Sprintf("scenario [%s], environment answers %v: the context ended while the cycle waited to retry and FeedOnce had not returned %s later (it is not waiting on the context it was given); exploration cut here", sc, sn["deviations"], c13StopGrace), sn)
					run.Set("exhaustive", false)
					os.Exit(run.Finish())
				}
			}
		}()
	}
	releaseHook := wh.GoroutineTimerHook(func(d time.Duration) bool {
		timers++
		if timers > horizon {
			cancelled, horizonHit = true, true
			cancel()
			watch()
			return false
		}
		if c.Choose(2, "backoff-timer") == 1 {
			cancelled = true
			cancel()
			watch()
			return false
		}
		return true
	})
	res, err := feeder.FeedOnce(ctx, opts)
	releaseHook()
	close(returned)

	// ------------------------------------------------------------ oracle
	rep := map[string]any{"kind": "feed-cycle", "scenario": sc.String(), "choices": c.Choices(), "deviations": c.Trace()}
	desc := func(s string) string {
		return fmt.Sprintf("scenario [%s], environment answers %v: %s", sc, c.Trace(), s)
	}
	sig := func(k string) string {
		mode := "stub"
		if sc.Real {
			mode = "real"
		}
		return fmt.Sprintf("%s kind=%s witness=%s mode=%s", k, sc.Kind, map[bool]string{true: "empty", false: "has-checkpoint"}[sc.W < 0], mode)
	}
	var witnessCalls []*c13Call
	for _, cl := range calls {
		if cl.Kind != "fetchcp" {
			witnessCalls = append(witnessCalls, cl)
		}
		if cl.AfterCancel {
			run.Report(sig("call-after-context-ended"), desc("a "+cl.Kind+" call was made after the context had ended"), rep)
			return
		}
	}
	outcome := "error"
	if err == nil {
		outcome = "ok"
	}
	run.Hist("cycle_outcomes", fmt.Sprintf("%s %s", sc.Kind, outcome))
	if !valid || (len(calls) > 0 && calls[0].Err != nil) {
		// Nothing may be sent for an unverifiable checkpoint or a failed fetch.
		if len(witnessCalls) > 0 || err == nil {
			run.Report(sig("submitted-unverified-checkpoint"), desc(fmt.Sprintf("%d witness/proof calls were made and err=%v although the fetched checkpoint does not verify or was not fetched", len(witnessCalls), err)), rep)
		}
		return
	}
	submit := f_log.Checkpoint{Origin: la.Origin, Size: uint64(sc.Head), Hash: headBranch.Root(sc.Head)}
	byAttempt := map[int][]*c13Call{}
	maxAttempt := 0
	for _, cl := range witnessCalls {
		byAttempt[cl.Attempt] = append(byAttempt[cl.Attempt], cl)
		if cl.Attempt > maxAttempt {
			maxAttempt = cl.Attempt
		}
	}
	var lastOK *c13Call
	permanentSeen := false
	for a := 1; a <= maxAttempt; a++ {
		cs := byAttempt[a]
		if permanentSeen {
			run.Report(sig("retried-after-permanent-error"), desc("another attempt was made after the witness was found to be ahead"), rep)
			return
		}
		if len(cs) == 0 || cs[0].Kind != "get" {
			run.Report(sig("attempt-without-get-latest"), desc("an attempt did not start by asking the witness for its latest checkpoint"), rep)
			return
		}
		if cs[0].Err != nil && !errors.Is(cs[0].Err, os.ErrNotExist) {
			if len(cs) > 1 {
				run.Report(sig("continued-after-failed-get-latest"), desc("the attempt went on after GetLatestCheckpoint failed"), rep)
			}
			continue
		}
		var latest f_log.Checkpoint
		if len(cs[0].Ret) > 0 {
			text, _, _ := uni.SplitNote(cs[0].Ret)
			meta, ok := gen.TextMeta(text)
			if !ok {
				// stub-made or out-of-band checkpoints: parse size from the text
				var sz uint64
				lines := strings.Split(text, "\n")
				fmt.Sscanf(lines[1], "%d", &sz)
				latest = f_log.Checkpoint{Origin: la.Origin, Size: sz, Hash: m.Root(int(sz))}
			} else {
				latest = f_log.Checkpoint{Origin: la.Origin, Size: meta.Size, Hash: meta.Root}
			}
		}
		rest := cs[1:]
		if latest.Size > submit.Size {
			permanentSeen = true
			if len(rest) > 0 {
				run.Report(sig("submitted-while-witness-ahead"), desc(fmt.Sprintf("witness at %d, log at %d: %d further calls were made in that attempt", latest.Size, submit.Size, len(rest))), rep)
				return
			}
			continue
		}
		same := len(cs[0].Ret) > 0 && latest.Size == submit.Size && bytes.Equal(latest.Hash, submit.Hash)
		var proofCall, upd *c13Call
		for _, cl := range rest {
			switch cl.Kind {
			case "proof":
				if proofCall != nil {
					run.Report(sig("proof-fetched-twice"), desc("FetchProof was called more than once in one attempt"), rep)
					return
				}
				proofCall = cl
			case "update":
				if upd != nil {
					run.Report(sig("update-twice"), desc("Update was called more than once in one attempt"), rep)
					return
				}
				upd = cl
			default:
				run.Report(sig("unexpected-call"), desc("unexpected "+cl.Kind+" call inside an attempt"), rep)
				return
			}
		}
		if same {
			if proofCall != nil {
				run.Report(sig("proof-fetched-for-equal-checkpoints"), desc("FetchProof was called although witness and log are at the same checkpoint"), rep)
			}
		} else {
			if proofCall == nil {
				if upd != nil {
					run.Report(sig("update-without-proof-fetch"), desc("Update was sent without fetching a proof in that attempt"), rep)
				}
				continue
			}
			if proofCall.From.Size != latest.Size || !bytes.Equal(proofCall.From.Hash, latest.Hash) || proofCall.To.Size != submit.Size || !bytes.Equal(proofCall.To.Hash, submit.Hash) {
				run.Report(sig("proof-anchor"), desc(fmt.Sprintf("FetchProof(from=%d, to=%d) but the witness reported %d in this attempt and the submitted checkpoint is %d", proofCall.From.Size, proofCall.To.Size, latest.Size, submit.Size)), rep)
				return
			}
			if proofCall.Err != nil {
				if upd != nil {
					run.Report(sig("update-after-failed-proof-fetch"), desc("Update was sent although FetchProof failed in that attempt"), rep)
				}
				continue
			}
		}
		if upd == nil {
			continue
		}
		if upd.Old != latest.Size {
			run.Report(sig("old-size"), desc(fmt.Sprintf("Update carried old size %d, the witness reported %d in the same attempt", upd.Old, latest.Size)), rep)
			return
		}
		if !bytes.Equal(upd.CP, headCP) {
			run.Report(sig("submitted-bytes"), desc("Update did not carry the fetched checkpoint bytes"), rep)
			return
		}
		want := [][]byte{}
		if !same {
			want = proofCall.Proof
		}
		if !eqProof(upd.Proof, want) {
			run.Report(sig("proof-passed"), desc(fmt.Sprintf("Update carried a %d-hash proof, FetchProof of this attempt returned %d hashes", len(upd.Proof), len(want))), rep)
			return
		}
		if upd.Err == nil {
			lastOK = upd
		}
	}
	// Result.
	switch {
	case err == nil:
		if lastOK == nil || !bytes.Equal(res, lastOK.Ret) {
			run.Report(sig("result-bytes"), desc("FeedOnce succeeded but did not return the bytes the witness returned from the successful Update"), rep)
			return
		}
		if maxAttempt > 0 && byAttempt[maxAttempt][len(byAttempt[maxAttempt])-1] != lastOK {
			run.Report(sig("calls-after-success"), desc("calls were made after the successful Update"), rep)
		}
	case cancelled:
		// FeedOnce wraps with %v, so only the text can be compared.
		if !errors.Is(err, context.Canceled) && !strings.Contains(err.Error(), context.Canceled.Error()) {
			run.Report(sig("context-error-not-returned"), desc(fmt.Sprintf("the context ended but FeedOnce returned %v", err)), rep)
		}
	case permanentSeen:
	default:
		run.Report(sig("gave-up-without-cause"), desc(fmt.Sprintf("FeedOnce returned %v although the context was live and no permanent condition held", err)), rep)
	}
	if lastOK != nil && err != nil && !cancelled {
		run.Report(sig("error-after-success"), desc("an Update succeeded but FeedOnce reported an error"), rep)
	}
	// Retry succeeds once the failures clear: the injected failures are fewer
	// than the horizon, so a cycle that is still retrying when the horizon ends
	// the context never succeeded although nothing was failing any more.
	// (Excluded: the real witness legitimately refuses a fork for ever, and
	// refuses growth from a stored size-0 checkpoint - C08's known finding.)
	expectSuccess := !permanentSeen && (!sc.Real || (c13Honest(sc.Kind) && !(sc.W == 0 && sc.Head > 0)))
	if horizonHit && expectSuccess && c.Deviations() < horizon-1 {
		run.Report(sig("no-success-after-failures-cleared"), desc(fmt.Sprintf("after the injected failures stopped the cycle kept failing until the horizon (%d timer starts): last error %v", horizon, err)), rep)
	}
	if !cancelled && !permanentSeen && err != nil {
		run.Report(sig("no-success-after-failures-cleared"), desc("the failures stopped and the context was live, yet the cycle did not succeed"), rep)
	}
	// Real witness: final state.
	if sc.Real && err == nil && c13Honest(sc.Kind) {
		st, _ := wh.StateOf(gen, env.Stored(la.ID()))
		if !st.Has || int(st.Size) != sc.Head || !bytes.Equal(st.Root, m.Root(sc.Head)) {
			run.Report(sig("final-state"), desc(fmt.Sprintf("cycle succeeded but the real witness holds %s, log head is %d", st.Key(), sc.Head)), rep)
		}
	}
	if sc.Real && sc.Kind == "fork" && err == nil && sc.W > 0 && sc.W > fk.Div {
		run.Report(sig("fork-accepted"), desc("the real witness accepted a fork through the feeder"), rep)
	}
}

type c13Witness struct {
	get    func(ctx context.Context, id string) ([]byte, error)
	update func(ctx context.Context, id string, old uint64, cp []byte, p [][]byte) ([]byte, error)
}

func (w *c13Witness) GetLatestCheckpoint(ctx context.Context, id string) ([]byte, error) {
	return w.get(ctx, id)
}
func (w *c13Witness) Update(ctx context.Context, id string, old uint64, cp []byte, p [][]byte) ([]byte, error) {
	return w.update(ctx, id, old, cp, p)
}

func c13(tier string) int {
	run := ev.NewRun("C13", tier, "fault_enumeration")
	wh.InstallLogicalClock()
	bound := 2
	ws, heads := []int{-1, 0, 2, 5}, []int{0, 2, 3, 6}
	if tier == "thorough" {
		ws, heads = []int{-1, 0, 1, 2, 3, 4, 5}, []int{0, 1, 2, 3, 4, 5, 6}
	}
	u := uni.New(ev.Seed(), 8, []int{0})
	gen := wh.NewCPGen(u)
	la := wh.LogCfg{Origin: logA(), Key: u.K1}
	c13HugeSizes(run, u, la)
	total := int64(0)
	maxPts := 0
	var scs []c13Scenario
	for _, real := range []bool{false, true} {
		for _, w := range ws {
			for _, head := range heads {
				for _, kind := range []string{"honest", "fork", "wrong-key", "wrong-origin", "tail-lf", "tail-crlf", "tail-space", "tail-nonl", "tail-nul"} {
					if kind == "fork" && head == 0 {
						continue
					}
					scs = append(scs, c13Scenario{W: w, Head: head, Kind: kind, Real: real, Bound: bound})
					if kind == "honest" && real && head > 0 {
						// Honest checkpoints whose cosigned form is not a byte
						// extension of what the log served.
						for _, v := range []string{"honest+foreign-first", "honest+dup-logsig", "honest+own-cosig"} {
							scs = append(scs, c13Scenario{W: w, Head: head, Kind: v, Real: real, Bound: 1})
						}
					}
					// Thorough: one more deviation on the grid the quick tier uses.
					if tier == "thorough" && kind == "honest" && (w == -1 || w == 0 || w == 2 || w == 5) && (head == 0 || head == 2 || head == 3 || head == 6) {
						scs = append(scs, c13Scenario{W: w, Head: head, Kind: kind, Real: real, Bound: 3})
					}
				}
			}
		}
	}
	var mu sync.Mutex
	var wg sync.WaitGroup
	ch := make(chan c13Scenario)
	for i := 0; i < workers(); i++ {
		wg.Add(1)
		go func() {
			defer wg.Done()
			for sc := range ch {
				b := sc.Bound
				st, err := choice.Explore(b, func(c *choice.C) {
					c13Exec(run, u, gen, la, sc, c, b+3)
					if c.Deviations() > 0 {
						run.Distinct(sc.String() + fmt.Sprint(c.Trace()))
					}
				})
				if err != nil {
					ev.Internal("C13 %s: %v", sc, err)
				}
				mu.Lock()
				total += st.Executions
				if st.MaxPoints > maxPts {
					maxPts = st.MaxPoints
				}
				mu.Unlock()
				run.Add("scenarios", 1)
			}
		}()
	}
	for _, sc := range scs {
		ch <- sc
	}
	close(ch)
	wg.Wait()
	run.Sample(map[string]any{"scenario": "real witness=3 head=5 honest", "environment_answers": []string{"#0 FetchCheckpoint ok", "#1 GetLatestCheckpoint -> transient failure", "#2 backoff-timer -> fire", "#3 GetLatestCheckpoint -> ok but the witness was advanced by another feeder", "..."}})
	run.Set("evaluations", total)
	run.Set("executions", total)
	run.Set("deviation_bound", bound)
	run.Set("max_environment_calls_in_one_cycle", maxPts)
	// Context leg: the cycle's context ends while the witness is at one of its
	// storage calls; what the in-process adapter tells the feeder must agree
	// with what the witness holds once it is quiescent.
	ctxLeg(run, "C13")
	// Through omniwitness.Main (the adapter as Main builds it, WitnessVerifier
	// set): a store whose checkpoints an earlier key set of the witness
	// cosigned - the feeder must still learn the witness's size from it.
	c13ViaMain(run)
	run.Set("exhaustive", true)
	for _, k := range []string{"honest ok", "honest error", "fork error", "wrong-key error"} {
		if run.HistGet("cycle_outcomes", k) == 0 {
			run.Vacuous("cycle outcome %q never observed", k)
		}
	}
	run.Set("rule", fmt.Sprintf("every ordered pair of (witness size, log size) over {1, 2, 2^31-1, 2^31, 2^32+1, 2^63-1, 2^63, 2^63+5, 2^64-2, 2^64-1} fault-free (ahead / equal / behind decided on the real numbers); and for witness state in {none, 0, 2, 5} x log head in {0, 2, 3, 6} (quick) / {none, 0..5} x 0..6 (thorough, plus a third deviation for honest logs on the quick grid) x {honest (against the real witness also: a foreign signature line before the log's, the log's line twice, the witness's own older cosignature already on it), fork of the witnessed prefix, wrong key, wrong origin, correctly signed but served with a malformed tail (extra LF, CRLF, trailing space, missing final LF, NUL)} x {recording stub witness, real witness behind the real witnessAdapter}: the real feeder.FeedOnce is run with every environment call answered by the explorer - FetchCheckpoint {ok, fail}, GetLatestCheckpoint {ok, transient failure of 3 kinds (plain error, per-request timeout wrapping context.DeadlineExceeded, inner context.Canceled), ok after another feeder advanced the witness}, FetchProof {ok, 3 failure kinds}, Update {ok, 3 failure kinds, witness advanced first}, back-off timer {fires at once, context ends at this wait} - for every placement of up to %d non-default answers (deviation-bounded DFS, positions discovered dynamically; the back-off timer is replaced by an overlay of backoff/timer.go so no wall-clock time passes; a horizon of %d timer starts ends the context). Oracle = reference model of one cycle (see DESIGN.md C13). distinct_nontrivial = distinct (scenario, placement) with at least one deviation", bound, bound+3))
	run.Assumption("the back-off timer overlay changes only whether/when the timer fires; retry policy, context handling and permanent-error logic are the library's and the repository's")
	return run.Finish()
}

// c13HugeSizes: the ahead / equal / behind decisions for sizes around 2^31,
// 2^32, 2^63 and 2^64 (a log can sign any size and a witness that trusted it
// on first use holds it): every ordered pair of sizes from the boundary set,
// fault-free, recording stub witness. Witness ahead: no proof request, no
// Update, an error. Witness behind: the proof is requested from exactly the
// witness's size to the log's size and Update carries that old size. Equal:
// no proof request.
func c13HugeSizes(run *ev.Run, u *uni.U, la wh.LogCfg) {
	sizes := []uint64{1, 2, 1<<31 - 1, 1 << 31, 1<<32 + 1, 1<<63 - 1, 1 << 63, 1<<63 + 5, ^uint64(0) - 1, ^uint64(0)}
	root := func(n uint64) []byte {
		h := sha256.Sum256([]byte(fmt.Sprintf("huge-root-%d", n)))
		return h[:]
	}
	var n int64
	for _, w := range sizes {
		for _, head := range sizes {
			witCP := u.Sign(uni.Body(la.Origin, w, root(w)), la.Key.Signer, u.W1.CosigSigner)
			headCP := u.Sign(uni.Body(la.Origin, head, root(head)), la.Key.Signer)
			type upd struct{ old uint64 }
			var proofs [][2]uint64
			var updates []uint64
			wit := &c13Witness{
				get: func(ctx context.Context, id string) ([]byte, error) { return witCP, nil },
				update: func(ctx context.Context, id string, old uint64, cp []byte, p [][]byte) ([]byte, error) {
					updates = append(updates, old)
					return cp, nil
				},
			}
			opts := feeder.FeedOpts{
				LogID: la.ID(), LogOrigin: la.Origin, LogSigVerifier: la.Key.Verif, Witness: wit,
				FetchCheckpoint: func(ctx context.Context) ([]byte, error) { return headCP, nil },
				FetchProof: func(ctx context.Context, from, to f_log.Checkpoint) ([][]byte, error) {
					proofs = append(proofs, [2]uint64{from.Size, to.Size})
					return [][]byte{root(from.Size ^ to.Size)}, nil
				},
			}
			ctx, release := wh.NoRetryContext(context.Background())
			_, err := feeder.FeedOnce(ctx, opts)
			release()
			n++
			rel := "witness-behind"
			switch {
			case w > head:
				rel = "witness-ahead"
			case w == head:
				rel = "equal"
			}
			rep := map[string]any{"kind": "feed-huge", "witness_size": fmt.Sprint(w), "log_size": fmt.Sprint(head)}
			cls := func(x uint64) string { return c19SizeClass(x) }
			sig := func(k string) string {
				return fmt.Sprintf("%s relation=%s witness-size=%s log-size=%s", k, rel, cls(w), cls(head))
			}
			desc := fmt.Sprintf("witness at size %d, log at size %d (fault-free): %d proof requests %v, %d Update calls %v, err=%v", w, head, len(proofs), proofs, len(updates), updates, err)
			switch rel {
			case "witness-ahead":
				if len(proofs) > 0 || len(updates) > 0 || err == nil {
					run.Report(sig("submitted-although-witness-ahead"), desc, rep)
				}
			case "equal":
				if len(proofs) > 0 || err != nil {
					run.Report(sig("equal-sizes-mishandled"), desc, rep)
				}
			default:
				if err != nil || len(proofs) != 1 || proofs[0] != [2]uint64{w, head} || len(updates) != 1 || updates[0] != w {
					run.Report(sig("justified-step-not-taken"), desc, rep)
				}
			}
		}
	}
	run.Set("huge_size_pairs", n)
	run.Add("evaluations", n)
}

// c13ViaMain runs one C14 worker job (serverless feeder, two growth schedules)
// on a store that holds each log's first checkpoint cosigned with the legacy
// key only; its findings are C13's when the feeder never gets past them.
func c13ViaMain(run *ev.Run) {
	self, _ := os.Executable()
	dir, _ := os.MkdirTemp(c06Scratch(), "c13main-")
	defer os.RemoveAll(dir)
	spec := c14Spec{Mode: "running", Storage: "mem", Feeder: "serverless", Schedules: [][]int{{2, 5}, {256, 257, 700}}, Rekeyed: true, Scratch: dir}
	sj, _ := json.Marshal(spec)
	out, err := exec.Command(self, "worker", "c14", string(sj)).Output()
	var r c14Result
	if err != nil || json.Unmarshal(lastLine(out), &r) != nil || r.Err != "" {
		ev.Internal("C13 via Main: worker failed: %v %s: %s", err, r.Err, tail(out))
	}
	for _, p := range r.Problems {
		run.Report("via-main rekeyed-store "+p.Signature, "omniwitness.Main over a store whose checkpoints carry only the witness's legacy signature (an earlier key set), witness verifier = cosignature/v1: "+p.What, map[string]any{"kind": "omniwitness-main", "feeder": "serverless", "rekeyed": true})
	}
	run.Add("via_main_checks", int64(r.Checks))
}
