package checks

import (
	"bytes"
	"context"
	"fmt"
	"net/http"
	"net/http/httptest"
	"strings"
	"sync"
	"time"

	"golang.org/x/time/rate"
	"github.com/transparency-dev/witness/internal/feeder/bastion"

	"github.com/transparency-dev/witness/internal/persistence"
	"github.com/transparency-dev/witness/omniwitness"
	"github.com/transparency-dev/witness/verifmc/lspwrap"

	"github.com/transparency-dev/witness/verifmc/ev"
	"github.com/transparency-dev/witness/verifmc/uni"
	"github.com/transparency-dev/witness/verifmc/wh"
)

func init() {
	Registry["C01"] = c01
	Registry["C03"] = c03
	Registry["C04"] = c04
	Registry["C20"] = c20
}

type searchPlan struct {
	n        int
	divs     []int
	stores   []string
	signers  [][]string
	alpha    wh.AlphaOpts
	workers  int
	cold     bool
	aliasing bool
	preStep  func()
	reps     int
	twoLogs  bool
}

// runPlan executes the plan's searches with one monitor and fills the
// model-checking coverage keys.
func runPlan(run *ev.Run, p searchPlan, mon func(*wh.Step), extraReqs func(g *wh.CPGen, u *uni.U, la wh.LogCfg) []wh.Req) (*uni.U, *wh.CPGen) {
	u := uni.New(ev.Seed(), p.n, p.divs)
	gen := wh.NewCPGen(u)
	la := wh.LogCfg{Origin: logA(), Key: u.K1}
	lb := wh.LogCfg{Origin: logB(), Key: u.K2}
	if len(p.signers) == 0 {
		p.signers = [][]string{nil}
	}
	if p.workers == 0 {
		p.workers = workers()
	}
	var extra []wh.Req
	if extraReqs != nil {
		extra = extraReqs(gen, u, la)
	}
	var prelude []wh.Req
	if p.twoLogs {
		cp, meta := gen.Get(lb, u.Main, 2, "plain")
		prelude = append(prelude, wh.Req{LogID: lb.ID(), CP: cp, Meta: meta, Label: "prelude: first use of log B at main@2"})
	}
	states, trans := 0, int64(0)
	for _, store := range p.stores {
		for _, sg := range p.signers {
			alpha := p.alpha
			fn := func(st wh.MState) []wh.Req {
				return append(wh.Alphabet(gen, la, st, alpha), extra...)
			}
			st, tr := wh.Search(wh.SearchOpts{U: u, Gen: gen, Store: store, Signers: sg, Log: la, Extra: []wh.LogCfg{lb}, AlphaFn: fn,
				Workers: p.workers, OnStep: mon, PreStep: p.preStep, CheckAliasing: p.aliasing, Run: run, Reps: p.reps, Prelude: prelude, Cold: p.cold})
			states += st
			trans += tr
			run.Set(fmt.Sprintf("states[%s,%v]", store, sg), st)
			run.Set(fmt.Sprintf("transitions[%s,%v]", store, sg), tr)
		}
	}
	run.Add("states", int64(states))
	run.Add("transitions", trans)
	run.Add("traces_validated_against_impl", trans)
	run.Add("evaluations", trans)
	return u, gen
}

func unknownReqs(g *wh.CPGen, u *uni.U, la wh.LogCfg) []wh.Req {
	cp, meta := g.Get(la, u.Main, 3, "plain")
	// Refused only after the store was opened for writing: the cosigned form
	// would exceed the note format's signature limit. Submitted for a log
	// that never holds a checkpoint (log C is not configured here, so use a
	// third configured log where available) and for log A itself.
	cpJ, mJ := g.Get(la, u.Main, 3, "junk99")
	mJ.Broken = true // outside wmodel: must be refused, never stored
	return []wh.Req{
		{LogID: la.ID(), Old: 0, CP: cpJ, Meta: mJ, Label: "main@3 with 99 extra signature lines old=0 (unreadable once cosigned)"},
		{LogID: la.ID(), Old: 3, CP: cpJ, Meta: mJ, Label: "main@3 with 99 extra signature lines old=3 (unreadable once cosigned)"},
		{LogID: "0000unknown", Old: 0, CP: cp, Meta: meta, Label: "unknown-id"},
		{LogID: uni.ID("verif.example/not-configured"), Old: 0, CP: cp, Meta: meta, Label: "unknown-origin-id"},
	}
}

func c01(tier string) int {
	run := ev.NewRun("C01", tier, "model_checking")
	wh.InstallLogicalClock()
	p := searchPlan{n: 8, divs: []int{0, 1, 3, 4}, stores: []string{"mem", "sql"}, cold: true,
		alpha: wh.AlphaOpts{MaxN: 8, Forged: true, HugeOlds: true, RichProof: true, Shapes: []string{"plain", "oddroot"}}}
	if tier == "thorough" {
		p.n, p.alpha.MaxN = 17, 17
		p.divs = []int{0, 1, 2, 3, 4, 7, 8, 15, 16}
	}
	runPlan(run, p, c01Monitor(run), nil)
	if tier == "thorough" {
		var st int
		var tr int64
		uniformTable(run, "C01", &st, &tr)
		run.Add("states", int64(st))
		run.Add("transitions", tr)
		run.Add("traces_validated_against_impl", tr)
		run.Add("evaluations", tr)
	}
	pathExhaustive(run, tier, c01Monitor(run))
	if tier != "thorough" {
		// Reduced power-of-two grid incl. sizes around 2^63 and 2^64-1.
		var st int
		var tr int64
		uniformTableTier(run, "C01", true, &st, &tr)
		run.Add("states", int64(st))
		run.Add("transitions", tr)
		run.Add("traces_validated_against_impl", tr)
		run.Add("evaluations", tr)
	}
	// Concurrent leg: conflicting first use and a fork race at 4 -> 6.
	c05Concurrent(run, "C01", tier)
	// Fault leg: every single storage fault in the C07 histories; everything
	// returned as accepted must lie on one history.
	runFaults(run, "C01", tier, false)
	// Twin leg: two IDs configured with one origin line - each ID has its own
	// append-only history whatever is written under the other.
	twinLeg(run, "C01")
	// Upgrade leg: started on a database the earlier release wrote.
	legacyDBLeg(run, "C01")
	for _, k := range []string{"first-use", "growth", "refresh"} {
		if run.HistGet("accepted_kinds", k) == 0 {
			run.Vacuous("no accepted %s step was explored", k)
		}
	}
	run.Set("exhaustive", true)
	run.Set("rule", fmt.Sprintf("explicit-state BFS over the real Witness to fixpoint on canonical states (size, root): universe main + forks diverging at %v, sizes 0..%d; alphabet = every old size 0..N+1 and 2^32, 2^63, 2^64-1 x every log-signed checkpoint of every branch, and at every size a log-signed checkpoint whose root is the root of no tree (at size 0: not the empty-tree hash), x proofs (empty; adversarial proof on the submitted branch; proof on the stored branch; and, when old = stored size, proofs for s±1/n±1, first/last dropped, duplicated, zero-appended, each hash bit-flipped, short hash, replayed earlier proof, arbitrary hashes, root as proof) + forged checkpoints (other key, garbage signature, truncated, empty, wrong origin). Monitor: every state change checked against the leaf lists (prefix relation). distinct_nontrivial = distinct accepted (kind, from-state, to-state) transitions", p.divs, p.n))
	run.Assumption("SHA-256 collision resistance lets leaf-list prefix stand for hash consistency; Ed25519 trusted")
	run.Assumption("the witness keeps only the latest checkpoint, and prefix is transitive, so checking each accepted step against its predecessor decides the whole-history statement")
	return run.Finish()
}

func c03(tier string) int {
	run := ev.NewRun("C03", tier, "model_checking")
	wh.InstallLogicalClock()
	// Two byte-representatives per state: the second one is reached through a
	// checkpoint with eight extra signature lines (a stored checkpoint of ~1.3 KB:
	// size-dependent handling of the stored bytes on a refusal path).
	p := searchPlan{n: 8, divs: []int{0, 3}, stores: []string{"mem", "sql"}, twoLogs: true, aliasing: true, reps: 2, cold: true,
		alpha: wh.AlphaOpts{MaxN: 8, Forged: true, HugeOlds: true, RichProof: true, Shapes: []string{"plain", "junk8"}}}
	if tier == "thorough" {
		p.n, p.alpha.MaxN = 17, 17
		p.divs = []int{0, 1, 3, 4, 8, 16}
	}
	runPlan(run, p, c03Monitor(run), unknownReqs)
	// The same, smaller, for a witness that signs with a LEGACY key only (no
	// timestamped cosignature: its signatures are deterministic, so one
	// representative per state - a re-submission reproduces the stored bytes).
	pl := searchPlan{n: 5, divs: []int{0, 3}, stores: []string{"mem", "sql"}, twoLogs: true, reps: 1, signers: [][]string{{"legacy"}},
		alpha: wh.AlphaOpts{MaxN: 5, Forged: true, RichProof: true, Shapes: []string{"plain", "ext"}}}
	runPlan(run, pl, c03Monitor(run), unknownReqs)
	c03StorageFailures(run)
	// Concurrent leg: a refused update overlapping accepted ones and readers.
	c05Concurrent(run, "C03", tier)
	// Context leg: the caller's context ends at every storage call of an update.
	c03Contexts(run)
	// Endpoint leg: refusals as the add-checkpoint endpoint reports them.
	c03Endpoint(run)
	for _, c := range []string{"unknown-log", "bad-signature", "old-size-too-large", "stale-old-size", "root-mismatch", "invalid-proof", "non-empty-proof-at-size-zero", "storage-failure"} {
		if run.HistGet("refusal_classes", c) == 0 {
			run.Vacuous("refusal class %q was never exercised", c)
		}
	}
	run.Set("exhaustive", true)
	run.Set("rule", "same explicit-state search as C01 over a two-log witness (log B holds a checkpoint throughout); on every refused transition the full snapshot (stored bytes of every log + log list, read through the unwrapped store) before and after must be byte-identical and the returned bytes nil or the stored checkpoint; plus every single storage fault (WriteOps, GetLatest, Set before effect, Close) in first-use/growth/refresh/refused updates on both stores. distinct_nontrivial = distinct (state, refusal class, request) cells")
	run.Assumption("a failed Set is injected before it takes effect (a commit that takes effect and is then reported as failed is C07's subject)")
	return run.Finish()
}

func c04(tier string) int {
	run := ev.NewRun("C04", tier, "model_checking")
	wh.InstallLogicalClock()
	// junk96..99: around the note format's limit of 100 signature lines (log
	// line + J unknown lines + one line per witness key): the largest J that
	// still fits must be cosigned with the log's line intact, one more must be
	// refused.
	shapes := []string{"plain", "ext", "junk1", "otherlog", "stale-own-valid", "stale-own-invalid", "dup-logsig", "junk96", "junk97", "junk98", "junk99", "bigext70", "sizepad", "looseb64", "namesake-future", "namesake-legacy"}
	n := 6
	if tier == "thorough" {
		n = 9
	}
	p := searchPlan{n: n, divs: []int{3}, stores: []string{"mem", "sql"}, reps: 2,
		signers: [][]string{{"cosig"}, {"legacy", "cosig"}, {"legacy", "cosig", "cosig2"}, {"legacy-logname", "cosig-logname"}},
		alpha:   wh.AlphaOpts{MaxN: n, Shapes: shapes}}
	runPlan(run, p, c04Monitor(run, true), nil)
	// One configuration on the real wall clock with the inclusive window.
	c04WallClock(run)
	// Log IDs are opaque strings to the witness (the route admits
	// [a-zA-Z0-9-]+): a log registered under a mixed-case ID next to one whose
	// ID differs only in case - every read after an accepted update, over the
	// HTTP endpoint too, is that log's checkpoint.
	{
		u := uni.New(ev.Seed(), 4, []int{0})
		gen := wh.NewCPGen(u)
		lm := wh.LogCfg{Origin: "verif.example/Mixed-Case", Key: u.K1, CustomID: "LogA-Mixed"}
		lt := wh.LogCfg{Origin: "verif.example/mixed-case-twin", Key: u.K2, CustomID: "loga-mixed"}
		cpT, metaT := gen.Get(lt, u.Main, 3, "plain")
		for _, store := range []string{"mem", "sql"} {
			st, tr := wh.Search(wh.SearchOpts{U: u, Gen: gen, Store: store, Log: lm, Extra: []wh.LogCfg{lt}, Prelude: []wh.Req{{LogID: lt.ID(), CP: cpT, Meta: metaT, Label: "first use of the case twin"}},
				Alpha: wh.AlphaOpts{MaxN: 4, Shapes: []string{"plain", "ext"}}, Workers: 4, OnStep: c04Monitor(run, true), Run: run})
			run.Add("states", int64(st))
			run.Add("transitions", tr)
			run.Add("traces_validated_against_impl", tr)
			run.Add("evaluations", tr)
			run.Add("mixed_case_id_transitions", tr)
		}
	}
	// Concurrent leg: growth vs refresh of one log - every
	// checkpoint handed out under every interleaving is the submitted text,
	// log-signed, with exactly one valid line per witness key.
	c05Concurrent(run, "C04", tier)
	// Fault leg: the same for every accepted update under every single storage fault.
	runFaults(run, "C04", tier, false)
	// ... and under a fault of one of the witness's own keys.
	c04SignerFaults(run)
	wh.InstallLogicalClock()
	for _, sgs := range p.signers {
		sg, nk := strings.Join(sgs, "+"), len(sgs)-1
		for _, sh := range shapes {
			var j int
			if n, _ := fmt.Sscanf(sh, "junk%d", &j); n == 1 && 1+j+nk+1 > 100 {
				continue // does not fit once cosigned: refused
			}
			for _, k := range []string{"first-use", "growth", "refresh"} {
				if run.HistGet("accepted", sg+"|"+sh+"|"+k) == 0 {
					run.Vacuous("no accepted %s step for signers %s shape %s", k, sg, sh)
				}
			}
		}
	}
	run.Set("exhaustive", true)
	run.Set("rule", fmt.Sprintf("explicit-state BFS (sizes 0..%d, main + fork at 3) for witness key sets {cosig/v1}, {legacy, cosig/v1}, {legacy, cosig/v1, second cosig/v1}, {legacy, cosig/v1 of a witness key that has the NAME of the log key} x checkpoint shapes %v x both stores; on every accepted transition: returned text == text the log signed, log signature verifies, signature block parsed line by line holds exactly one valid line per witness key, cosignature/v1 timestamp inside the logical-clock window of this call (every Sign gets a fresh second, so a reused signature is caught), GetCheckpoint == returned bytes == stored bytes. distinct_nontrivial = distinct (store, signers, shape, kind, from, to)", n, shapes))
	run.Assumption("logical clock replaces time.Now() inside the cosignature/v1 signer (overlay of formats/note/note_cosigv1.go changes only the time source); one configuration also runs on the wall clock")
	return run.Finish()
}

// c04WallClock runs a short history on the real clock: timestamps must lie in
// the inclusive window [t0.Unix(), t1.Unix()] of the call.
func c04WallClock(run *ev.Run) {
	uni.SetCosigClock(nil)
	defer wh.InstallLogicalClock()
	// Implemented as a monitor over a tiny search with wall-clock window.
	u := uni.New(ev.Seed(), 4, nil)
	gen := wh.NewCPGen(u)
	la := wh.LogCfg{Origin: logA(), Key: u.K1}
	wallMon := wallClockMonitor(run)
	st, tr := wh.Search(wh.SearchOpts{U: u, Gen: gen, Store: "mem", Log: la, Alpha: wh.AlphaOpts{MaxN: 4}, Workers: 1, OnStep: wallMon, Run: run})
	run.Add("states", int64(st))
	run.Add("transitions", tr)
	run.Add("traces_validated_against_impl", tr)
	run.Add("evaluations", tr)
}

func c20(tier string) int {
	run := ev.NewRun("C20", tier, "model_checking")
	wh.InstallLogicalClock()
	n := 6
	if tier == "thorough" {
		n = 12
	}
	p := searchPlan{n: n, divs: []int{0, 3}, stores: []string{"mem", "sql"}, workers: 1, twoLogs: true,
		alpha: wh.AlphaOpts{MaxN: n, Forged: true, HugeOlds: true, RichProof: true, AllOlds: tier == "thorough"}}
	pre, mon := c20Monitor(run)
	p.preStep = pre
	runPlan(run, p, mon, unknownReqs)
	// The same on a clock that stands still (every request within one second:
	// a re-submission is cosigned to the very bytes already stored), sizes 0..4,
	// shapes that carry the witness's own earlier signature too.
	uni.SetCosigClock(func() int64 { return 1700000000 })
	pf := searchPlan{n: 4, divs: []int{0}, stores: []string{"mem", "sql"}, workers: 1, twoLogs: true, cold: true,
		alpha: wh.AlphaOpts{MaxN: 4, Forged: true, Shapes: []string{"plain", "stale-own-valid"}}}
	pf.preStep = pre
	runPlan(run, pf, mon, nil)
	wh.InstallLogicalClock()
	c20Faults(run)
	// Context leg: a request whose caller gives up still named a known log.
	ctxLeg(run, "C20")
	for _, c := range []string{wh.OK, wh.Unknown, wh.NoSig, wh.OldInvalid, wh.Stale, wh.RootMismatch, wh.BadProof} {
		if run.HistGet("outcomes", c) == 0 {
			run.Vacuous("outcome %q never occurred", c)
		}
	}
	run.Set("exhaustive", true)
	run.Set("rule", fmt.Sprintf("explicit-state BFS (sizes 0..%d, main + forks at 0 and 3, both stores, single worker) over a two-log witness with a recording MetricFactory installed before the first witness is created; after every Update the delta of every counter x label is compared with the model: attempt +1 iff the log is known, success +1 iff accepted, invalid_consistency +1 iff refused for a bad proof, inconsistent_checkpoints +1 iff same size different root, nothing else moves; repeated (sizes 0..4) on a clock that stands still, so that a re-submission is cosigned to the bytes already stored. distinct_nontrivial = distinct (state, outcome, request)", n))
	run.Assumption("counters are process-wide; the search runs with one worker so deltas are attributable to one call")
	// Concurrent leg: two byte-identical requests overlapping are two requests.
	c05Concurrent(run, "C20", tier)
	return run.Finish()
}

// c20Faults: a request that passes every check but whose store write fails is
// an attempt, not a success (each accept path x both stores x a failing Set).
func c20Faults(run *ev.Run) {
	u := uni.New(ev.Seed(), 6, nil)
	gen := wh.NewCPGen(u)
	la := wh.LogCfg{Origin: logA() + "/c20-faults", Key: u.K1}
	m := u.Main
	mk := func(old, n int) wh.Req {
		cp, meta := gen.Get(la, m, n, "plain")
		return wh.Req{LogID: la.ID(), Old: uint64(old), CP: cp, Proof: m.Proof(old, n), Meta: meta}
	}
	paths := map[string][]wh.Req{
		"first-use":         {mk(0, 3)},
		"growth":            {mk(0, 3), mk(3, 5)},
		"same-size-refresh": {mk(0, 3), mk(3, 3)},
		"size-0-refresh":    {mk(0, 0), mk(0, 0)},
	}
	for _, store := range []string{"mem", "sql"} {
	  for _, failAt := range []string{"w.Set", "WriteOps", "w.GetLatest"} {
		for name0, reqs := range paths {
			name := name0
			if failAt != "w.Set" {
				name += " fault=" + failAt
			}
			failing := false
			e := wh.NewEnv(u, wh.Config{Store: store, Logs: []wh.LogCfg{la}, Wrap: func(p persistence.LogStatePersistence) persistence.LogStatePersistence {
				return lspwrap.New(p, lspwrap.Hooks{Fault: func(op, id string) (error, bool) {
					if failing && op == failAt {
						return errInjected, false
					}
					return nil, false
				}})
			}})
			for _, r := range reqs[:len(reqs)-1] {
				e.Do(r)
			}
			before := wh.Metrics.Snapshot()
			failing = true
			out := e.Do(reqs[len(reqs)-1])
			failing = false
			after := wh.Metrics.Snapshot()
			e.Close()
			run.Add("fault_cases", 1)
			run.Add("transitions", 1)
			run.Add("traces_validated_against_impl", 1)
			run.Add("evaluations", 1)
			run.Distinct("fault|" + store + "|" + name)
			id := la.ID()
			if out.Err == nil {
				ev.Internal("C20 faults: the injected storage failure did not fail the update (%s/%s)", store, name)
			}
			for _, cn := range []string{"attempt", "success", "invalid", "inconsistent"} {
				k := c20Names[cn] + "{" + id + "}"
				want := int64(0)
				if cn == "attempt" {
					want = 1
				}
				if d := after[k] - before[k]; d != want {
					run.Report(fmt.Sprintf("counter=%s outcome=store-write-failed path=%s delta=%d want=%d", c20Names[cn], name, d, want),
						fmt.Sprintf("%s store, %s path: the store's Set failed (update refused with %v) but counter %s moved by %d, want %d", store, name, out.Err, k, d, want),
						map[string]any{"kind": "counter-fault", "store": store, "path": name})
				}
			}
		}
	  }
	}
}

// ctxLeg (shared; C03 was its first owner): the caller's context is cancelled
// before the call and at each storage call of an update (first use, growth,
// same-size re-submission), on both stores, for a witness of two logs of which
// log B holds a checkpoint throughout. The update may be answered either way;
// each property owns what must hold afterwards, once nothing the update left
// running touches the store any more:
//
//	C03  refused => stored state unchanged, no foreign bytes returned
//	C07  the store is usable: a read of every log and a further update complete
//	C12  log B is untouched and still answers; a same-size update of B is accepted
//	C13  (through the in-process adapter the feeders use) what the caller was told
//	     agrees with what the witness holds: an error means the witness did not move
//	C20  the attempt counter counted the request; success iff it was accepted
func c03Contexts(run *ev.Run) { ctxLeg(run, "C03") }

func ctxLeg(run *ev.Run, prop string) {
	u := uni.New(ev.Seed(), 8, nil)
	gen := wh.NewCPGen(u)
	la := wh.LogCfg{Origin: logA() + "/ctx-" + prop, Key: u.K1}
	lb := wh.LogCfg{Origin: logB() + "/ctx-" + prop, Key: u.K2}
	type kind struct {
		name   string
		seed   int // 0 = no prior state
		old, n int
	}
	type res struct {
		b   []byte
		err error
	}
	var n int64
	for _, store := range []string{"mem", "sql"} {
		for _, k := range []kind{{"first-use", 0, 0, 3}, {"growth", 3, 3, 6}, {"refresh", 3, 3, 3}} {
			for _, at := range []string{"before-the-call", "WriteOps", "w.GetLatest", "w.Set", "w.Close"} {
				var cancel context.CancelFunc
				armed := false
				var mu sync.Mutex
				lastActivity := time.Now()
				e := wh.NewEnv(u, wh.Config{Store: store, Logs: []wh.LogCfg{la, lb}, Guard: true, Wrap: func(p persistence.LogStatePersistence) persistence.LogStatePersistence {
					return lspwrap.New(p, lspwrap.Hooks{Point: func(op, id string) {
						mu.Lock()
						lastActivity = time.Now()
						fire := armed && op == at
						if fire {
							armed = false
						}
						mu.Unlock()
						if fire {
							cancel()
						}
					}, Observe: func(op, id string, data []byte, err error) {
						mu.Lock()
						lastActivity = time.Now()
						mu.Unlock()
					}})
				}})
				cpB, metaB := gen.Get(lb, u.Main, 2, "plain")
				if out := e.Do(wh.Req{LogID: lb.ID(), CP: cpB, Meta: metaB}); out.Class != wh.OK {
					ev.Internal("context leg: seeding log B failed: %v", out.Err)
				}
				if k.seed > 0 {
					cp, meta := gen.Get(la, u.Main, k.seed, "plain")
					if out := e.Do(wh.Req{LogID: la.ID(), CP: cp, Meta: meta}); out.Class != wh.OK {
						ev.Internal("C03 context leg: seeding failed: %v", out.Err)
					}
				}
				before := e.Snap()
				cBefore := wh.Metrics.Snapshot()
				cp, meta := gen.Get(la, u.Main, k.n, "ext")
				ctx, c := context.WithCancel(context.Background())
				cancel = c
				mu.Lock()
				armed = true
				mu.Unlock()
				if at == "before-the-call" {
					cancel()
				}
				ch := make(chan res, 1)
				go func() {
					var b []byte
					var err error
					if prop == "C10" {
						// Through the add-checkpoint endpoint: the request's context
						// is the client's connection.
						h := bastion.VerifNewHandler(omniwitness.VerifWitnessAdapter(e.W), c10Logs(la, lb), u.W1.CosigVerif, rate.Inf, 1, true)
						req := httptest.NewRequest(http.MethodPost, "/add-checkpoint", bytes.NewReader(c10Body(uint64(k.old), u.Main.Proof(k.old, k.n), cp))).WithContext(ctx)
						rec := httptest.NewRecorder()
						h.ServeHTTP(rec, req)
						b = rec.Body.Bytes()
						if rec.Code != 200 {
							err = fmt.Errorf("HTTP %d", rec.Code)
						}
					} else if prop == "C13" {
						b, err = omniwitness.VerifWitnessAdapter(e.W).Update(ctx, la.ID(), uint64(k.old), append([]byte{}, cp...), u.Main.Proof(k.old, k.n))
					} else {
						b, err = e.W.Update(ctx, la.ID(), uint64(k.old), append([]byte{}, cp...), u.Main.Proof(k.old, k.n))
					}
					ch <- res{b, err}
				}()
				rep := map[string]any{"kind": "context", "store": store, "update": k.name, "at": at}
				var r res
				select {
				case r = <-ch:
				case <-time.After(60 * time.Second):
					run.Report("update-blocked-after-context-ended at="+at, fmt.Sprintf("%s store, %s: Update did not return within 60 s of its context being cancelled at %s", store, k.name, at), rep)
					continue
				}
				// Let anything the update left running finish: no storage call for 300 ms.
				for {
					mu.Lock()
					idle := time.Since(lastActivity)
					mu.Unlock()
					if idle > 300*time.Millisecond {
						break
					}
					time.Sleep(50 * time.Millisecond)
				}
				cancel()
				cAfter := wh.Metrics.Snapshot()
				after := e.Snap()
				n++
				run.Hist("context_outcomes", fmt.Sprintf("%s cancelled at %s -> error=%v", k.name, at, r.err != nil))
				if e.Blocked {
					// The store's only connection is held by something the update left behind.
					if prop != "C20" {
						run.Report("store-blocked-after-context-ended at="+at+" update="+k.name, fmt.Sprintf("%s store: after %s with the caller's context cancelled at %s (answered err=%v) a read of the store did not return within 60 s: every later operation on every log waits for ever", store, k.name, at, r.err), rep)
					}
					continue
				}
				switch prop {
				case "C03", "C13":
					if r.err != nil {
						if !after.Equal(before) {
							sig := "state-changed class=context-ended at=" + at + " update=" + k.name
							what := "was refused"
							if prop == "C13" {
								sig = "witness-moved-after-the-caller-was-told-it-failed at=" + at + " update=" + k.name
								what = "through the in-process adapter was answered with an error"
							}
							run.Report(sig, fmt.Sprintf("%s store: %s with the caller's context cancelled at %s %s (%v) but the stored state changed", store, k.name, at, what, r.err), rep)
						}
						if prop == "C03" && r.b != nil && string(r.b) != before.ByID[la.ID()] {
							run.Report("bytes-with-refusal class=context-ended at="+at, fmt.Sprintf("%s store: %s refused (%v) but returned bytes that are not the stored checkpoint", store, k.name, r.err), rep)
						}
					} else {
						text, _, ok := uni.SplitNote([]byte(after.ByID[la.ID()]))
						if !ok || text != meta.Text || after.ByID[la.ID()] != string(r.b) {
							run.Report("accepted-not-stored class=context-ended at="+at, fmt.Sprintf("%s store: %s with the context cancelled at %s was answered as accepted but the store does not hold what was returned", store, k.name, at), rep)
						}
					}
				case "C10":
					// 200 only when the checkpoint was accepted (then it is what
					// the witness holds, and the body is its cosignature); any
					// other answer: nothing changed.
					text, _, _ := uni.SplitNote([]byte(after.ByID[la.ID()]))
					if r.err == nil {
						lines := strings.Split(strings.TrimSuffix(string(r.b), "\n"), "\n")
						if _, ok := countValid(u.W1.CosigVerif, meta.Text, lines); text != meta.Text || ok < 1 {
							run.Report("200-without-acceptance class=context-ended at="+at, fmt.Sprintf("%s store: %s through the endpoint with the client's context cancelled at %s was answered 200, but the witness does not hold the submitted checkpoint / the body carries no valid cosignature of it", store, k.name, at), rep)
						}
					} else if !after.Equal(before) {
						run.Report("state-changed class=context-ended status="+r.err.Error()+" at="+at, fmt.Sprintf("%s store: %s through the endpoint with the client's context cancelled at %s was answered %v, yet the witness's state changed", store, k.name, at, r.err), rep)
					}
				case "C20":
					id := la.ID()
					for _, cn := range []string{"attempt", "success", "invalid", "inconsistent"} {
						key := c20Names[cn] + "{" + id + "}"
						want := int64(0)
						if cn == "attempt" || (cn == "success" && r.err == nil) {
							want = 1
						}
						if d := cAfter[key] - cBefore[key]; d != want {
							run.Report(fmt.Sprintf("counter=%s outcome=context-ended at=%s delta=%d want=%d", c20Names[cn], at, d, want),
								fmt.Sprintf("%s store, %s with the caller's context cancelled at %s (answered err=%v): counter %s moved by %d, want %d - the request named a known log", store, k.name, at, r.err, key, d, want), rep)
						}
					}
				}
				if prop == "C07" || prop == "C12" {
					// Log B: untouched, and it still answers.
					if after.ByID[lb.ID()] != before.ByID[lb.ID()] {
						run.Report("other-log-changed class=context-ended at="+at, fmt.Sprintf("%s store: %s of log A with the context cancelled at %s changed what is held for log B", store, k.name, at), rep)
					}
					out := e.Do(wh.Req{LogID: lb.ID(), Old: 2, CP: cpB, Meta: metaB})
					if e.Blocked || out.Class != wh.OK {
						run.Report(fmt.Sprintf("next-operation-after-context-ended verdict=%s at=%s update=%s", out.Class, at, k.name), fmt.Sprintf("%s store: after %s of log A with the caller's context cancelled at %s (answered err=%v) a same-size update of log B was answered %s (%v)", store, k.name, at, r.err, out.Class, out.Err), rep)
					}
				}
				if !e.Blocked {
					e.Close()
				}
			}
		}
	}
	run.Set("context_cancellations", n)
	run.Add("evaluations", n)
}
