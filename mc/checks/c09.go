package checks

import (
	"fmt"

	"github.com/transparency-dev/witness/verifmc/ev"
	"github.com/transparency-dev/witness/verifmc/ref6962"
	"github.com/transparency-dev/witness/verifmc/uni"
	"github.com/transparency-dev/witness/verifmc/wh"
)

func init() { Registry["C09"] = c09 }

// c09Monitor compares every transition with the reference model.
func c09Monitor(run *ev.Run) func(*wh.Step) {
	return func(s *wh.Step) {
		got := retKind(s)
		cell := fmt.Sprintf("%s/%s", s.Exp.Class, s.Exp.Ret)
		if !s.Exp.Claimed {
			run.Add("cells_outside_claim", 1)
			run.Hist("unclaimed_observed", s.Exp.Why+" -> "+s.Out.Class+"/"+got)
			return
		}
		run.Hist("verdicts", cell)
		if run.HistGet("verdicts", cell) == 1 {
			run.Sample(map[string]any{"state": s.StBefore.Key(), "request": s.Req.Label, "expected": cell, "observed": s.Out.Class + "/" + got, "store": s.Env.Cfg.Store})
		}
		run.Distinct(fmt.Sprintf("%s|%s|%d|%d|%s", s.StBefore.Key(), cell, s.Req.Meta.Size, s.Req.Old, s.Req.Label))
		// Third opinion on the proof whenever rule 7 decides.
		if s.StBefore.Has && s.Req.Old == s.StBefore.Size && s.Req.Meta.Size > s.StBefore.Size && s.StBefore.Size > 0 &&
			(s.Exp.Class == wh.OK || s.Exp.Class == wh.BadProof) && s.Cfg != nil {
			if tv, app := tlogVerdict(s.StBefore.Size, s.Req.Meta.Size, s.Req.Proof, s.StBefore.Root, s.Req.Meta.Root); app {
				rv, _ := ref6962.Verify(s.StBefore.Size, s.Req.Meta.Size, s.Req.Proof, s.StBefore.Root, s.Req.Meta.Root)
				run.Add("proof_verdicts_cross_checked_with_tlog", 1)
				if tv != rv {
					ev.Internal("reference verifiers disagree on %s: ref6962=%v tlog=%v", s.Req.Label, rv, tv)
				}
			}
		}
		sigBase := fmt.Sprintf("stored=%s submitted=%d%s old=%d proof=%d-hashes", stKind(s.StBefore), s.Req.Meta.Size, sameRoot(s), s.Req.Old, len(s.Req.Proof))
		if s.Out.Class != s.Exp.Class {
			run.Report(fmt.Sprintf("verdict expected=%s got=%s ret=%s", s.Exp.Class, s.Out.Class, got),
				fmt.Sprintf("%s: request %q in state %s answered %s (%v), the protocol's first matching rule gives %s", sigBase, s.Req.Label, s.StBefore.Key(), s.Out.Class, s.Out.Err, s.Exp.Class), s.Replay())
			return
		}
		if got != s.Exp.Ret {
			run.Report(fmt.Sprintf("returned-bytes verdict=%s expected=%s got=%s", s.Exp.Class, s.Exp.Ret, got),
				fmt.Sprintf("%s: request %q in state %s: verdict %s must come with %s checkpoint bytes, got %s", sigBase, s.Req.Label, s.StBefore.Key(), s.Exp.Class, s.Exp.Ret, got), s.Replay())
			return
		}
		if s.StAfter.Key() != s.Exp.Next.Key() || s.Foreign {
			run.Report(fmt.Sprintf("state-after verdict=%s", s.Exp.Class),
				fmt.Sprintf("%s: request %q in state %s left the witness in %s, model says %s", sigBase, s.Req.Label, s.StBefore.Key(), s.StAfter.Key(), s.Exp.Next.Key()), s.Replay())
		}
	}
}

func stKind(m wh.MState) string {
	if !m.Has {
		return "none"
	}
	if m.Size == 0 {
		return "0"
	}
	return ">0"
}

func sameRoot(s *wh.Step) string {
	if s.StBefore.Has && s.StBefore.Size == s.Req.Meta.Size {
		if string(s.StBefore.Root) == string(s.Req.Meta.Root) {
			return "(same root)"
		}
		return "(different root)"
	}
	return ""
}

func c09(tier string) int {
	run := ev.NewRun("C09", tier, "model_checking")
	wh.InstallLogicalClock()
	n := 17
	u := uni.New(ev.Seed(), n, []int{0})
	gen := wh.NewCPGen(u)
	la := wh.LogCfg{Origin: logA(), Key: u.K1}
	lb := wh.LogCfg{Origin: logB(), Key: u.K2}
	stores := []string{"mem", "sql"}
	totalStates, totalTrans := 0, int64(0)
	for _, store := range stores {
		alpha := wh.AlphaOpts{MaxN: n, Forged: true, HugeOlds: true, RichProof: true, AllOlds: true}
		base := func(st wh.MState) []wh.Req {
			reqs := wh.Alphabet(gen, la, st, alpha)
			// Unknown-log rows: a valid checkpoint under an ID that is not configured.
			cp, meta := gen.Get(la, u.Main, 3, "plain")
			reqs = append(reqs, wh.Req{LogID: "0000unknown", Old: 0, CP: cp, Meta: meta, Label: "unknown-id"})
			reqs = append(reqs, wh.Req{LogID: uni.ID("verif.example/not-configured"), Old: 0, CP: cp, Meta: meta, Label: "unknown-origin-id"})
			return reqs
		}
		st, tr := wh.Search(wh.SearchOpts{U: u, Gen: gen, Store: store, Log: la, Extra: []wh.LogCfg{lb}, AlphaFn: base,
			Workers: workers(), OnStep: c09Monitor(run), Run: run})
		totalStates += st
		totalTrans += tr
		run.Set("states_"+store, st)
		run.Set("transitions_"+store, tr)
	}
	// The verdict depends on (size, root) only - not on how the signed body
	// spells them or on what else it carries: the same table over a small
	// universe with every state explored from two byte-representatives and
	// requests in six body shapes.
	for _, store := range stores {
		us := uni.New(ev.Seed(), 5, []int{0})
		gs := wh.NewCPGen(us)
		alpha := wh.AlphaOpts{MaxN: 5, AllOlds: true, Shapes: []string{"plain", "ext", "sizepad", "sizepad-ext", "looseb64", "junk1", "oddroot"}}
		st, tr := wh.Search(wh.SearchOpts{U: us, Gen: gs, Store: store, Log: la, Extra: []wh.LogCfg{lb}, Alpha: alpha, Reps: 3, Cold: true,
			Workers: workers(), OnStep: c09Monitor(run), Run: run})
		totalStates += st
		totalTrans += tr
		run.Set("shape_states_"+store, st)
		run.Set("shape_transitions_"+store, tr)
	}
	if tier == "thorough" {
		c09Uniform(run, &totalStates, &totalTrans)
	} else {
		uniformTableTier(run, "C09", true, &totalStates, &totalTrans)
	}
	totalTrans += pathExhaustive(run, tier, c09Monitor(run))
	// Fault leg: the table must still be the table after a storage failure
	// (verdicts of fault-free requests judged from what is really stored).
	c09AfterLarge(run)
	c09ManySignatures(run)
	runFaults(run, "C09", tier, false)
	// Concurrent leg: the same checkpoint and old size submitted twice at once,
	// with a correct and with a garbage proof / byte-identically: each request
	// gets the verdict of ITS proof.
	c05Concurrent(run, "C09", tier)
	run.Set("states", totalStates)
	run.Set("transitions", totalTrans)
	run.Set("traces_validated_against_impl", totalTrans)
	run.Set("evaluations", totalTrans)
	run.Set("exhaustive", true)
	run.Set("rule", "explicit-state BFS over the real Witness: states = canonical (size, root) of the stored checkpoint reached through Update; alphabet = every (old size 0..18, 2^32, 2^63, 2^64-1) x every log-signed checkpoint of main and fork F0 at sizes 0..17 x proof set (empty, correct on either branch, for s±1/n±1, first/last dropped, duplicated, zero appended, each hash bit-flipped, short hash, replayed, arbitrary) + forged + unknown-log rows; every transition compared with the reference model (wmodel); a second search (sizes 0..5, every old size, three byte-representatives per state) submits every checkpoint in six body shapes (plain, extension lines, size with a leading zero, the same with an extension line, root in base64 with non-zero padding bits, an unknown signature line): the verdict depends on (size, root) only. distinct_nontrivial counts distinct (state, expected verdict, request) cells inside the claim")
	run.Assumption("Ed25519 and SHA-256 are trusted; ground truth about checkpoints comes from the generator, never from parsing")
	run.Assumption("cells the property excludes (first use with old>0 or a proof; stored 0 < submitted) are executed and counted but not judged")
	return run.Finish()
}

// c09Uniform explores the power-of-two grid up to 2^62 on the uniform tree.
func c09Uniform(run *ev.Run, states *int, trans *int64) {
	// Filled in by uniform.go.
	uniformTable(run, "C09", states, trans)
}

// c09AfterLarge: the rules once the witness holds a LARGE checkpoint (its
// stored, cosigned copy is longer than what was submitted, so a byte-length
// boundary can fall between the two): first use of a note of exactly K bytes
// for K around 4 KiB, 16 KiB, 64 KiB and 1 MB, then one request per rule -
// each must get the model's verdict and, for the four refusals after a
// checkpoint is stored, the stored checkpoint.
func c09AfterLarge(run *ev.Run) {
	u := uni.New(ev.Seed(), 8, []int{0})
	gen := wh.NewCPGen(u)
	la := wh.LogCfg{Origin: logA(), Key: u.K1}
	m, f := u.Main, u.Forks[0]
	for _, store := range []string{"mem", "sql"} {
		for _, k := range []int{4000, 4096, 16000, 16200, 16300, 16384, 16385, 65536, 999000} {
			e := wh.NewEnv(u, wh.Config{Store: store, Logs: []wh.LogCfg{la}})
			cp, meta := gen.Get(la, m, 4, fmt.Sprintf("pad%d", k))
			if out := e.Do(wh.Req{LogID: la.ID(), CP: cp, Meta: meta}); out.Class != wh.OK {
				e.Close()
				continue // a size the witness does not take at all: C08's subject
			}
			st := wh.MState{Has: true, Size: 4, Root: meta.Root, Branch: m}
			mk := func(b *uni.Branch, old uint64, n int, proof [][]byte, label string) wh.Req {
				c, mt := gen.Get(la, b, n, "plain")
				return wh.Req{LogID: la.ID(), Old: old, CP: c, Proof: proof, Meta: mt, Label: label}
			}
			for _, r := range []wh.Req{
				mk(m, 9, 8, nil, "old size above the checkpoint size"),
				mk(m, 3, 6, m.Proof(3, 6), "stale old size"),
				mk(f, 4, 4, nil, "same size, other root"),
				mk(m, 4, 6, m.Proof(3, 6), "bad proof"),
				mk(m, 4, 6, m.Proof(4, 6), "consistent growth"),
			} {
				exp := wh.Model(&la, st, r)
				before := string(e.Stored(la.ID()))
				out := e.Do(r)
				run.Add("after_large_requests", 1)
				got := "nil"
				switch {
				case out.Bytes == nil:
				case string(out.Bytes) == before:
					got = "stored"
				case out.Class == wh.OK:
					got = "new"
				default:
					got = "other"
				}
				if exp.Claimed && (out.Class != exp.Class || got != exp.Ret) {
					run.Report(fmt.Sprintf("after-large-checkpoint verdict expected=%s/%s got=%s/%s", exp.Class, exp.Ret, out.Class, got), fmt.Sprintf("%s store, witness holding a checkpoint submitted as exactly %d bytes: request %q answered %s/%s (%v), the rules say %s/%s", store, k, r.Label, out.Class, got, out.Err, exp.Class, exp.Ret), map[string]any{"kind": "after-large", "store": store, "bytes": k})
					break
				}
			}
			e.Close()
		}
	}
}

// c09ManySignatures: the refusals for a submitted checkpoint that carries so
// many foreign signature lines that, once cosigned, it would reach or pass the
// note format's limit of 100: the rules are decided on the request, whatever
// signing it would have meant - each of the four refusals after a checkpoint
// is stored gets its own verdict and the stored checkpoint.
func c09ManySignatures(run *ev.Run) {
	u := uni.New(ev.Seed(), 8, []int{0})
	gen := wh.NewCPGen(u)
	la := wh.LogCfg{Origin: logA(), Key: u.K1}
	m, f := u.Main, u.Forks[0]
	for _, store := range []string{"mem", "sql"} {
		for _, sgs := range [][]string{{"cosig"}, {"legacy", "cosig"}} {
			for _, j := range []int{95, 96, 97, 98, 99} {
				e := wh.NewEnv(u, wh.Config{Store: store, Logs: []wh.LogCfg{la}, Signers: sgs})
				cp, meta := gen.Get(la, m, 4, "plain")
				if out := e.Do(wh.Req{LogID: la.ID(), CP: cp, Meta: meta}); out.Class != wh.OK {
					e.Close()
					continue
				}
				st := wh.MState{Has: true, Size: 4, Root: meta.Root, Branch: m}
				shape := fmt.Sprintf("junk%d", j)
				mk := func(b *uni.Branch, old uint64, n int, proof [][]byte, label string) wh.Req {
					c, mt := gen.Get(la, b, n, shape)
					return wh.Req{LogID: la.ID(), Old: old, CP: c, Proof: proof, Meta: mt, Label: label + " (" + shape + ")"}
				}
				for _, r := range []wh.Req{
					mk(m, 9, 8, nil, "old size above the checkpoint size"),
					mk(m, 3, 6, m.Proof(3, 6), "stale old size"),
					mk(f, 4, 4, nil, "same size, other root"),
					mk(m, 4, 6, m.Proof(3, 6), "bad proof"),
				} {
					exp := wh.Model(&la, st, r)
					before := string(e.Stored(la.ID()))
					out := e.Do(r)
					run.Add("many_signature_refusals", 1)
					got := "nil"
					if out.Bytes != nil {
						got = "other"
						if string(out.Bytes) == before {
							got = "stored"
						}
					}
					if out.Class != exp.Class || got != exp.Ret {
						run.Report(fmt.Sprintf("many-signature-lines verdict expected=%s/%s got=%s/%s", exp.Class, exp.Ret, out.Class, got), fmt.Sprintf("%s store, witness keys %v: request %q answered %s/%s (%v), the rules say %s/%s", store, sgs, r.Label, out.Class, got, out.Err, exp.Class, exp.Ret), map[string]any{"kind": "many-signatures", "store": store, "junk": j})
						break
					}
				}
				e.Close()
			}
		}
	}
}
