// Package stublog serves a generated log over an in-process http.RoundTripper
// in the layouts the repository's feeders read: SumDB (tlog tiles, height 8),
// tlog-tiles / Tessera ("tiles" feeder), Pixel (tlog tiles, height 1), Rekor
// (JSON API) and serverless-log. Every request can be answered by a deviation
// chosen by the caller (empty, truncated, oversized, wrong content, HTTP
// error, transport error).
package stublog

import (
	"bytes"
	"compress/gzip"
	"encoding/base64"
	"encoding/hex"
	"encoding/json"
	"errors"
	"fmt"
	"io"
	"net/http"
	"net/url"
	"sort"
	"strconv"
	"strings"
	"sync"
	"testing/iotest"

	"github.com/transparency-dev/witness/verifmc/uni"
	"golang.org/x/mod/sumdb/tlog"
)

// Server is one stub log server.
type Server struct {
	Flavour string // sumdb, tiles, pixel, rekor, serverless
	Branch  *uni.Branch
	Hashes  []tlog.Hash // tlog stored hashes of Branch
	TreeID  string
	// Prefix: the path component of the log's base URL ("" or "a/b/"): requests
	// must stay below it.
	Prefix string

	mu   sync.Mutex
	Size int    // current head size
	Head []byte // signed checkpoint served as head
	Reqs []string
	// Answer, if set, chooses the answer for request #i ("" = valid).
	Answer func(i int, path string) string
	// Bad collects requests for things that do not exist at Size.
	Bad []string
}

// New builds a server over branch b.
func New(flavour string, b *uni.Branch) *Server {
	s := &Server{Flavour: flavour, Branch: b, TreeID: "1234567890"}
	for i := range b.Data {
		hs, err := tlog.StoredHashes(int64(i), b.Data[i], s)
		if err != nil {
			panic(err)
		}
		s.Hashes = append(s.Hashes, hs...)
	}
	return s
}

// ReadHashes implements tlog.HashReader.
func (s *Server) ReadHashes(idx []int64) ([]tlog.Hash, error) {
	out := make([]tlog.Hash, len(idx))
	for i, x := range idx {
		if x < 0 || int(x) >= len(s.Hashes) {
			return nil, fmt.Errorf("hash index %d out of range", x)
		}
		out[i] = s.Hashes[x]
	}
	return out, nil
}

// SetHead sets the served head.
func (s *Server) SetHead(size int, cp []byte) {
	s.mu.Lock()
	s.Size, s.Head = size, cp
	s.mu.Unlock()
}

// Requests returns the request paths seen so far.
func (s *Server) Requests() []string {
	s.mu.Lock()
	defer s.mu.Unlock()
	return append([]string(nil), s.Reqs...)
}

// Menu is the list of deviations.
var Menu = []string{"", "empty", "truncated-half", "truncated-line1", "truncated-line2", "oversize", "non-utf8", "wrong-content", "http-404", "http-500", "conn-reset", "garbage-json", "extra-newlines",
	"json-null", "json-empty-object", "json-negative-size", "json-odd-hex", "json-nested-nulls", "one-byte", "thirty-one-bytes", "tile-header-only", "tile-huge-count", "drop-last-byte", "append-byte", "zeros-same-length", "http-204", "http-302-no-location",
	// framing of a valid answer: no Content-Length (chunked / streamed / close-delimited), delivered whole or a byte at a time
	"unknown-length", "unknown-length-bytewise", "unknown-length-empty"}

// MenuFor is the answer menu for one flavour: the JSON-speaking ones get, in
// addition, every structural 1-edit of the valid JSON answer (JSONEdits).
func MenuFor(flavour string) []string {
	m := append([]string{}, Menu...)
	if strings.HasPrefix(flavour, "rekor") {
		for i := 0; i < JSONEditSlots; i++ {
			m = append(m, fmt.Sprintf("json-edit-%d", i))
		}
	}
	return m
}

// JSONEditSlots bounds the number of structural edits addressed by the menu;
// JSONEdits of the stub's answers yields fewer (checked by the caller).
const JSONEditSlots = 120

// JSONEdits returns every structural 1-edit of a JSON document, in a
// deterministic order: each node replaced by null / removed from its parent;
// arrays emptied, with null prepended, null appended, first element doubled;
// strings emptied or replaced by a number; numbers replaced by 0, -1, a huge
// value or a string. Still well-formed JSON - only the shape is hostile.
func JSONEdits(doc []byte) [][]byte {
	var root any
	dec := json.NewDecoder(bytes.NewReader(doc))
	dec.UseNumber()
	if dec.Decode(&root) != nil {
		return nil
	}
	var out [][]byte
	emit := func() {
		b, err := json.Marshal(root)
		if err == nil {
			out = append(out, b)
		}
	}
	var walk func(get func() any, set func(any), del func())
	walk = func(get func() any, set func(any), del func()) {
		orig := get()
		try := func(v any) { set(v); emit(); set(orig) }
		try(nil)
		if del != nil {
			del()
			emit()
			set(orig)
		}
		switch v := orig.(type) {
		case map[string]any:
			try(map[string]any{})
			keys := make([]string, 0, len(v))
			for k := range v {
				keys = append(keys, k)
			}
			sort.Strings(keys)
			for _, k := range keys {
				k := k
				walk(func() any { return v[k] }, func(x any) { v[k] = x }, func() { delete(v, k) })
			}
		case []any:
			try([]any{})
			try(append([]any{nil}, v...))
			try(append(append([]any{}, v...), nil))
			if len(v) > 0 {
				try(append([]any{v[0]}, v...))
			}
			for i := range v {
				i := i
				walk(func() any { return v[i] }, func(x any) { v[i] = x }, nil)
			}
		case string:
			try("")
			try(json.Number("7"))
		case json.Number:
			try(json.Number("0"))
			try(json.Number("-1"))
			try(json.Number("1e30"))
			try(v.String())
		}
	}
	holder := []any{root}
	walk(func() any { return holder[0] }, func(x any) { holder[0] = x; root = x }, nil)
	return out
}

var errReset = errors.New("verif: connection reset by peer")

func (s *Server) valid(u *url.URL) (int, []byte) {
	p := strings.TrimPrefix(u.EscapedPath(), "/") // as on the wire
	if s.Prefix != "" {
		rest, ok := strings.CutPrefix(p, s.Prefix)
		if !ok {
			s.note(p + ": not below the log's base URL path " + s.Prefix)
			return 404, nil
		}
		p = rest
	}
	s.mu.Lock()
	size, head := s.Size, s.Head
	s.mu.Unlock()
	tile := func(h int, rest string) (int, []byte) {
		t, err := tlog.ParseTilePath("tile/" + strconv.Itoa(h) + "/" + rest)
		if err != nil || t.L < 0 {
			s.note(p + ": not a tile path")
			return 404, nil
		}
		avail := (int64(size) >> (uint(t.H) * uint(t.L))) - t.N<<uint(t.H)
		full := int64(1) << uint(t.H)
		if avail <= 0 || (int64(t.W) == full && avail < full) || (int64(t.W) < full && int64(t.W) > avail) {
			s.note(fmt.Sprintf("%s: tile does not exist at size %d", p, size))
			return 404, nil
		}
		d, err := tlog.ReadTileData(t, s)
		if err != nil {
			return 404, nil
		}
		return 200, d
	}
	switch s.Flavour {
	case "sumdb":
		if p == "latest" {
			return 200, head
		}
		if r, ok := strings.CutPrefix(p, "tile/8/"); ok {
			return tile(8, r)
		}
	case "tiles":
		if p == "checkpoint" {
			return 200, head
		}
		if r, ok := strings.CutPrefix(p, "tile/"); ok {
			return tile(8, r)
		}
	case "pixel":
		if p == "checkpoint.txt" {
			return 200, head
		}
		if r, ok := strings.CutPrefix(p, "tile/1/"); ok {
			// The Pixel feeder writes the tile index as one decimal number
			// padded to three digits ("tile/1/0/32767", not tlog's
			// "x032/767"); the stub serves that form - the external format is
			// not specified in the repository, so it is taken from the feeder.
			if lv, rest, ok := strings.Cut(r, "/"); ok && !strings.Contains(rest, "x") {
				idx, w, partial := rest, "", false
				if i := strings.Index(rest, ".p/"); i >= 0 {
					idx, w, partial = rest[:i], rest[i+3:], true
				}
				if n, err := strconv.ParseInt(idx, 10, 64); err == nil && len(idx) >= 3 && n >= 1000 {
					enc := fmt.Sprintf("%03d", n%1000)
					for n /= 1000; n > 0; n /= 1000 {
						enc = fmt.Sprintf("x%03d/", n%1000) + enc
					}
					r = lv + "/" + enc
					if partial {
						r += ".p/" + w
					}
				}
			}
			return tile(1, r)
		}
	case "rekor", "rekor-inactive":
		if p == "api/v1/log" && s.Flavour == "rekor-inactive" {
			// The configured tree is an INACTIVE shard, listed after another one.
			b, _ := json.Marshal(map[string]any{"signedTreeHead": "active", "treeID": "1000000001", "treeSize": 77,
				"rootHash": "11", "inactiveShards": []any{
					map[string]any{"signedTreeHead": "old", "treeID": "999", "treeSize": 3, "rootHash": "00"},
					map[string]any{"signedTreeHead": string(head), "treeID": s.TreeID, "treeSize": size,
						"rootHash": hex.EncodeToString(s.Branch.Root(min(size, len(s.Branch.Data))))}}})
			return 200, b
		}
		if p == "api/v1/log" {
			b, _ := json.Marshal(map[string]any{"signedTreeHead": string(head), "treeID": s.TreeID, "treeSize": size,
				"rootHash": hex.EncodeToString(s.Branch.Root(min(size, len(s.Branch.Data)))), "inactiveShards": []any{
					map[string]any{"signedTreeHead": "old", "treeID": "999", "treeSize": 3, "rootHash": "00"}}})
			return 200, b
		}
		if p == "api/v1/log/proof" {
			q := u.Query()
			f, _ := strconv.Atoi(q.Get("firstSize"))
			l, _ := strconv.Atoi(q.Get("lastSize"))
			if q.Get("treeID") != s.TreeID || f <= 0 || l > len(s.Branch.Data) || f > l {
				return 404, nil
			}
			var hs []string
			for _, h := range s.Branch.Proof(f, l) {
				hs = append(hs, hex.EncodeToString(h))
			}
			b, _ := json.Marshal(map[string]any{"hashes": hs, "rootHash": hex.EncodeToString(s.Branch.Root(l))})
			return 200, b
		}
	case "serverless":
		if p == "checkpoint" {
			return 200, head
		}
		if strings.HasPrefix(p, "tile/") {
			return s.serverlessTile(p, size)
		}
	}
	s.note(p + ": unknown path for flavour " + s.Flavour)
	return 404, nil
}

func (s *Server) note(m string) {
	s.mu.Lock()
	s.Bad = append(s.Bad, m)
	s.mu.Unlock()
}

// serverlessTile renders a serverless-log tile: path tile/LL/IIII/II/II/II[.PP].
func (s *Server) serverlessTile(p string, size int) (int, []byte) {
	parts := strings.Split(strings.TrimPrefix(p, "tile/"), "/")
	if len(parts) != 5 {
		return 404, nil
	}
	lvl, err := strconv.ParseUint(parts[0], 16, 8)
	if err != nil {
		return 404, nil
	}
	last, psz, hasP := strings.Cut(parts[4], ".")
	idxHex := parts[1] + parts[2] + parts[3] + last
	idx, err := strconv.ParseUint(idxHex, 16, 64)
	if err != nil {
		return 404, nil
	}
	avail := (int64(size) >> (8 * lvl)) - int64(idx)*256
	if avail <= 0 {
		return 404, nil
	}
	n := int64(256)
	if hasP {
		w, err := strconv.ParseUint(psz, 16, 16)
		if err != nil {
			return 404, nil
		}
		n = int64(w)
	}
	if n > avail {
		return 404, nil
	}
	// Nodes of the tile's internal binary tree over n leaf hashes (tree level
	// 8*lvl), keyed as api.TileNodeKey: complete subtrees only.
	leaf := func(i int64) tlog.Hash {
		hs, _ := s.ReadHashes([]int64{tlog.StoredHashIndex(int(8*lvl), int64(idx)*256+i)})
		return hs[0]
	}
	nodes := make([][]byte, 2*n)
	var build func(level uint, index int64) (tlog.Hash, bool)
	build = func(level uint, index int64) (tlog.Hash, bool) {
		if (index+1)<<level > n {
			return tlog.Hash{}, false
		}
		var h tlog.Hash
		if level == 0 {
			h = leaf(index)
		} else {
			l, _ := build(level-1, 2*index)
			r, _ := build(level-1, 2*index+1)
			h = tlog.NodeHash(l, r)
		}
		key := (int64(1)<<(level+1))*index + (int64(1) << level) - 1
		if key < int64(len(nodes)) {
			nodes[key] = append([]byte{}, h[:]...)
		}
		return h, true
	}
	for level := uint(0); level <= 8; level++ {
		for index := int64(0); (index+1)<<level <= n; index++ {
			build(level, index)
		}
	}
	// Trim trailing nil nodes.
	end := len(nodes)
	for end > 0 && nodes[end-1] == nil {
		end--
	}
	var b bytes.Buffer
	fmt.Fprintf(&b, "%d\n%d\n", 32, n)
	for _, nd := range nodes[:end] {
		b.WriteString(base64.StdEncoding.EncodeToString(nd))
		b.WriteByte('\n')
	}
	return 200, b.Bytes()
}

// RoundTrip implements http.RoundTripper.
// RoundTrip answers as a server (or a CDN in front of it) that compresses when
// asked: net/http's own transport asks for gzip itself and then decompresses
// transparently, which a stub RoundTripper stands in for by answering plainly;
// but a caller that sets Accept-Encoding ITSELF gets the compressed bytes, as
// it does from net/http (Transport.DisableCompression semantics).
func (s *Server) RoundTrip(r *http.Request) (*http.Response, error) {
	resp, err := s.roundTrip(r)
	return CompressIfAsked(r, resp), err
}

// CompressIfAsked turns resp into what a compressing server answers when the
// REQUEST ITSELF carries Accept-Encoding: gzip (see RoundTrip); otherwise resp
// is returned unchanged.
func CompressIfAsked(r *http.Request, resp *http.Response) *http.Response {
	if resp == nil || resp.Body == nil || !strings.Contains(r.Header.Get("Accept-Encoding"), "gzip") {
		return resp
	}
	plain, _ := io.ReadAll(resp.Body)
	resp.Body.Close()
	var zb bytes.Buffer
	zw := gzip.NewWriter(&zb)
	_, _ = zw.Write(plain)
	_ = zw.Close()
	if resp.Header == nil {
		resp.Header = http.Header{}
	}
	resp.Header.Set("Content-Encoding", "gzip")
	resp.Body = io.NopCloser(bytes.NewReader(zb.Bytes()))
	if resp.ContentLength >= 0 {
		resp.ContentLength = int64(zb.Len())
	}
	return resp
}

func (s *Server) roundTrip(r *http.Request) (*http.Response, error) {
	// As net/http's transport: a request whose context has ended fails.
	if err := r.Context().Err(); err != nil {
		return nil, err
	}
	s.mu.Lock()
	i := len(s.Reqs)
	s.Reqs = append(s.Reqs, r.URL.RequestURI())
	ans := ""
	f := s.Answer
	s.mu.Unlock()
	if f != nil {
		ans = f(i, r.URL.Path)
	}
	// As net/http's transport reports it: ContentLength is the advertised
	// length, or -1 when the answer carries none.
	mk := func(code int, body []byte) (*http.Response, error) {
		return &http.Response{StatusCode: code, Status: fmt.Sprintf("%d %s", code, http.StatusText(code)), Body: io.NopCloser(bytes.NewReader(body)), ContentLength: int64(len(body)), Request: r, Header: http.Header{}, ProtoMajor: 1, ProtoMinor: 1}, nil
	}
	mkUnknown := func(code int, body io.Reader) (*http.Response, error) {
		return &http.Response{StatusCode: code, Status: fmt.Sprintf("%d %s", code, http.StatusText(code)), Body: io.NopCloser(body), ContentLength: -1, TransferEncoding: []string{"chunked"}, Request: r, Header: http.Header{}, ProtoMajor: 1, ProtoMinor: 1}, nil
	}
	code, body := s.valid(r.URL)
	if k, ok := strings.CutPrefix(ans, "json-edit-"); ok {
		n, _ := strconv.Atoi(k)
		if ed := JSONEdits(body); n < len(ed) {
			return mk(code, ed[n])
		}
		return mk(code, body)
	}
	switch ans {
	case "", "valid":
		return mk(code, body)
	case "empty":
		return mk(200, nil)
	case "truncated-half":
		return mk(200, body[:len(body)/2])
	case "truncated-line1", "truncated-line2":
		k := 1
		if ans == "truncated-line2" {
			k = 2
		}
		cut := 0
		for j, c := range body {
			if c == '\n' {
				k--
				if k == 0 {
					cut = j + 1
					break
				}
			}
		}
		return mk(200, body[:cut])
	case "oversize":
		return mk(200, bytes.Repeat([]byte("A"), 1<<20+1))
	case "non-utf8":
		return mk(200, []byte{0xff, 0xfe, 0x00, 0xc3, 0x28, '\n', 0x80, '\n', '\n'})
	case "wrong-content":
		return mk(200, []byte("verif.example/some-other-log\n3\nAAAAAAAAAAAAAAAAAAAAAAAAAAAAAAAAAAAAAAAAAAA=\n\n— nobody AAAAAAAAAAAA\n"))
	case "http-404":
		return mk(404, []byte("not found"))
	case "http-500":
		return mk(500, []byte("boom"))
	case "conn-reset":
		return nil, errReset
	case "garbage-json":
		return mk(200, []byte(`{"signedTreeHead": 5, "treeID": ["x"], "hashes": ["zz", 7, null], "inactiveShards": [null, {"treeID": 3}]}`))
	case "extra-newlines":
		return mk(200, append(append([]byte("\n\n"), body...), '\n', '\n'))
	case "json-null":
		return mk(200, []byte("null"))
	case "json-empty-object":
		return mk(200, []byte("{}"))
	case "json-negative-size":
		return mk(200, []byte(`{"signedTreeHead":"x","treeID":"`+s.TreeID+`","treeSize":-5,"rootHash":"zz","inactiveShards":[{"treeID":"`+s.TreeID+`","treeSize":-1,"signedTreeHead":""}],"hashes":[]}`))
	case "json-odd-hex":
		return mk(200, []byte(`{"hashes":["abc","","0g"],"signedTreeHead":"","treeID":"`+s.TreeID+`"}`))
	case "json-nested-nulls":
		return mk(200, []byte(`{"hashes":null,"inactiveShards":null,"signedTreeHead":null,"treeID":null,"treeSize":null}`))
	case "one-byte":
		return mk(200, []byte{0x01})
	case "thirty-one-bytes":
		return mk(200, bytes.Repeat([]byte{0x5a}, 31))
	case "tile-header-only":
		return mk(200, []byte("32\n"))
	case "tile-huge-count":
		return mk(200, []byte("32\n65535\nAAAA\n"))
	case "drop-last-byte":
		if len(body) > 0 {
			return mk(code, body[:len(body)-1])
		}
		return mk(code, body)
	case "append-byte":
		return mk(code, append(append([]byte{}, body...), 'Z'))
	case "zeros-same-length":
		return mk(code, make([]byte, len(body)))
	case "unknown-length":
		return mkUnknown(code, bytes.NewReader(body))
	case "unknown-length-bytewise":
		return mkUnknown(code, iotest.OneByteReader(bytes.NewReader(body)))
	case "unknown-length-empty":
		return mkUnknown(200, bytes.NewReader(nil))
	case "http-204":
		return mk(204, nil)
	case "http-302-no-location":
		return mk(302, nil)
	}
	return mk(code, body)
}
