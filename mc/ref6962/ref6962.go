// Package ref6962 is an independent reference implementation of the RFC 6962
// Merkle tree hash, consistency proof generation (RFC 6962 §2.1.2) and
// consistency proof verification (RFC 9162 §2.1.4.2). It is written from the
// RFCs and shares no code with transparency-dev/merkle or x/mod/sumdb/tlog.
package ref6962

import (
	"bytes"
	"crypto/sha256"
	"errors"
	"math/bits"
	"sync"
)

// Hash is a SHA-256 digest.
type Hash = [32]byte

// LeafHash = SHA-256(0x00 || d).
func LeafHash(d []byte) Hash {
	h := sha256.New()
	h.Write([]byte{0})
	h.Write(d)
	var r Hash
	copy(r[:], h.Sum(nil))
	return r
}

// NodeHash = SHA-256(0x01 || l || r).
func NodeHash(l, r Hash) Hash {
	h := sha256.New()
	h.Write([]byte{1})
	h.Write(l[:])
	h.Write(r[:])
	var o Hash
	copy(o[:], h.Sum(nil))
	return o
}

// EmptyRoot = SHA-256("").
func EmptyRoot() Hash { return sha256.Sum256(nil) }

// split returns the largest power of two strictly smaller than n (n >= 2).
func split(n uint64) uint64 {
	return uint64(1) << (bits.Len64(n-1) - 1)
}

// Tree is a list of leaf hashes with memoised subtree roots.
type Tree struct {
	Leaves []Hash
	mu     sync.Mutex
	memo   map[[2]int]Hash
}

// NewTree builds a tree over the given leaf data.
func NewTree(data [][]byte) *Tree {
	t := &Tree{memo: map[[2]int]Hash{}}
	for _, d := range data {
		t.Leaves = append(t.Leaves, LeafHash(d))
	}
	return t
}

// mth computes MTH(D[lo:hi]).
func (t *Tree) mth(lo, hi int) Hash {
	n := hi - lo
	if n == 0 {
		return EmptyRoot()
	}
	if n == 1 {
		return t.Leaves[lo]
	}
	key := [2]int{lo, hi}
	t.mu.Lock()
	h, ok := t.memo[key]
	t.mu.Unlock()
	if ok {
		return h
	}
	k := int(split(uint64(n)))
	h = NodeHash(t.mth(lo, lo+k), t.mth(lo+k, hi))
	t.mu.Lock()
	t.memo[key] = h
	t.mu.Unlock()
	return h
}

// Root returns MTH(D[0:n]).
func (t *Tree) Root(n int) Hash { return t.mth(0, n) }

// Proof returns PROOF(m, D[n]) of RFC 6962 §2.1.2, for 0 < m <= n.
func (t *Tree) Proof(m, n int) []Hash {
	if m <= 0 || m > n || n > len(t.Leaves) {
		return nil
	}
	return t.subproof(m, 0, n, true)
}

func (t *Tree) subproof(m, lo, hi int, b bool) []Hash {
	n := hi - lo
	if m == n {
		if b {
			return nil
		}
		return []Hash{t.mth(lo, hi)}
	}
	k := int(split(uint64(n)))
	if m <= k {
		return append(t.subproof(m, lo, lo+k, b), t.mth(lo+k, hi))
	}
	return append(t.subproof(m-k, lo+k, hi, false), t.mth(lo, lo+k))
}

// Uniform describes a tree whose leaves are all identical, so every subtree
// hash depends on its size only; roots and proofs of any size up to 2^63 are
// computable in O(log^2 n).
type Uniform struct {
	perfect [64]Hash
	mu      sync.Mutex
	memo    map[uint64]Hash
}

// NewUniform builds the uniform tree family for one leaf value.
func NewUniform(leaf []byte) *Uniform {
	u := &Uniform{memo: map[uint64]Hash{}}
	u.perfect[0] = LeafHash(leaf)
	for i := 1; i < 64; i++ {
		u.perfect[i] = NodeHash(u.perfect[i-1], u.perfect[i-1])
	}
	return u
}

// Root returns the root of the uniform tree with n leaves.
func (u *Uniform) Root(n uint64) Hash {
	if n == 0 {
		return EmptyRoot()
	}
	if n&(n-1) == 0 {
		return u.perfect[bits.TrailingZeros64(n)]
	}
	u.mu.Lock()
	h, ok := u.memo[n]
	u.mu.Unlock()
	if ok {
		return h
	}
	k := split(n)
	h = NodeHash(u.Root(k), u.Root(n-k))
	u.mu.Lock()
	u.memo[n] = h
	u.mu.Unlock()
	return h
}

// Proof returns PROOF(m, D[n]) for the uniform tree, 0 < m <= n.
func (u *Uniform) Proof(m, n uint64) []Hash {
	if m == 0 || m > n {
		return nil
	}
	return u.subproof(m, n, true)
}

func (u *Uniform) subproof(m, n uint64, b bool) []Hash {
	if m == n {
		if b {
			return nil
		}
		return []Hash{u.Root(n)}
	}
	k := split(n)
	if m <= k {
		return append(u.subproof(m, k, b), u.Root(n-k))
	}
	return append(u.subproof(m-k, n-k, false), u.Root(k))
}

// ErrBad is returned by Verify for any invalid proof.
var ErrBad = errors.New("ref6962: consistency proof invalid")

// Verify is the RFC 9162 §2.1.4.2 consistency verifier, extended by the two
// conventions c2sp.org/tlog-witness uses: equal sizes need an empty proof and
// equal roots. first == 0 is outside RFC 6962 (nothing to be consistent with)
// and is reported by ok=false, defined=false.
func Verify(first, second uint64, path [][]byte, firstHash, secondHash []byte) (ok bool, defined bool) {
	if first > second {
		return false, true
	}
	if first == 0 {
		return false, false
	}
	for _, p := range path {
		if len(p) != 32 {
			return false, true
		}
	}
	if len(firstHash) != 32 || len(secondHash) != 32 {
		return false, true
	}
	if first == second {
		return len(path) == 0 && bytes.Equal(firstHash, secondHash), true
	}
	// 1. empty path fails.
	if len(path) == 0 {
		return false, true
	}
	// 2. first is an exact power of two: prepend first_hash.
	if first&(first-1) == 0 {
		path = append([][]byte{firstHash}, path...)
	}
	// 3.
	fn, sn := first-1, second-1
	// 4.
	for fn&1 == 1 {
		fn >>= 1
		sn >>= 1
	}
	// 5.
	var fr, sr Hash
	copy(fr[:], path[0])
	sr = fr
	// 6.
	for _, c := range path[1:] {
		var ch Hash
		copy(ch[:], c)
		if sn == 0 {
			return false, true
		}
		if fn&1 == 1 || fn == sn {
			fr = NodeHash(ch, fr)
			sr = NodeHash(ch, sr)
			if fn&1 == 0 {
				for fn&1 == 0 && fn != 0 {
					fn >>= 1
					sn >>= 1
				}
			}
		} else {
			sr = NodeHash(sr, ch)
		}
		fn >>= 1
		sn >>= 1
	}
	// 7.
	return bytes.Equal(fr[:], firstHash) && bytes.Equal(sr[:], secondHash) && sn == 0, true
}

// Bytes converts a hash list to [][]byte.
func Bytes(hs []Hash) [][]byte {
	out := make([][]byte, 0, len(hs))
	for i := range hs {
		h := hs[i]
		out = append(out, h[:])
	}
	return out
}
