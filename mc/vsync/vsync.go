// Package vsync is a drop-in replacement for the parts of package sync used by
// internal/persistence/inmemory. Outside a scheduled run (Hook == nil) it
// is the real package sync. Inside a run every Lock/RLock is a scheduling
// point: the lock state is kept here and a thread that cannot take the lock is
// *disabled* in the scheduler (BlockUntil) instead of blocking the process.
//
// It must not import anything from the witness module (it is imported by it
// through the overlay).
package vsync

import "sync"

// Scheduler is implemented by verifmc/sched.
type Scheduler interface {
	// BlockUntil yields to the scheduler; the calling thread is enabled only
	// while ok() is true (ok == nil: always enabled). On return ok() holds and
	// no other thread has run since it was evaluated.
	BlockUntil(what string, ok func() bool)
}

// Hook is the active scheduler, or nil for real synchronisation. It is set and
// cleared by the scheduler while no thread is running.
var Hook Scheduler

type (
	Once      = sync.Once
	WaitGroup = sync.WaitGroup
	Pool      = sync.Pool
	Locker    = sync.Locker
	Cond      = sync.Cond
)

// NewCond is sync.NewCond.
func NewCond(l Locker) *Cond { return sync.NewCond(l) }

// OnceFunc etc. are not used by the repository; add when needed.

// RWMutex mirrors sync.RWMutex.
type RWMutex struct {
	real    sync.RWMutex
	writer  bool
	readers int
	// viaHook records whether the current holders came through the hook, so
	// that an unlock goes the same way as its lock.
	hookW bool
	hookR int
}

func (m *RWMutex) Lock() {
	if h := Hook; h != nil {
		h.BlockUntil("Lock", func() bool { return !m.writer && m.readers == 0 })
		m.writer, m.hookW = true, true
		return
	}
	m.real.Lock()
}

func (m *RWMutex) Unlock() {
	if m.hookW {
		if !m.writer {
			panic("vsync: Unlock of unlocked RWMutex")
		}
		m.writer, m.hookW = false, false
		return
	}
	m.real.Unlock()
}

func (m *RWMutex) RLock() {
	if h := Hook; h != nil {
		h.BlockUntil("RLock", func() bool { return !m.writer })
		m.readers++
		m.hookR++
		return
	}
	m.real.RLock()
}

func (m *RWMutex) RUnlock() {
	if m.hookR > 0 {
		m.readers--
		m.hookR--
		return
	}
	m.real.RUnlock()
}

func (m *RWMutex) TryLock() bool {
	if Hook != nil {
		if m.writer || m.readers > 0 {
			return false
		}
		m.writer, m.hookW = true, true
		return true
	}
	return m.real.TryLock()
}

func (m *RWMutex) TryRLock() bool {
	if Hook != nil {
		if m.writer {
			return false
		}
		m.readers++
		m.hookR++
		return true
	}
	return m.real.TryRLock()
}

// RLocker returns a Locker for the read side.
func (m *RWMutex) RLocker() Locker { return (*rlocker)(m) }

type rlocker RWMutex

func (r *rlocker) Lock()   { (*RWMutex)(r).RLock() }
func (r *rlocker) Unlock() { (*RWMutex)(r).RUnlock() }

// Mutex mirrors sync.Mutex.
type Mutex struct {
	real   sync.Mutex
	locked bool
	hook   bool
}

func (m *Mutex) Lock() {
	if h := Hook; h != nil {
		h.BlockUntil("Lock", func() bool { return !m.locked })
		m.locked, m.hook = true, true
		return
	}
	m.real.Lock()
}

func (m *Mutex) Unlock() {
	if m.hook {
		if !m.locked {
			panic("vsync: Unlock of unlocked Mutex")
		}
		m.locked, m.hook = false, false
		return
	}
	m.real.Unlock()
}

func (m *Mutex) TryLock() bool {
	if Hook != nil {
		if m.locked {
			return false
		}
		m.locked, m.hook = true, true
		return true
	}
	return m.real.TryLock()
}

// Map mirrors sync.Map: every operation is a scheduling point (a store built
// on sync.Map synchronises through these operations, not through locks).
type Map struct{ real sync.Map }

func point(what string) {
	if h := Hook; h != nil {
		h.BlockUntil(what, nil)
	}
}

func (m *Map) Load(k any) (any, bool) { point("Map.Load"); return m.real.Load(k) }
func (m *Map) Store(k, v any)         { point("Map.Store"); m.real.Store(k, v) }
func (m *Map) LoadOrStore(k, v any) (any, bool) {
	point("Map.LoadOrStore")
	return m.real.LoadOrStore(k, v)
}
func (m *Map) LoadAndDelete(k any) (any, bool) {
	point("Map.LoadAndDelete")
	return m.real.LoadAndDelete(k)
}
func (m *Map) Delete(k any)              { point("Map.Delete"); m.real.Delete(k) }
func (m *Map) Swap(k, v any) (any, bool) { point("Map.Swap"); return m.real.Swap(k, v) }
func (m *Map) CompareAndSwap(k, o, n any) bool {
	point("Map.CompareAndSwap")
	return m.real.CompareAndSwap(k, o, n)
}
func (m *Map) CompareAndDelete(k, o any) bool {
	point("Map.CompareAndDelete")
	return m.real.CompareAndDelete(k, o)
}
func (m *Map) Range(f func(k, v any) bool) { point("Map.Range"); m.real.Range(f) }
func (m *Map) Clear()                      { point("Map.Clear"); m.real.Clear() }
