// Package vatomic is a drop-in replacement for the parts of sync/atomic a store
// may be built on: outside a scheduled run it is sync/atomic; inside a run
// every operation is a scheduling point of the controlled scheduler (see
// package vsync). Imported by internal/persistence/inmemory through the
// overlay when that file imports sync/atomic.
package vatomic

import (
	"sync/atomic"

	"github.com/transparency-dev/witness/verifmc/vsync"
)

func point(what string) {
	if h := vsync.Hook; h != nil {
		h.BlockUntil(what, nil)
	}
}

// Value mirrors atomic.Value.
type Value struct{ real atomic.Value }

func (v *Value) Load() any      { point("Value.Load"); return v.real.Load() }
func (v *Value) Store(x any)    { point("Value.Store"); v.real.Store(x) }
func (v *Value) Swap(x any) any { point("Value.Swap"); return v.real.Swap(x) }
func (v *Value) CompareAndSwap(o, n any) bool {
	point("Value.CompareAndSwap")
	return v.real.CompareAndSwap(o, n)
}

// Pointer mirrors atomic.Pointer.
type Pointer[T any] struct{ real atomic.Pointer[T] }

func (p *Pointer[T]) Load() *T     { point("Pointer.Load"); return p.real.Load() }
func (p *Pointer[T]) Store(x *T)   { point("Pointer.Store"); p.real.Store(x) }
func (p *Pointer[T]) Swap(x *T) *T { point("Pointer.Swap"); return p.real.Swap(x) }
func (p *Pointer[T]) CompareAndSwap(o, n *T) bool {
	point("Pointer.CompareAndSwap")
	return p.real.CompareAndSwap(o, n)
}

// Bool mirrors atomic.Bool.
type Bool struct{ real atomic.Bool }

func (b *Bool) Load() bool       { point("Bool.Load"); return b.real.Load() }
func (b *Bool) Store(x bool)     { point("Bool.Store"); b.real.Store(x) }
func (b *Bool) Swap(x bool) bool { point("Bool.Swap"); return b.real.Swap(x) }
func (b *Bool) CompareAndSwap(o, n bool) bool {
	point("Bool.CompareAndSwap")
	return b.real.CompareAndSwap(o, n)
}

// Int32 mirrors atomic.Int32.
type Int32 struct{ real atomic.Int32 }

func (x *Int32) Load() int32        { point("Int32.Load"); return x.real.Load() }
func (x *Int32) Store(v int32)      { point("Int32.Store"); x.real.Store(v) }
func (x *Int32) Swap(v int32) int32 { point("Int32.Swap"); return x.real.Swap(v) }
func (x *Int32) Add(d int32) int32  { point("Int32.Add"); return x.real.Add(d) }
func (x *Int32) CompareAndSwap(o, n int32) bool {
	point("Int32.CompareAndSwap")
	return x.real.CompareAndSwap(o, n)
}

func LoadInt32(a *int32) int32          { point("LoadInt32"); return atomic.LoadInt32(a) }
func StoreInt32(a *int32, v int32)      { point("StoreInt32"); atomic.StoreInt32(a, v) }
func SwapInt32(a *int32, v int32) int32 { point("SwapInt32"); return atomic.SwapInt32(a, v) }
func AddInt32(a *int32, d int32) int32  { point("AddInt32"); return atomic.AddInt32(a, d) }
func CompareAndSwapInt32(a *int32, o, n int32) bool {
	point("CompareAndSwapInt32")
	return atomic.CompareAndSwapInt32(a, o, n)
}

// Int64 mirrors atomic.Int64.
type Int64 struct{ real atomic.Int64 }

func (x *Int64) Load() int64        { point("Int64.Load"); return x.real.Load() }
func (x *Int64) Store(v int64)      { point("Int64.Store"); x.real.Store(v) }
func (x *Int64) Swap(v int64) int64 { point("Int64.Swap"); return x.real.Swap(v) }
func (x *Int64) Add(d int64) int64  { point("Int64.Add"); return x.real.Add(d) }
func (x *Int64) CompareAndSwap(o, n int64) bool {
	point("Int64.CompareAndSwap")
	return x.real.CompareAndSwap(o, n)
}

func LoadInt64(a *int64) int64          { point("LoadInt64"); return atomic.LoadInt64(a) }
func StoreInt64(a *int64, v int64)      { point("StoreInt64"); atomic.StoreInt64(a, v) }
func SwapInt64(a *int64, v int64) int64 { point("SwapInt64"); return atomic.SwapInt64(a, v) }
func AddInt64(a *int64, d int64) int64  { point("AddInt64"); return atomic.AddInt64(a, d) }
func CompareAndSwapInt64(a *int64, o, n int64) bool {
	point("CompareAndSwapInt64")
	return atomic.CompareAndSwapInt64(a, o, n)
}

// Uint32 mirrors atomic.Uint32.
type Uint32 struct{ real atomic.Uint32 }

func (x *Uint32) Load() uint32         { point("Uint32.Load"); return x.real.Load() }
func (x *Uint32) Store(v uint32)       { point("Uint32.Store"); x.real.Store(v) }
func (x *Uint32) Swap(v uint32) uint32 { point("Uint32.Swap"); return x.real.Swap(v) }
func (x *Uint32) Add(d uint32) uint32  { point("Uint32.Add"); return x.real.Add(d) }
func (x *Uint32) CompareAndSwap(o, n uint32) bool {
	point("Uint32.CompareAndSwap")
	return x.real.CompareAndSwap(o, n)
}

func LoadUint32(a *uint32) uint32           { point("LoadUint32"); return atomic.LoadUint32(a) }
func StoreUint32(a *uint32, v uint32)       { point("StoreUint32"); atomic.StoreUint32(a, v) }
func SwapUint32(a *uint32, v uint32) uint32 { point("SwapUint32"); return atomic.SwapUint32(a, v) }
func AddUint32(a *uint32, d uint32) uint32  { point("AddUint32"); return atomic.AddUint32(a, d) }
func CompareAndSwapUint32(a *uint32, o, n uint32) bool {
	point("CompareAndSwapUint32")
	return atomic.CompareAndSwapUint32(a, o, n)
}

// Uint64 mirrors atomic.Uint64.
type Uint64 struct{ real atomic.Uint64 }

func (x *Uint64) Load() uint64         { point("Uint64.Load"); return x.real.Load() }
func (x *Uint64) Store(v uint64)       { point("Uint64.Store"); x.real.Store(v) }
func (x *Uint64) Swap(v uint64) uint64 { point("Uint64.Swap"); return x.real.Swap(v) }
func (x *Uint64) Add(d uint64) uint64  { point("Uint64.Add"); return x.real.Add(d) }
func (x *Uint64) CompareAndSwap(o, n uint64) bool {
	point("Uint64.CompareAndSwap")
	return x.real.CompareAndSwap(o, n)
}

func LoadUint64(a *uint64) uint64           { point("LoadUint64"); return atomic.LoadUint64(a) }
func StoreUint64(a *uint64, v uint64)       { point("StoreUint64"); atomic.StoreUint64(a, v) }
func SwapUint64(a *uint64, v uint64) uint64 { point("SwapUint64"); return atomic.SwapUint64(a, v) }
func AddUint64(a *uint64, d uint64) uint64  { point("AddUint64"); return atomic.AddUint64(a, d) }
func CompareAndSwapUint64(a *uint64, o, n uint64) bool {
	point("CompareAndSwapUint64")
	return atomic.CompareAndSwapUint64(a, o, n)
}
