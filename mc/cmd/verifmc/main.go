// Command verifmc runs the model-checking checks for transparency-dev/witness.
package main

import (
	"github.com/transparency-dev/witness/monitoring"
	wprom "github.com/transparency-dev/witness/monitoring/prometheus"
	"encoding/json"
	"flag"
	"fmt"
	"github.com/transparency-dev/witness/verifmc/ev"
	"os"
	"sort"
	"time"

	"github.com/transparency-dev/witness/verifmc/checks"
	"github.com/transparency-dev/witness/verifmc/wh"
	"k8s.io/klog/v2"
)

func main() {
	// Silence klog (the repository logs every refused update).
	fs := flag.NewFlagSet("klog", flag.ContinueOnError)
	klog.InitFlags(fs)
	_ = fs.Set("logtostderr", "false")
	_ = fs.Set("alsologtostderr", "false")
	_ = fs.Set("stderrthreshold", "FATAL")
	klog.SetOutput(discard{})
	if os.Getenv("VERIF_METRICS") == "prometheus" {
		// the production default (cmd/omniwitness with --metrics_listen): label
		// values reach the Prometheus client library
		monitoring.SetMetricFactory(wprom.MetricFactory{Prefix: "verif_"})
	} else {
		wh.InstallMetrics()
	}

	if len(os.Args) < 2 {
		usage()
	}
	switch os.Args[1] {
	case "check":
		if len(os.Args) < 4 {
			usage()
		}
		c, ok := checks.Registry[os.Args[2]]
		if !ok {
			fmt.Printf("INTERNAL-ERROR: no check for %s\n", os.Args[2])
			os.Exit(2)
		}
		os.Exit(c(os.Args[3]))
	case "replay":
		if len(os.Args) < 3 {
			usage()
		}
		b, err := os.ReadFile(os.Args[2])
		if err != nil {
			fmt.Println("INTERNAL-ERROR:", err)
			os.Exit(2)
		}
		var m map[string]any
		if err := json.Unmarshal(b, &m); err != nil {
			fmt.Println("INTERNAL-ERROR:", err)
			os.Exit(2)
		}
		kind, _ := m["kind"].(string)
		r, ok := checks.Replayers[kind]
		if !ok {
			// Generic replay: the checks are deterministic, so re-executing
			// the property's quick check (as a scratch run: no evidence, no
			// replay files) and looking for the recorded signature replays
			// the case.
			prop, _ := m["property"].(string)
			c, okc := checks.Registry[prop]
			if !okc {
				fmt.Printf("INTERNAL-ERROR: no replayer for kind %q and no check %q\n", kind, prop)
				os.Exit(2)
			}
			ev.ForceScratch = true
			ev.OnlySignature, _ = m["signature"].(string)
			fmt.Printf("replaying by re-running the %s quick check and looking for signature %q\nrecorded: %v\n", prop, ev.OnlySignature, m["what"])
			os.Exit(c("quick"))
		}
		os.Exit(r(m))
	case "worker":
		if len(os.Args) < 3 {
			usage()
		}
		// A worker never outlives the check that started it (a worker may be
		// spinning inside code under test when its parent is killed).
		go func(ppid int) {
			for {
				time.Sleep(500 * time.Millisecond)
				if os.Getppid() != ppid {
					os.Exit(3)
				}
			}
		}(os.Getppid())
		w, ok := checks.Workers[os.Args[2]]
		if !ok {
			fmt.Printf("INTERNAL-ERROR: no worker %q\n", os.Args[2])
			os.Exit(2)
		}
		os.Exit(w(os.Args[3:]))
	case "list":
		var ids []string
		for id := range checks.Registry {
			ids = append(ids, id)
		}
		sort.Strings(ids)
		for _, id := range ids {
			fmt.Println(id)
		}
	default:
		usage()
	}
}

type discard struct{}

func (discard) Write(p []byte) (int, error) { return len(p), nil }

func usage() {
	fmt.Println("usage: verifmc check <id> <quick|thorough> | replay <file> | worker <name> args... | list")
	os.Exit(2)
}
