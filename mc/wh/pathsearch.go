package wh

import (
	"sync"
	"sync/atomic"
)

// PathSearch executes EVERY request sequence of length <= depth over the
// alphabet fn(state) on a fresh witness each (no state merging, so behaviour
// that depends on hidden history - caches, remembered previous steps - is
// reached), calling onStep for every step of every sequence exactly once per
// distinct prefix. Returns (sequences, transitions).
func PathSearch(o SearchOpts, depth int, fn func(st MState, hist []Req) []Req) (int64, int64) {
	if o.Workers <= 0 {
		o.Workers = 16
	}
	cfg := Config{Store: o.Store, Signers: o.Signers, Logs: append([]LogCfg{o.Log}, o.Extra...)}
	id := o.Log.ID()
	var seqs, trans atomic.Int64
	type node struct{ path []Req }
	build := func(path []Req) *Env {
		e := NewEnv(o.U, cfg)
		if o.SetupFn != nil {
			o.SetupFn(e)
		}
		for _, r := range o.Prelude {
			e.Do(r)
		}
		for _, r := range path {
			e.Do(r)
		}
		return e
	}
	var expand func(path []Req, d int)
	expand = func(path []Req, d int) {
		e := build(path)
		st, _ := StateOf(o.Gen, e.Stored(id))
		reqs := fn(st, path)
		before := e.Snap()
		dirty := false
		for _, r := range reqs {
			if dirty {
				e.Close()
				e = build(path)
				before = e.Snap()
				dirty = false
			}
			var lc *LogCfg
			if c, ok := e.LogByID[r.LogID]; ok {
				lc = &c
			}
			exp := Model(lc, st, r)
			t0 := ClockNow()
			out := e.Do(r)
			t1 := ClockNow()
			after := e.Snap()
			stAfter, known := StateOf(o.Gen, []byte(after.ByID[id]))
			if _, has := after.ByID[id]; !has {
				stAfter, known = MState{}, true
			}
			trans.Add(1)
			seqs.Add(1)
			if o.OnStep != nil {
				o.OnStep(&Step{Env: e, Log: o.Log, Cfg: lc, Path: path, Req: r, StBefore: st, StAfter: stAfter, Foreign: !known,
					Exp: exp, Out: out, Before: before, After: after, T0: t0, T1: t1})
			}
			// Any request may have changed hidden state: always continue
			// below it, and always rebuild before the next sibling.
			dirty = true
			if d+1 < depth {
				np := append(append([]Req{}, path...), r)
				expand(np, d+1)
			}
		}
		e.Close()
	}
	// Parallelise over first requests.
	e0 := build(nil)
	st0, _ := StateOf(o.Gen, e0.Stored(id))
	first := fn(st0, nil)
	e0.Close()
	ch := make(chan Req)
	var wg sync.WaitGroup
	for w := 0; w < o.Workers; w++ {
		wg.Add(1)
		go func() {
			defer wg.Done()
			for r := range ch {
				e := build(nil)
				var lc *LogCfg
				if c, ok := e.LogByID[r.LogID]; ok {
					lc = &c
				}
				before := e.Snap()
				exp := Model(lc, st0, r)
				t0 := ClockNow()
				out := e.Do(r)
				t1 := ClockNow()
				after := e.Snap()
				stAfter, known := StateOf(o.Gen, []byte(after.ByID[id]))
				if _, has := after.ByID[id]; !has {
					stAfter, known = MState{}, true
				}
				trans.Add(1)
				seqs.Add(1)
				if o.OnStep != nil {
					o.OnStep(&Step{Env: e, Log: o.Log, Cfg: lc, Path: nil, Req: r, StBefore: st0, StAfter: stAfter, Foreign: !known,
						Exp: exp, Out: out, Before: before, After: after, T0: t0, T1: t1})
				}
				e.Close()
				if depth > 1 {
					expand([]Req{r}, 1)
				}
			}
		}()
	}
	for _, r := range first {
		ch <- r
	}
	close(ch)
	wg.Wait()
	return seqs.Load(), trans.Load()
}
