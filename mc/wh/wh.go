// Package wh builds real witnesses over real stores for the checks, defines
// the request/outcome vocabulary, and holds the reference model (wmodel) of
// the witness protocol written from c2sp.org/tlog-witness and RFC 6962.
package wh

import (
	"github.com/transparency-dev/witness/omniwitness"
	"time"
	"bytes"
	"context"
	"database/sql"
	"encoding/base64"
	"errors"
	"fmt"
	"sort"
	"strings"
	"sync"

	"github.com/mattn/go-sqlite3"
	"github.com/transparency-dev/merkle/rfc6962"
	"github.com/transparency-dev/witness/internal/persistence"
	"github.com/transparency-dev/witness/internal/persistence/inmemory"
	psql "github.com/transparency-dev/witness/internal/persistence/sql"
	"github.com/transparency-dev/witness/internal/witness"
	"github.com/transparency-dev/witness/monitoring"
	"github.com/transparency-dev/witness/verifmc/drvwrap"
	"github.com/transparency-dev/witness/verifmc/lspwrap"
	"github.com/transparency-dev/witness/verifmc/ref6962"
	"github.com/transparency-dev/witness/verifmc/uni"
	"golang.org/x/mod/sumdb/note"
	"google.golang.org/grpc/codes"
	"google.golang.org/grpc/status"
)

// ---------------------------------------------------------------- metrics

// RecCounter is a recording counter.
type RecCounter struct {
	Name   string
	Labels []string
	mu     sync.Mutex
	Vals   map[string]int64
}

func (c *RecCounter) Inc(lv ...string) {
	c.mu.Lock()
	c.Vals[strings.Join(lv, "|")]++
	c.mu.Unlock()
}

// RecFactory is a recording MetricFactory.
type RecFactory struct {
	mu       sync.Mutex
	Counters map[string]*RecCounter
}

func (f *RecFactory) NewCounter(name, help string, labels ...string) monitoring.Counter {
	f.mu.Lock()
	defer f.mu.Unlock()
	c := &RecCounter{Name: name, Labels: labels, Vals: map[string]int64{}}
	f.Counters[name] = c
	return c
}

// Snapshot returns name|labels -> value for all counters.
func (f *RecFactory) Snapshot() map[string]int64 {
	f.mu.Lock()
	defer f.mu.Unlock()
	out := map[string]int64{}
	for n, c := range f.Counters {
		c.mu.Lock()
		for k, v := range c.Vals {
			out[n+"{"+k+"}"] = v
		}
		c.mu.Unlock()
	}
	return out
}

// Metrics is the process-wide recording factory; InstallMetrics must be called
// first thing in main.
var Metrics = &RecFactory{Counters: map[string]*RecCounter{}}

// InstallMetrics installs the recording factory.
func InstallMetrics() { monitoring.SetMetricFactory(Metrics) }

// ---------------------------------------------------------------- config

// LogCfg configures one log at the witness.
type LogCfg struct {
	Origin string
	Key    uni.Key
	// CustomID registers the log under a hand-picked ID instead of the hash of
	// its origin (witness.Opts.KnownLogs takes any ID; the repository's own
	// tests use IDs like "monkeys"). The witness's log map is then built
	// directly, not through omniwitness.LogConfig.AsLogMap.
	CustomID string
}

// ID returns the log ID.
func (l LogCfg) ID() string {
	if l.CustomID != "" {
		return l.CustomID
	}
	return uni.ID(l.Origin)
}

// Config describes a witness instance.
type Config struct {
	Store   string   // "mem", "sql" (sqlite :memory:, one connection), "file:<path>"
	Logs    []LogCfg // configured logs
	Signers []string // subset of legacy, cosig, cosig2 (default: legacy, cosig)
	// Guard: Do runs the update under a 60 s watchdog (for searches on the
	// single-connection SQL store, where a leaked transaction blocks forever).
	Guard bool
	// NoGuard switches the default guard of SQL stores off.
	NoGuard bool
	// Wrap optionally wraps the persistence handed to the witness.
	Wrap func(persistence.LogStatePersistence) persistence.LogStatePersistence
	// DrvSetup is called on the wrapping SQL driver before the store is
	// initialised (so that Init's operations are visible to hooks).
	DrvSetup func(*drvwrap.Driver)
	// CustomSigners, when set, are the witness's keys (instead of Signers).
	CustomSigners []note.Signer
	// IDOverride lets a check register a log under a hand-picked ID.
	IDOverride map[string]string
}

// Env is one real witness over one real store.
type Env struct {
	U    *uni.U
	Cfg  Config
	W    *witness.Witness
	Raw  persistence.LogStatePersistence // unwrapped store
	Drv  *drvwrap.Driver                 // nil for mem
	DB   *sql.DB
	Sigs []note.Signer
	// WitVerifs are verifiers for each configured witness signer.
	WitVerifs []note.Verifier
	LogByID   map[string]LogCfg
	// X holds per-environment extras set by checks (e.g. an HTTP handler).
	X map[string]any
	// mirror is the ground truth for the in-memory store: the bytes of every
	// successful Set, recorded by a wrapper below the witness (the store's own
	// read path is under test and cannot be its own ground truth).
	mirrorMu sync.Mutex
	mirror   map[string][]byte
	// gt: for file-backed stores, a connection of the harness's own for
	// ground-truth reads of the table (a store that keeps the pool's only
	// connection to itself must not starve the harness).
	gt       *sql.DB
	wrapped  persistence.LogStatePersistence
	known    map[string]witness.LogInfo
	// ConfigDiff: how the repository's own log map differs from what was configured ("" = not at all).
	ConfigDiff string
	// Diverged: replaying an accepted request sequence gave another answer (reported).
	Diverged bool
	// Blocked: a guarded call never returned; the environment is unusable.
	Blocked bool
	inGuard bool
	// OnRestart re-wires whatever was built around e.W (handlers, clients).
	OnRestart func(*Env)
}

// Signers resolves signer names.
func Signers(u *uni.U, names []string) ([]note.Signer, []note.Verifier) {
	if len(names) == 0 {
		names = []string{"legacy", "cosig"}
	}
	var s []note.Signer
	var v []note.Verifier
	for _, n := range names {
		switch n {
		case "legacy":
			s = append(s, u.W1.Signer)
			v = append(v, u.W1.Verif)
		case "cosig":
			s = append(s, u.W1.CosigSigner)
			v = append(v, u.W1.CosigVerif)
		case "cosig2":
			s = append(s, u.W2.CosigSigner)
			v = append(v, u.W2.CosigVerif)
		case "legacy2":
			s = append(s, u.W2.Signer)
			v = append(v, u.W2.Verif)
		case "legacy-logname":
			s = append(s, u.W3.Signer)
			v = append(v, u.W3.Verif)
		case "cosig-logname":
			s = append(s, u.W3.CosigSigner)
			v = append(v, u.W3.CosigVerif)
		default:
			panic("unknown signer " + n)
		}
	}
	return s, v
}

// NewEnv builds the witness.
func NewEnv(u *uni.U, cfg Config) *Env {
	// SQL stores have one connection: unless the caller interposes on the
	// store itself (Wrap: the scheduler of C05, the fault engine of C07, which
	// have their own watchdogs) every call runs guarded, so that a leaked
	// transaction shows up as a "blocked" outcome instead of a hung check.
	if cfg.Store != "mem" && cfg.Wrap == nil && !cfg.NoGuard {
		cfg.Guard = true
	}
	e := &Env{U: u, Cfg: cfg, LogByID: map[string]LogCfg{}, X: map[string]any{}}
	switch {
	case cfg.Store == "mem":
		e.Raw = inmemory.NewPersistence()
	case cfg.Store == "sql" || strings.HasPrefix(cfg.Store, "file:"):
		dsn := ":memory:"
		if strings.HasPrefix(cfg.Store, "file:") {
			dsn = strings.TrimPrefix(cfg.Store, "file:")
		}
		e.Drv = drvwrap.New(&sqlite3.SQLiteDriver{})
		if cfg.DrvSetup != nil {
			cfg.DrvSetup(e.Drv)
		}
		e.DB = e.Drv.OpenDB(dsn)
		// As cmd/omniwitness/monolith.go:134-135.
		if strings.HasPrefix(cfg.Store, "file:") {
			e.gt, _ = sql.Open("sqlite3", dsn+"?_busy_timeout=5000")
		}
		e.DB.SetMaxOpenConns(1)
		e.Raw = psql.NewPersistence(e.DB)
	default:
		panic("unknown store " + cfg.Store)
	}
	known := map[string]witness.LogInfo{}
	for _, l := range cfg.Logs {
		id := l.ID()
		if o, ok := cfg.IDOverride[l.Origin]; ok {
			id = o
		}
		known[id] = witness.LogInfo{SigV: l.Key.Verif, Origin: l.Origin, Hasher: rfc6962.DefaultHasher}
		e.LogByID[id] = l
	}
	// The witness's log map is built the way the binary builds it
	// (omniwitness.LogConfig.AsLogMap, which goes through the repository's
	// own key parsing and ID derivation) whenever that is possible (no ID
	// override, no duplicate origins); it must describe exactly the logs that
	// were configured - ConfigDiff says how it does not.
	custom := false
	for _, l := range cfg.Logs {
		custom = custom || l.CustomID != ""
	}
	if len(cfg.IDOverride) == 0 && !custom {
		var lc omniwitness.LogConfig
		for _, l := range cfg.Logs {
			lc.Logs = append(lc.Logs, omniwitness.LogInfo{Origin: l.Origin, PublicKey: l.Key.VKey, URL: "http://unused.example/"})
		}
		if m, err := lc.AsLogMap(); err == nil {
			for id, want := range known {
				got, ok := m[id]
				switch {
				case !ok:
					e.ConfigDiff = fmt.Sprintf("AsLogMap has no entry for ID %s (origin %q)", id, want.Origin)
				case got.Origin != want.Origin:
					e.ConfigDiff = fmt.Sprintf("AsLogMap gives origin %q for the log configured with origin %q", got.Origin, want.Origin)
				case got.SigV.Name() != want.SigV.Name() || got.SigV.KeyHash() != want.SigV.KeyHash():
					e.ConfigDiff = fmt.Sprintf("AsLogMap gives verifier %s+%08x for origin %q configured with key %s+%08x", got.SigV.Name(), got.SigV.KeyHash(), want.Origin, want.SigV.Name(), want.SigV.KeyHash())
				}
			}
			if len(m) != len(known) {
				e.ConfigDiff = fmt.Sprintf("AsLogMap has %d entries for %d configured logs", len(m), len(known))
			}
			known = m
		}
	}
	e.Sigs, e.WitVerifs = Signers(u, cfg.Signers)
	if len(cfg.CustomSigners) > 0 {
		e.Sigs = cfg.CustomSigners
	}
	var p persistence.LogStatePersistence = e.Raw
	if e.DB == nil {
		e.mirror = map[string][]byte{}
		p = lspwrap.New(p, lspwrap.Hooks{Observe: func(op, id string, data []byte, err error) {
			if op == "w.Set" && err == nil {
				e.mirrorMu.Lock()
				e.mirror[id] = append([]byte(nil), data...)
				e.mirrorMu.Unlock()
			}
		}})
	}
	if cfg.Wrap != nil {
		p = cfg.Wrap(p)
	}
	e.wrapped, e.known = p, known
	w, err := witness.New(witness.Opts{Persistence: p, Signers: e.Sigs, KnownLogs: known})
	if err != nil {
		panic(fmt.Sprintf("witness.New: %v", err))
	}
	e.W = w
	return e
}

// Restart replaces the Witness by a new one over the same store (a process
// restart as far as the witness object is concerned: whatever it kept in
// memory is gone, what it stored is not).
func (e *Env) Restart() {
	w, err := witness.New(witness.Opts{Persistence: e.wrapped, Signers: e.Sigs, KnownLogs: e.known})
	if err != nil {
		panic(fmt.Sprintf("witness.New (restart): %v", err))
	}
	e.W = w
	if e.OnRestart != nil {
		e.OnRestart(e)
	}
}

// RestartWithout starts a new Witness object over the same store whose
// configuration no longer names the given log IDs (an operator dropped them).
func (e *Env) RestartWithout(ids ...string) {
	known := map[string]witness.LogInfo{}
	for id, li := range e.known {
		known[id] = li
	}
	for _, id := range ids {
		delete(known, id)
	}
	w, err := witness.New(witness.Opts{Persistence: e.wrapped, Signers: e.Sigs, KnownLogs: known})
	if err != nil {
		panic(fmt.Sprintf("witness.New (restart with a reduced configuration): %v", err))
	}
	e.W = w
	if e.OnRestart != nil {
		e.OnRestart(e)
	}
}

// Close releases the store.
func (e *Env) Close() {
	if e.gt != nil {
		_ = e.gt.Close()
	}
	if e.DB != nil {
		_ = e.DB.Close()
	}
}

// Stored reads the stored bytes of one log through the unwrapped store
// (nil = nothing stored).
func (e *Env) Stored(id string) []byte {
	if e.Cfg.Guard && !e.inGuard {
		var b []byte
		e.guarded(func() { b = e.Stored(id) })
		return b
	}
	if e.DB != nil {
		// Ground truth for the SQL store is read straight from the table,
		// not through the persistence object (whose read path is under test).
		var b []byte
		db := e.DB
		if e.gt != nil {
			db = e.gt
		}
		err := db.QueryRow("SELECT chkpt FROM chkpts WHERE logID = ?", id).Scan(&b)
		if err == sql.ErrNoRows {
			return nil
		}
		if err != nil {
			panic(fmt.Sprintf("direct read of chkpts: %v", err))
		}
		return b
	}
	if e.mirror != nil {
		e.mirrorMu.Lock()
		defer e.mirrorMu.Unlock()
		if b, ok := e.mirror[id]; ok {
			return append([]byte(nil), b...)
		}
		return nil
	}
	r, err := e.Raw.ReadOps(id)
	if err != nil {
		panic(fmt.Sprintf("raw ReadOps: %v", err))
	}
	b, err := r.GetLatest()
	if err != nil {
		if status.Code(err) == codes.NotFound {
			return nil
		}
		panic(fmt.Sprintf("raw GetLatest: %v", err))
	}
	return b
}

// Snapshot is the whole observable state: stored bytes per ID (configured IDs
// plus everything Logs() lists) and the sorted log list.
type Snapshot struct {
	ByID map[string]string
	Logs []string
}

// Snap takes a snapshot through the unwrapped store.
func (e *Env) Snap() Snapshot {
	if e.Cfg.Guard && !e.inGuard {
		sn := Snapshot{ByID: map[string]string{}}
		e.guarded(func() { sn = e.Snap() })
		return sn
	}
	s := Snapshot{ByID: map[string]string{}}
	l, err := e.Raw.Logs()
	if err != nil {
		panic(fmt.Sprintf("raw Logs: %v", err))
	}
	s.Logs = append(s.Logs, l...)
	sort.Strings(s.Logs)
	ids := map[string]bool{}
	for id := range e.LogByID {
		ids[id] = true
	}
	for _, id := range l {
		ids[id] = true
	}
	for id := range ids {
		if b := e.Stored(id); b != nil {
			s.ByID[id] = string(b)
		}
	}
	return s
}

// Equal compares snapshots.
func (s Snapshot) Equal(o Snapshot) bool {
	if len(s.ByID) != len(o.ByID) || len(s.Logs) != len(o.Logs) {
		return false
	}
	for k, v := range s.ByID {
		if o.ByID[k] != v {
			return false
		}
	}
	for i := range s.Logs {
		if s.Logs[i] != o.Logs[i] {
			return false
		}
	}
	return true
}

// ---------------------------------------------------------------- requests

// Meta is the ground truth about a submitted checkpoint, produced by the
// generator (never by parsing).
type Meta struct {
	// ValidFor lists "origin|keyname" pairs for which this checkpoint is a
	// well-formed checkpoint of that origin carrying a valid signature by
	// that key.
	Origin  string
	KeyName string // name+hash of the log key whose valid signature it carries ("" = none)
	Broken  bool   // malformed / corrupted: must not be accepted by anyone
	Size    uint64
	Root    []byte
	Text    string
	// Branch / BranchSize identify the leaf list (nil for uniform universe).
	Branch *uni.Branch
	Shape  string
}

// Req is one update request.
type Req struct {
	LogID string
	Old   uint64
	CP    []byte
	Proof [][]byte
	Meta  Meta
	Label string
}

// JSON renders the request for replay files.
func (r Req) JSON() map[string]any {
	p := []string{}
	for _, h := range r.Proof {
		p = append(p, base64.StdEncoding.EncodeToString(h))
	}
	return map[string]any{"log_id": r.LogID, "old": fmt.Sprint(r.Old), "cp_b64": base64.StdEncoding.EncodeToString(r.CP), "proof_b64": p, "label": r.Label}
}

// Outcome is what Update returned.
type Outcome struct {
	Bytes []byte
	Err   error
	Class string
}

// Classes.
const (
	OK           = "accepted"
	Unknown      = "unknown-log"
	NoSig        = "no-valid-signature"
	OldInvalid   = "old-size-invalid"
	Stale        = "stale"
	RootMismatch = "root-mismatch"
	BadProof     = "invalid-proof"
	Other        = "other-error"
)

// Classify maps an error to a class.
func Classify(err error) string {
	switch {
	case err == nil:
		return OK
	// The sentinels are compared by identity, as the callers in the
	// repository do (the bastion handler switches on them): a WRAPPED sentinel
	// is a different answer for those callers and gets its own class.
	case err == witness.ErrUnknownLog:
		return Unknown
	case err == witness.ErrNoValidSignature:
		return NoSig
	case err == witness.ErrOldSizeInvalid:
		return OldInvalid
	case err == witness.ErrCheckpointStale:
		return Stale
	case err == witness.ErrRootMismatch:
		return RootMismatch
	case err == witness.ErrInvalidProof:
		return BadProof
	case errors.Is(err, witness.ErrUnknownLog), errors.Is(err, witness.ErrNoValidSignature), errors.Is(err, witness.ErrOldSizeInvalid),
		errors.Is(err, witness.ErrCheckpointStale), errors.Is(err, witness.ErrRootMismatch), errors.Is(err, witness.ErrInvalidProof):
		return "wrapped-sentinel"
	}
	return Other
}

// Do performs the request on the real witness.
func (e *Env) Do(r Req) Outcome {
	// The code under test gets its own copy of the request bytes: generated
	// checkpoints are cached and shared between requests and goroutines.
	cp := append([]byte(nil), r.CP...)
	var proof [][]byte
	if r.Proof != nil {
		proof = make([][]byte, len(r.Proof))
		for i, h := range r.Proof {
			proof[i] = append([]byte(nil), h...)
		}
	}
	if !e.Cfg.Guard {
		b, err := e.W.Update(context.Background(), r.LogID, r.Old, cp, proof)
		return Outcome{Bytes: b, Err: err, Class: Classify(err)}
	}
	// Guarded: a call that does not return within a minute (the store's only
	// connection is held by something an earlier request leaked) is reported
	// as blocked instead of hanging the check. The environment is dead then.
	if e.Blocked {
		return Outcome{Err: ErrBlocked, Class: Blocked}
	}
	type res struct {
		b   []byte
		err error
	}
	ch := make(chan res, 1)
	go func() {
		b, err := e.W.Update(context.Background(), r.LogID, r.Old, cp, proof)
		ch <- res{b, err}
	}()
	select {
	case x := <-ch:
		return Outcome{Bytes: x.b, Err: x.err, Class: Classify(x.err)}
	case <-time.After(60 * time.Second):
		e.Blocked = true
		return Outcome{Err: ErrBlocked, Class: Blocked}
	}
}

// guarded runs f under the watchdog (ground-truth reads of the SQL store use
// the same single connection a leaked transaction holds).
func (e *Env) guarded(f func()) {
	if e.Blocked {
		return
	}
	done := make(chan struct{})
	go func() {
		e.inGuard = true
		defer func() { e.inGuard = false; close(done) }()
		f()
	}()
	select {
	case <-done:
	case <-time.After(60 * time.Second):
		e.Blocked = true
	}
}

// Blocked is the class of a guarded call that never returned.
const Blocked = "blocked"

// ErrBlocked is the error of a guarded call that never returned.
var ErrBlocked = errors.New("verif: the call did not return within 60 s (store blocked)")

// ---------------------------------------------------------------- wmodel

// MState is the model state of one log.
type MState struct {
	Has  bool
	Size uint64
	Root []byte
	// Branch is ground truth only (not part of the protocol state).
	Branch *uni.Branch
}

// Key is the canonical state key.
func (s MState) Key() string {
	if !s.Has {
		return "⊥"
	}
	return fmt.Sprintf("%d:%x", s.Size, s.Root)
}

// Expect is the model's prediction for one request.
type Expect struct {
	Class string
	// Ret: "nil", "stored" or "new".
	Ret string
	// Claimed is false for cells a property excludes (don't care).
	Claimed bool
	Why     string
	Next    MState
}

// KeyID identifies a verifier.
func KeyID(v note.Verifier) string { return fmt.Sprintf("%s+%08x", v.Name(), v.KeyHash()) }

// Model predicts the answer of the witness for request r in state st, where
// cfg is the configuration of r.LogID (nil = unknown log). It is the decision
// list of c2sp.org/tlog-witness as restated in property C09.
func Model(cfg *LogCfg, st MState, r Req) Expect {
	// 1. unknown log.
	if cfg == nil {
		return Expect{Class: Unknown, Ret: "nil", Claimed: true, Next: st}
	}
	// 2. no valid signature by the configured key over a well-formed
	// checkpoint of the configured origin.
	if r.Meta.Broken || r.Meta.KeyName != KeyID(cfg.Key.Verif) || r.Meta.Origin != cfg.Origin {
		return Expect{Class: NoSig, Ret: "nil", Claimed: true, Next: st}
	}
	nx := MState{Has: true, Size: r.Meta.Size, Root: r.Meta.Root, Branch: r.Meta.Branch}
	// 3. nothing stored: accept.
	if !st.Has {
		claimed := r.Old == 0 && len(r.Proof) == 0
		return Expect{Class: OK, Ret: "new", Claimed: claimed, Why: "first use", Next: nx}
	}
	// 4. old size larger than the checkpoint size.
	if r.Old > r.Meta.Size {
		return Expect{Class: OldInvalid, Ret: "stored", Claimed: true, Next: st}
	}
	// 5. old size differs from the witness's size.
	if r.Old != st.Size {
		return Expect{Class: Stale, Ret: "stored", Claimed: true, Next: st}
	}
	// 6. same size, different root.
	if r.Meta.Size == st.Size && !bytes.Equal(r.Meta.Root, st.Root) {
		return Expect{Class: RootMismatch, Ret: "stored", Claimed: true, Next: st}
	}
	// 7. proof.
	if r.Meta.Size == st.Size {
		if len(r.Proof) != 0 {
			return Expect{Class: BadProof, Ret: "stored", Claimed: true, Why: "non-empty proof at equal sizes", Next: st}
		}
		return Expect{Class: OK, Ret: "new", Claimed: true, Why: "refresh", Next: nx}
	}
	if st.Size == 0 {
		// stored 0 < submitted: outside C09 (claimed by C08 for the
		// empty proof).
		if len(r.Proof) == 0 {
			return Expect{Class: OK, Ret: "new", Claimed: false, Why: "growth from size 0", Next: nx}
		}
		return Expect{Class: BadProof, Ret: "stored", Claimed: false, Why: "non-empty proof from size 0", Next: st}
	}
	ok, _ := ref6962.Verify(st.Size, r.Meta.Size, r.Proof, st.Root, r.Meta.Root)
	if !ok {
		return Expect{Class: BadProof, Ret: "stored", Claimed: true, Next: st}
	}
	return Expect{Class: OK, Ret: "new", Claimed: true, Why: "growth", Next: nx}
}
