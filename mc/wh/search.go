package wh

import (
	"time"
	"fmt"
	"sort"
	"sync"
	"sync/atomic"

	"github.com/transparency-dev/witness/verifmc/ev"
	"github.com/transparency-dev/witness/verifmc/uni"
)

// Clock is the logical clock handed to the cosignature/v1 signer: every read
// returns a fresh, strictly larger second.
var clock atomic.Int64

func init() { clock.Store(1_700_000_000) }

// ClockNow returns the current value without advancing.
func ClockNow() int64 { return clock.Load() }

// InstallLogicalClock routes the cosignature/v1 signer to the logical clock.
func InstallLogicalClock() { uni.SetCosigClock(func() int64 { return clock.Add(1) }) }

// Step is one explored transition, handed to monitors.
type Step struct {
	Env      *Env
	Log      LogCfg
	Cfg      *LogCfg // nil when the request names an unknown log
	Path     []Req   // accepted requests that built the state
	Req      Req
	StBefore MState
	StAfter  MState // derived from the store after the call
	Foreign  bool   // the store holds bytes whose text the generator never produced
	Exp      Expect
	Out      Outcome
	Before   Snapshot
	After    Snapshot
	T0, T1   int64 // logical clock before / after the call
	Rep      int   // representative index of the state (0 or 1)
	Aux      any   // second result of SearchOpts.DoFn
}

// Replay renders the step for a replay file.
func (s *Step) Replay() map[string]any {
	var path []any
	for _, r := range s.Path {
		path = append(path, r.JSON())
	}
	var logs []any
	for _, l := range s.Env.Cfg.Logs {
		logs = append(logs, map[string]any{"origin": l.Origin, "key": l.Key.Name})
	}
	return map[string]any{
		"kind":     "witness-path",
		"store":    s.Env.Cfg.Store,
		"signers":  s.Env.Cfg.Signers,
		"logs":     logs,
		"universe": map[string]any{"n": s.Env.U.N},
		"path":     path,
		"request":  s.Req.JSON(),
		"observed": map[string]any{"class": s.Out.Class, "err": fmt.Sprint(s.Out.Err), "bytes": string(s.Out.Bytes)},
		"expected": map[string]any{"class": s.Exp.Class, "ret": s.Exp.Ret, "why": s.Exp.Why},
	}
}

// SearchOpts configures the explicit-state search over one log.
type SearchOpts struct {
	U       *uni.U
	Gen     *CPGen
	Store   string
	Signers []string
	Log     LogCfg
	Extra   []LogCfg // other configured logs (never addressed by the alphabet)
	Alpha   AlphaOpts
	// AlphaFn overrides Alphabet when non-nil.
	AlphaFn func(st MState) []Req
	Workers int
	OnStep  func(*Step)
	// DoFn replaces Env.Do (e.g. to go through an HTTP endpoint); the second
	// result is attached to the Step as Aux. SetupFn is called on each fresh Env.
	DoFn    func(e *Env, r Req) (Outcome, any)
	SetupFn func(e *Env)
	// CheckAliasing: verify that byte slices returned by earlier updates are
	// not modified by later requests.
	CheckAliasing bool
	// PreStep is called directly before each explored Update.
	PreStep func()
	// OnEnv is called for every fresh environment (e.g. to wrap / observe).
	Run *ev.Run
	// Representatives per canonical state that are expanded (1 or 2).
	Reps int
	// Cold adds, for every state, a representative that is explored on a
	// witness restarted (new Witness object over the same store) before every
	// request: its verdicts must equal those of the warm representative, i.e.
	// nothing the witness keeps in memory may influence an answer.
	Cold bool
	// Prelude requests are applied to every fresh environment before the
	// path (e.g. to give another log a stored checkpoint); all must be accepted.
	Prelude []Req
	// MaxStates caps the search (0 = none).
	MaxStates int
}

type stateRec struct {
	key   string
	paths [][]Req
	vecs  [][]string
}

// TextMeta resolves a note text to the generator's ground truth.
func (g *CPGen) TextMeta(text string) (Meta, bool) {
	g.mu.Lock()
	defer g.mu.Unlock()
	for _, e := range g.m {
		if e.m.Text == text {
			return e.m, true
		}
	}
	return Meta{}, false
}

// StateOf derives the model state of log l from the bytes in the store.
func StateOf(g *CPGen, stored []byte) (MState, bool) {
	if stored == nil {
		return MState{}, true
	}
	text, _, ok := uni.SplitNote(stored)
	if !ok {
		return MState{Has: true}, false
	}
	m, ok := g.textIndex(text)
	if !ok {
		return MState{Has: true}, false
	}
	return MState{Has: true, Size: m.Size, Root: m.Root, Branch: m.Branch}, true
}

var textIdx sync.Map // *CPGen -> *sync.Map(text -> Meta)

func (g *CPGen) textIndex(text string) (Meta, bool) {
	// Rebuilt lazily: small universes, so a linear scan on miss is fine.
	v, _ := textIdx.LoadOrStore(g, &sync.Map{})
	idx := v.(*sync.Map)
	if m, ok := idx.Load(text); ok {
		return m.(Meta), true
	}
	m, ok := g.TextMeta(text)
	if ok {
		idx.Store(text, m)
	}
	return m, ok
}

// Search runs the breadth-first explicit-state search to fixpoint and returns
// (states, transitions).
func Search(o SearchOpts) (int, int64) {
	if o.Workers <= 0 {
		o.Workers = 16
	}
	if o.Reps <= 0 {
		o.Reps = 1
	}
	cfg := Config{Store: o.Store, Signers: o.Signers, Logs: append([]LogCfg{o.Log}, o.Extra...)}
	// On the single-connection SQL store a leaked transaction blocks every
	// later call forever: calls run under a watchdog there (not when a custom
	// DoFn drives the request through other layers).
	cfg.Guard = o.Store == "sql"
	var storeBlocked atomic.Bool
	id := o.Log.ID()
	states := map[string]*stateRec{"⊥": {key: "⊥", paths: [][]Req{{}}}}
	order := []string{"⊥"}
	level := []string{"⊥"}
	var transitions atomic.Int64

	do := func(e *Env, r Req) Outcome {
		if o.DoFn != nil {
			out, _ := o.DoFn(e, r)
			return out
		}
		return e.Do(r)
	}
	build := func(path []Req, want string) *Env {
		e := NewEnv(o.U, cfg)
		if o.SetupFn != nil {
			o.SetupFn(e)
		}
		for i, r := range o.Prelude {
			if out := do(e, r); out.Class != OK {
				ev.Internal("prelude step %d (%s) was refused: %v", i, r.Label, out.Err)
			}
		}
		for i, r := range path {
			out := do(e, r)
			if e.Blocked {
				return e
			}
			if out.Class != OK {
				// The same requests were accepted when this state was found:
				// the harness is deterministic, so the code under test answers
				// one request sequence in two ways (state shared between witness
				// instances, e.g. a package-level buffer or cache).
				o.Run.Report("same-requests-answered-differently", fmt.Sprintf("the request sequence that reached state %s was replayed on a fresh witness and step %d (%s) was answered %s (%v) instead of accepted", want, i, r.Label, out.Class, out.Err), nil)
				e.Diverged = true
				return e
			}
		}
		stored := e.Stored(id)
		if e.Blocked {
			return e
		}
		st, ok := StateOf(o.Gen, stored)
		if !ok || st.Key() != want {
			o.Run.Report("same-requests-answered-differently", fmt.Sprintf("the request sequence that reached state %s was replayed on a fresh witness and reached %s", want, st.Key()), nil)
			e.Diverged = true
		}
		return e
	}

	for len(level) > 0 {
		type succ struct {
			key  string
			path []Req
		}
		var mu sync.Mutex
		var found []succ
		type job struct {
			rec *stateRec
			rep int
		}
		var jobs []job
		for _, k := range level {
			rec := states[k]
			for i := range rec.paths {
				jobs = append(jobs, job{rec, i})
			}
			rec.vecs = make([][]string, len(rec.paths))
			if o.Cold {
				jobs = append(jobs, job{rec, len(rec.paths)}) // rep index len(paths) = cold twin of representative 0
				rec.vecs = make([][]string, len(rec.paths)+1)
			}
		}
		ch := make(chan job)
		var wg sync.WaitGroup
		for w := 0; w < o.Workers; w++ {
			wg.Add(1)
			go func() {
				defer wg.Done()
				for j := range ch {
					if storeBlocked.Load() {
						continue
					}
					cold := j.rep == len(j.rec.paths)
					path := j.rec.paths[0]
					if !cold {
						path = j.rec.paths[j.rep]
					}
					e := build(path, j.rec.key)
					if e.Diverged {
						e.Close()
						continue
					}
					if e.Blocked {
						if !storeBlocked.Swap(true) {
							o.Run.Report("store-blocked after=replay", fmt.Sprintf("replaying the accepted path to state %s left the store blocked", j.rec.key), nil)
						}
						continue
					}
					st, _ := StateOf(o.Gen, e.Stored(id))
					var reqs []Req
					if o.AlphaFn != nil {
						reqs = o.AlphaFn(st)
					} else {
						reqs = Alphabet(o.Gen, o.Log, st, o.Alpha)
					}
					vec := make([]string, 0, len(reqs))
					before := e.Snap()
					// Bytes handed out earlier must not change later (a
					// returned slice aliasing an internal buffer).
					var handedOut, handedCopy [][]byte
					for _, r := range reqs {
						var lc *LogCfg
						if c, ok := e.LogByID[r.LogID]; ok {
							lc = &c
						}
						exp := Model(lc, st, r)
						if cold {
							e.Restart()
							if o.SetupFn != nil {
								o.SetupFn(e)
							}
						}
						if o.PreStep != nil {
							o.PreStep()
						}
						t0 := ClockNow()
						var out Outcome
						var aux any
						if o.DoFn != nil && cfg.Guard {
							// a request driven through other layers (HTTP handler): same watchdog
							done := make(chan struct{})
							go func() { defer close(done); out, aux = o.DoFn(e, r) }()
							select {
							case <-done:
							case <-time.After(60 * time.Second):
								e.Blocked = true
								out, aux = Outcome{Class: Blocked, Err: ErrBlocked}, nil
							}
						} else if o.DoFn != nil {
							out, aux = o.DoFn(e, r)
						} else {
							out = e.Do(r)
						}
						t1 := ClockNow()
						after := e.Snap()
						if e.Blocked {
							if !storeBlocked.Swap(true) {
								o.Run.Report("store-blocked after="+out.Class, fmt.Sprintf("in state %s, request %q (answered %s) - or the request before it - left the store blocked: the next call or read did not return within 60 s", st.Key(), r.Label, out.Class), nil)
							}
							vec = nil
							break
						}
						stAfter, known := StateOf(o.Gen, []byte(after.ByID[id]))
						if _, has := after.ByID[id]; !has {
							stAfter, known = MState{}, true
						}
						transitions.Add(1)
						if o.CheckAliasing {
							for i := range handedOut {
								if string(handedOut[i]) != string(handedCopy[i]) {
									o.Run.Report("returned-bytes-mutated-later", fmt.Sprintf("bytes returned by an earlier Update changed after request %q was processed (the returned slice aliases internal state)", r.Label), nil)
									handedOut, handedCopy = nil, nil
									break
								}
							}
							if out.Bytes != nil && len(handedOut) < 4 {
								handedOut = append(handedOut, out.Bytes)
								handedCopy = append(handedCopy, append([]byte(nil), out.Bytes...))
							}
						}
						if o.OnStep != nil {
							o.OnStep(&Step{Env: e, Log: o.Log, Cfg: lc, Path: path, Req: r, StBefore: st, StAfter: stAfter, Foreign: !known,
								Exp: exp, Out: out, Before: before, After: after, T0: t0, T1: t1, Rep: j.rep, Aux: aux})
						}
						ret := "nil"
						if out.Bytes != nil {
							if string(out.Bytes) == before.ByID[id] {
								ret = "stored"
							} else {
								ret = "other"
							}
						}
						vec = append(vec, out.Class+"/"+ret+"/"+stAfter.Key())
						if !after.Equal(before) {
							if known && stAfter.Has {
								np := append(append([]Req{}, path...), r)
								mu.Lock()
								found = append(found, succ{stAfter.Key(), np})
								mu.Unlock()
							}
							e.Close()
							e = build(path, j.rec.key)
							if e.Diverged || e.Blocked {
								vec = nil
								break
							}
							before = e.Snap()
						}
					}
					if !e.Blocked {
						e.Close()
					}
					j.rec.vecs[j.rep] = vec
				}
			}()
		}
		for _, j := range jobs {
			ch <- j
		}
		close(ch)
		wg.Wait()

		// Differential check of the canonical form: representatives of one
		// state must have identical verdict vectors.
		for _, k := range level {
			rec := states[k]
			for i := 1; i < len(rec.vecs); i++ {
				a, b := rec.vecs[0], rec.vecs[i]
				if a == nil || b == nil {
					continue // cut short by a blocked store (reported)
				}
				if len(a) != len(b) {
					ev.Internal("alphabet differs between representatives of state %s", k)
				}
				for x := range a {
					if a[x] != b[x] {
						if o.Cold && i == len(rec.vecs)-1 {
							o.Run.Report("answer-depends-on-witness-memory:"+k, fmt.Sprintf("in state %s request #%d is answered %s by a witness that has processed the earlier requests and %s by one restarted over the same store", k, x, a[x], b[x]), nil)
							break
						}
						o.Run.Report("canonical-form:"+k, fmt.Sprintf("two byte representatives of state %s answer request #%d differently: %s vs %s", k, x, a[x], b[x]), nil)
						break
					}
				}
				o.Run.Add("representative_pairs_compared", 1)
			}
			rec.vecs = nil
		}

		sort.SliceStable(found, func(i, j int) bool {
			if found[i].key != found[j].key {
				return found[i].key < found[j].key
			}
			if len(found[i].path) != len(found[j].path) {
				return len(found[i].path) < len(found[j].path)
			}
			return found[i].path[len(found[i].path)-1].Label < found[j].path[len(found[j].path)-1].Label
		})
		var next []string
		for _, s := range found {
			rec, ok := states[s.key]
			if !ok {
				if o.MaxStates > 0 && len(states) >= o.MaxStates {
					o.Run.Set("state_cap_hit", true)
					continue
				}
				rec = &stateRec{key: s.key, paths: [][]Req{s.path}}
				states[s.key] = rec
				order = append(order, s.key)
				next = append(next, s.key)
				continue
			}
			// A second representative: same canonical state, different
			// bytes (different shape of the last accepted checkpoint).
			if len(rec.paths) < o.Reps && contains(next, s.key) {
				last := s.path[len(s.path)-1]
				fresh := true
				for _, p := range rec.paths {
					if string(p[len(p)-1].CP) == string(last.CP) {
						fresh = false
					}
				}
				if fresh {
					rec.paths = append(rec.paths, s.path)
				}
			}
		}
		level = next
	}
	return len(states), transitions.Load()
}

func contains(l []string, s string) bool {
	for _, x := range l {
		if x == s {
			return true
		}
	}
	return false
}
