package wh

import (
	"encoding/binary"
	"crypto/sha256"
	"encoding/base64"
	"fmt"
	"strings"
	"sync"

	"github.com/transparency-dev/witness/verifmc/ref6962"
	"github.com/transparency-dev/witness/verifmc/uni"
)

// CPGen caches signed checkpoints with their ground truth.
type CPGen struct {
	U  *uni.U
	mu sync.Mutex
	m  map[string]cpEntry
	// odd: ground-truth branch of the "oddroot" shape (a tree no other
	// branch shares a non-empty prefix with).
	odd *uni.Branch
}

// OddRoot is the root hash the "oddroot" shape carries at size n: 32 bytes
// that are the root of no tree the harness knows (in particular NOT the
// empty-tree hash at size 0). A log can sign such a checkpoint; once the
// witness holds it, only that very checkpoint is consistent with it.
func OddRoot(n int) []byte {
	h := sha256.Sum256([]byte(fmt.Sprintf("verif: odd root at size %d", n)))
	return h[:]
}

// Odd returns the ground-truth branch of "oddroot" checkpoints.
func (g *CPGen) Odd() *uni.Branch {
	g.mu.Lock()
	defer g.mu.Unlock()
	if g.odd == nil {
		var data [][]byte
		for i := 0; i < g.U.N; i++ {
			data = append(data, []byte(fmt.Sprintf("verif: odd leaf %d", i)))
		}
		g.odd = &uni.Branch{Name: "odd", Div: 0, Data: data, Tree: ref6962.NewTree(data)}
	}
	return g.odd
}

type cpEntry struct {
	b []byte
	m Meta
}

// NewCPGen returns a generator over u.
func NewCPGen(u *uni.U) *CPGen { return &CPGen{U: u, m: map[string]cpEntry{}} }

// Shapes of honest checkpoints (all carry a valid log signature).
var Shapes = []string{"plain", "ext", "junk1", "otherlog", "stale-own-valid", "stale-own-invalid", "dup-logsig"}

// Get returns cp(b, n) for the log in the given shape.
//
//	plain             only the log's signature
//	ext               two extension lines
//	bigextK           K KiB (and a little more) of extension lines
//	padK              the submitted note is exactly K bytes long
//	sizepad[-ext]     size written with a leading zero (parses to the same size)
//	looseb64          root in base64 with non-zero padding bits (decodes to the same hash)
//	junkJ             J signature lines by unknown keys appended
//	otherlog          an additional valid signature by the other log key
//	stale-own-valid   carries an older valid cosignature/v1 + legacy signature of the witness
//	stale-own-invalid carries a corrupted signature line under the witness's name/key hash
//	dup-logsig        the log's signature line twice
//	blankext          extension lines with a blank line among them
//	oddroot           a root hash that is the root of no tree (see OddRoot)
//	namesake-future/-past/-legacy  an unverifiable line under the witness's key NAME (other key hash), cosignature-shaped with a far-future / ancient timestamp, or legacy-shaped
func (g *CPGen) Get(l LogCfg, b *uni.Branch, n int, shape string) ([]byte, Meta) {
	// The whole verifier key, not name+hash: two keys may share both (C02's colliding pair).
	key := fmt.Sprintf("%s|%s|%s|%d|%s", l.Origin, l.Key.VKey, b.Name, n, shape)
	g.mu.Lock()
	if e, ok := g.m[key]; ok {
		g.mu.Unlock()
		return e.b, e.m
	}
	g.mu.Unlock()
	u := g.U
	var ext []string
	if shape == "ext" {
		ext = []string{"extension line one 100%sure %d %25", "ext2 " + b.Name + " \u2014 caf\u00e9"}
	}
	if shape == "blankext" {
		// A blank line among the extension lines: the note format cuts text
		// from signatures at the LAST blank line, so this is a legitimate
		// checkpoint; code that cuts at the first one sees another text.
		ext = []string{"extension line before a blank line", "", "extension line after it"}
	}
	if strings.HasPrefix(shape, "bigext") {
		// K KiB of extension lines (legitimate: the checkpoint format allows
		// them and the note format admits up to ~1 MB).
		var k int
		fmt.Sscanf(shape[6:], "%d", &k)
		for i := 0; len(ext)*512 < k*1024+512; i++ {
			ext = append(ext, fmt.Sprintf("x%05d %s", i, strings.Repeat(string(rune('a'+i%26)), 504)))
		}
	}
	text := uni.Body(l.Origin, uint64(n), b.Root(n), ext...)
	switch shape {
	case "sizepad", "sizepad-ext":
		// The size written with a leading zero: not what the repository's
		// own writer produces, but what its parser (strconv.ParseUint) reads
		// as the same size - and what the log signed.
		if shape == "sizepad-ext" {
			ext = []string{"an extension line"}
		}
		text = fmt.Sprintf("%s\n0%d\n%s\n", l.Origin, n, base64.StdEncoding.EncodeToString(b.Root(n)))
		for _, e := range ext {
			text += e + "\n"
		}
	case "looseb64":
		// Non-zero padding bits in the root's base64: decodes (non-strict
		// StdEncoding) to the same 32 bytes.
		enc := []byte(base64.StdEncoding.EncodeToString(b.Root(n)))
		const alpha = "ABCDEFGHIJKLMNOPQRSTUVWXYZabcdefghijklmnopqrstuvwxyz0123456789+/"
		i := strings.IndexByte(alpha, enc[len(enc)-2])
		enc[len(enc)-2] = alpha[i|1]
		if alpha[i|1] == alpha[i] {
			enc[len(enc)-2] = alpha[i|2]
		}
		text = fmt.Sprintf("%s\n%d\n%s\n", l.Origin, n, enc)
	}
	if strings.HasPrefix(shape, "pad") {
		// The submitted note is EXACTLY K bytes long (one extension line of
		// filler): byte-length boundaries (buffer sizes, request caps) sit
		// between what is submitted and what is stored once cosigned.
		var k int
		fmt.Sscanf(shape[3:], "%d", &k)
		probe := u.Sign(uni.Body(l.Origin, uint64(n), b.Root(n), "pad "), l.Key.Signer)
		if k < len(probe) {
			panic("pad shape smaller than the minimal note")
		}
		text = uni.Body(l.Origin, uint64(n), b.Root(n), "pad "+strings.Repeat("p", k-len(probe)))
	}
	if shape == "oddroot" {
		text = uni.Body(l.Origin, uint64(n), OddRoot(n))
	}
	cp := u.Sign(text, l.Key.Signer)
	if strings.HasPrefix(shape, "pad") {
		var k int
		fmt.Sscanf(shape[3:], "%d", &k)
		if len(cp) != k {
			panic(fmt.Sprintf("pad shape: %d bytes, want %d", len(cp), k))
		}
	}
	switch {
	case shape == "plain" || shape == "ext" || shape == "blankext" || shape == "oddroot" || strings.HasPrefix(shape, "pad") || strings.HasPrefix(shape, "bigext") || strings.HasPrefix(shape, "sizepad") || shape == "looseb64":
	case len(shape) > 4 && shape[:4] == "junk":
		var j int
		fmt.Sscanf(shape[4:], "%d", &j)
		cp = uni.AppendSigLines(cp, uni.JunkSigLines(j))
	case shape == "otherlog":
		other := u.K2
		if l.Key.Name == u.K2.Name {
			other = u.K1
		}
		cp = u.Sign(text, l.Key.Signer, other.Signer)
	case shape == "stale-own-valid":
		// A previous cosigned copy (witness signatures made "earlier").
		cp = u.Sign(text, l.Key.Signer, u.W1.Signer, u.W1.CosigSigner)
	case shape == "stale-own-invalid":
		bad := sha256.Sum256([]byte("bad" + text))
		lines := uni.SigLine(u.W1.CosigVerif.Name(), u.W1.CosigVerif.KeyHash(), append(make([]byte, 8), append(bad[:], bad[:]...)...)) +
			uni.SigLine(u.W1.Verif.Name(), u.W1.Verif.KeyHash(), append(bad[:], bad[:]...))
		cp = uni.AppendSigLines(cp, lines)
	case strings.HasPrefix(shape, "namesake"):
		// Unverifiable lines under the WITNESS's key name but another key
		// hash: cosignature/v1-shaped (8-byte timestamp + 64 bytes) with a
		// timestamp far in the future or in the past, and legacy-shaped.
		junk := sha256.Sum256([]byte("namesake" + text))
		ts := make([]byte, 8)
		switch shape {
		case "namesake-future":
			binary.BigEndian.PutUint64(ts, 1<<40) // ~ year 36812
		case "namesake-past":
			binary.BigEndian.PutUint64(ts, 1)
		}
		line := uni.SigLine(u.W1.CosigVerif.Name(), 0x01020304, append(ts, append(junk[:], junk[:]...)...))
		if shape == "namesake-legacy" {
			line = uni.SigLine(u.W1.Verif.Name(), 0x01020304, append(junk[:], junk[:]...))
		}
		cp = uni.AppendSigLines(cp, line)
	case shape == "dup-logsig":
		_, sigs, _ := uni.SplitNote(cp)
		cp = uni.AppendSigLines(cp, sigs[0]+"\n")
	default:
		panic("unknown shape " + shape)
	}
	m := Meta{Origin: l.Origin, KeyName: KeyID(l.Key.Verif), Size: uint64(n), Root: b.Root(n), Text: text, Branch: b, Shape: shape}
	if shape == "oddroot" {
		m.Root, m.Branch = OddRoot(n), g.Odd()
	}
	g.mu.Lock()
	g.m[key] = cpEntry{cp, m}
	g.mu.Unlock()
	return cp, m
}

// Forged returns checkpoints that must never be accepted for log l: signed
// only by the other key, unsigned (garbage signature under the log's name),
// truncated, and empty.
func (g *CPGen) Forged(l LogCfg, b *uni.Branch, n int) []Req {
	u := g.U
	other := u.K2
	if l.Key.Name == u.K2.Name {
		other = u.K1
	}
	text := uni.Body(l.Origin, uint64(n), b.Root(n))
	var out []Req
	mk := func(label string, cp []byte) {
		out = append(out, Req{LogID: l.ID(), Old: 0, CP: cp, Meta: Meta{Broken: true, Origin: l.Origin, Text: text, Size: uint64(n), Root: b.Root(n), Branch: b}, Label: label})
	}
	mk("forged:other-key", u.Sign(text+"x\n", other.Signer)) // text never signed by l.Key
	bad := sha256.Sum256([]byte("forge" + text))
	mk("forged:garbage-sig", []byte(text+"\n"+uni.SigLine(l.Key.Verif.Name(), l.Key.Verif.KeyHash(), append(bad[:], bad[:]...))))
	good, _ := g.Get(l, b, n, "plain")
	mk("forged:truncated", good[:len(good)-7])
	mk("forged:empty", []byte{})
	// Valid signature of the right key over a text with another origin.
	mk("forged:wrong-origin", u.Sign(uni.Body(l.Origin+".other", uint64(n), b.Root(n)), l.Key.Signer))
	return out
}

// proofSet returns labelled proofs for a step from stored (sb, s) to
// submitted (b, n).
func proofSet(u *uni.U, sb *uni.Branch, s int, b *uni.Branch, n int, rich bool) []struct {
	L string
	P [][]byte
} {
	type lp = struct {
		L string
		P [][]byte
	}
	var out []lp
	seen := map[string]bool{}
	add := func(l string, p [][]byte) {
		k := fmt.Sprintf("%x", p)
		if seen[k] {
			return
		}
		seen[k] = true
		out = append(out, lp{l, p})
	}
	add("empty", [][]byte{})
	if s > 0 && s < n {
		add("submitted-branch", b.Proof(s, n))
		if sb != nil && sb != b {
			add("stored-branch", sb.Proof(s, n))
		}
	}
	if !rich {
		return out
	}
	if s > 0 && s < n {
		good := b.Proof(s, n)
		if s-1 > 0 {
			add("for-s-1", b.Proof(s-1, n))
		}
		if s+1 < n {
			add("for-s+1", b.Proof(s+1, n))
		}
		if n-1 > s {
			add("for-n-1", b.Proof(s, n-1))
		}
		if n+1 <= u.N {
			add("for-n+1", b.Proof(s, n+1))
		}
		if len(good) > 0 {
			add("drop-first", good[1:])
			add("drop-last", good[:len(good)-1])
			add("dup-first", append([][]byte{good[0]}, good...))
			add("append-zero", append(append([][]byte{}, good...), make([]byte, 32)))
			for i := range good {
				f := make([][]byte, len(good))
				copy(f, good)
				h := append([]byte{}, good[i]...)
				h[0] ^= 0x80
				f[i] = h
				add(fmt.Sprintf("flip-%d", i), f)
			}
			sh := append([][]byte{}, good...)
			sh[len(sh)-1] = sh[len(sh)-1][:31]
			add("short-hash", sh)
		}
	}
	if s > 1 {
		add("replay-earlier", u.Main.Proof(1, s))
	}
	h1 := sha256.Sum256([]byte("arb1"))
	h2 := sha256.Sum256([]byte("arb2"))
	add("arbitrary-1", [][]byte{h1[:]})
	add("arbitrary-2", [][]byte{h1[:], h2[:]})
	if n > 0 {
		add("root-as-proof", [][]byte{b.Root(n)})
	}
	return out
}

// AlphaOpts selects the request alphabet.
type AlphaOpts struct {
	MaxN      int      // sizes 0..MaxN
	Shapes    []string // shapes of honest checkpoints (default plain)
	Forged    bool
	HugeOlds  bool
	RichProof bool
	// AllOlds: every old size gets the full proof set (C09 table); otherwise
	// the full set is used only when old == stored size.
	AllOlds bool
}

// Alphabet enumerates the requests applicable in model state st for log l.
func Alphabet(g *CPGen, l LogCfg, st MState, o AlphaOpts) []Req {
	u := g.U
	shapes := o.Shapes
	if len(shapes) == 0 {
		shapes = []string{"plain"}
	}
	var olds []uint64
	for i := 0; i <= o.MaxN+1; i++ {
		olds = append(olds, uint64(i))
	}
	if o.HugeOlds {
		olds = append(olds, 1<<32, 1<<63, ^uint64(0))
		if st.Has {
			// the stored size plus 2^32 / 2^63: equal to it after a narrowing conversion
			olds = append(olds, 1<<32+st.Size, 1<<63+st.Size)
		}
	}
	var out []Req
	s := -1
	var sb *uni.Branch
	if st.Has {
		s = int(st.Size)
		sb = st.Branch
	}
	for _, b := range u.Branches() {
		for n := 0; n <= o.MaxN; n++ {
			// Forks that have not yet diverged at n have the same root as
			// main: skip duplicates.
			if b.Div >= 0 && n <= b.Div {
				continue
			}
			for _, shape := range shapes {
				if shape == "oddroot" && b != u.Main {
					continue // one odd checkpoint per size
				}
				cp, meta := g.Get(l, b, n, shape)
				for _, old := range olds {
					rich := o.RichProof && shape == shapes[0] && (o.AllOlds || (st.Has && old == st.Size) || (!st.Has && old == 0))
					// Proofs are derived from the stored size and, where it
					// differs, from the claimed old size.
					var froms []int
					if st.Has {
						froms = append(froms, s)
					}
					if old <= uint64(o.MaxN) && (!st.Has || (o.AllOlds && int(old) != s)) {
						froms = append(froms, int(old))
					}
					if len(froms) == 0 {
						froms = []int{0}
					}
					seen := map[string]bool{}
					for _, from := range froms {
						fb := sb
						if fb == nil {
							fb = b
						}
						for _, p := range proofSet(u, fb, from, b, n, rich) {
							k := fmt.Sprintf("%x", p.P)
							if seen[k] {
								continue
							}
							seen[k] = true
							out = append(out, Req{LogID: l.ID(), Old: old, CP: cp, Proof: p.P, Meta: meta,
								Label: fmt.Sprintf("%s@%d/%s old=%d proof=%s(from %d)", b.Name, n, shape, old, p.L, from)})
						}
					}
				}
			}
		}
	}
	if o.Forged && st.Has && sb != nil {
		// Log-signed checkpoints at the stored size whose root hash is a
		// prefix / an extension of the stored root, or empty: a different
		// root, so never a "same checkpoint".
		root := sb.Root(s)
		for name, r := range map[string][]byte{"root-prefix-16": root[:16], "root-prefix-31": root[:31], "root-empty": {}, "root-plus-zero-byte": append(append([]byte{}, root...), 0)} {
			text := uni.Body(l.Origin, uint64(s), r)
			cp := u.Sign(text, l.Key.Signer)
			out = append(out, Req{LogID: l.ID(), Old: uint64(s), CP: cp, Proof: [][]byte{},
				Meta:  Meta{Origin: l.Origin, KeyName: KeyID(l.Key.Verif), Size: uint64(s), Root: r, Text: text, Branch: u.Forks[len(u.Forks)-1], Shape: "hostile-root"},
				Label: fmt.Sprintf("log-signed @%d with %s old=%d", s, name, s)})
		}
	}
	if o.Forged {
		for _, n := range []int{0, 1, o.MaxN} {
			for _, b := range []*uni.Branch{u.Main} {
				fr := g.Forged(l, b, n)
				for _, r := range fr {
					for _, old := range []uint64{0, uint64(max(s, 0))} {
						r2 := r
						r2.Old = old
						r2.Label = fmt.Sprintf("%s n=%d old=%d", r.Label, n, old)
						out = append(out, r2)
						if s > 0 && s < n {
							r3 := r2
							r3.Proof = b.Proof(s, n)
							r3.Label += " +proof"
							out = append(out, r3)
						}
					}
				}
			}
		}
	}
	return out
}
