package wh

import (
	"bytes"
	"context"
	"runtime"
	"strconv"
	"sync"
	"time"

	"github.com/cenkalti/backoff/v4"
)

// goid returns the current goroutine's id (parsed from the stack header).
func goid() uint64 {
	var buf [64]byte
	n := runtime.Stack(buf[:], false)
	b := bytes.TrimPrefix(buf[:n], []byte("goroutine "))
	if i := bytes.IndexByte(b, ' '); i > 0 {
		id, _ := strconv.ParseUint(string(b[:i]), 10, 64)
		return id
	}
	return 0
}

var retryCancels sync.Map // goroutine id -> context.CancelFunc

// NoRetryContext returns a context that is cancelled as soon as the calling
// goroutine's back-off retry loop starts its first wait: a feed cycle then
// ends with the first failure instead of sleeping through exponential
// back-off. Must be released with the returned func. Safe for parallel use.
func NoRetryContext(parent context.Context) (context.Context, func()) {
	ctx, cancel := context.WithCancel(parent)
	id := goid()
	retryCancels.Store(id, cancel)
	backoffHookOnce.Do(func() {
		backoff.VerifTimerHook = func(time.Duration) bool {
			if c, ok := retryCancels.Load(goid()); ok {
				c.(context.CancelFunc)()
				return false
			}
			return true
		}
	})
	return ctx, func() { retryCancels.Delete(id); cancel() }
}

var backoffHookOnce sync.Once
