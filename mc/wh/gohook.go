package wh

import (
	"bytes"
	"context"
	"runtime"
	"strconv"
	"sync"
	"time"

	"github.com/cenkalti/backoff/v4"
)

// goid returns the current goroutine's id (parsed from the stack header).
func goid() uint64 {
	var buf [64]byte
	n := runtime.Stack(buf[:], false)
	b := bytes.TrimPrefix(buf[:n], []byte("goroutine "))
	if i := bytes.IndexByte(b, ' '); i > 0 {
		id, _ := strconv.ParseUint(string(b[:i]), 10, 64)
		return id
	}
	return 0
}

var retryCancels sync.Map // goroutine id -> context.CancelFunc
var timerHooks sync.Map   // goroutine id -> func(time.Duration) bool

func installBackoffHook() {
	backoffHookOnce.Do(func() {
		backoff.VerifTimerHook = func(d time.Duration) bool {
			id := goid()
			if h, ok := timerHooks.Load(id); ok {
				return h.(func(time.Duration) bool)(d)
			}
			if c, ok := retryCancels.Load(id); ok {
				c.(context.CancelFunc)()
				return false
			}
			return true
		}
	})
}

// GoroutineTimerHook installs f as the back-off timer decision for timers
// started by the calling goroutine only (true = fire at once, false = never);
// the returned func removes it. Safe for parallel use.
func GoroutineTimerHook(f func(time.Duration) bool) func() {
	id := goid()
	timerHooks.Store(id, f)
	installBackoffHook()
	return func() { timerHooks.Delete(id) }
}

// NoRetryContext returns a context that is cancelled as soon as the calling
// goroutine's back-off retry loop starts its first wait: a feed cycle then
// ends with the first failure instead of sleeping through exponential
// back-off. Must be released with the returned func. Safe for parallel use.
func NoRetryContext(parent context.Context) (context.Context, func()) {
	ctx, cancel := context.WithCancel(parent)
	id := goid()
	retryCancels.Store(id, cancel)
	installBackoffHook()
	return ctx, func() { retryCancels.Delete(id); cancel() }
}

var backoffHookOnce sync.Once
