// Package uni generates the log universe shared by all checks: deterministic
// keys, an honest main branch, forks diverging at chosen leaf indices, signed
// checkpoints of many shapes, and the ground truth (leaf lists, texts signed).
package uni

import (
	"crypto/sha256"
	"encoding/base64"
	"encoding/binary"
	"fmt"
	"io"
	"strings"
	"sync"

	f_log "github.com/transparency-dev/formats/log"
	f_note "github.com/transparency-dev/formats/note"
	"github.com/transparency-dev/witness/verifmc/ref6962"
	"golang.org/x/mod/sumdb/note"
)

// detRand is a deterministic byte stream (SHA-256 in counter mode).
type detRand struct {
	seed [32]byte
	ctr  uint64
	buf  []byte
}

func newDetRand(label string, seed int64) *detRand {
	return &detRand{seed: sha256.Sum256([]byte(fmt.Sprintf("verif|%s|%d", label, seed)))}
}

func (d *detRand) Read(p []byte) (int, error) {
	for i := range p {
		if len(d.buf) == 0 {
			var c [8]byte
			binary.BigEndian.PutUint64(c[:], d.ctr)
			d.ctr++
			h := sha256.Sum256(append(d.seed[:], c[:]...))
			d.buf = h[:]
		}
		p[i] = d.buf[0]
		d.buf = d.buf[1:]
	}
	return len(p), nil
}

var _ io.Reader = (*detRand)(nil)

// Key is a note key pair.
type Key struct {
	Name   string
	SKey   string
	VKey   string
	Signer note.Signer
	Verif  note.Verifier
}

// NewKey makes a deterministic Ed25519 note key.
func NewKey(name string, seed int64) Key {
	sk, vk, err := note.GenerateKey(newDetRand("key|"+name, seed), name)
	if err != nil {
		panic(err)
	}
	s, err := note.NewSigner(sk)
	if err != nil {
		panic(err)
	}
	v, err := note.NewVerifier(vk)
	if err != nil {
		panic(err)
	}
	return Key{Name: name, SKey: sk, VKey: vk, Signer: s, Verif: v}
}

// KeyFromStrings builds a Key from a note signer / verifier key pair.
func KeyFromStrings(sk, vk string) Key {
	s, err := note.NewSigner(sk)
	if err != nil {
		panic(err)
	}
	v, err := note.NewVerifier(vk)
	if err != nil {
		panic(err)
	}
	return Key{Name: v.Name(), SKey: sk, VKey: vk, Signer: s, Verif: v}
}

// WitKey is a witness key in both the legacy and cosignature/v1 flavours,
// derived from one secret as cmd/omniwitness does.
type WitKey struct {
	Key
	CosigSigner *f_note.Signer
	CosigVerif  note.Verifier
}

// NewWitKey makes a deterministic witness key.
func NewWitKey(name string, seed int64) WitKey {
	k := NewKey(name, seed)
	cs, err := f_note.NewSignerForCosignatureV1(k.SKey)
	if err != nil {
		panic(err)
	}
	return WitKey{Key: k, CosigSigner: cs, CosigVerif: cs.Verifier()}
}

// Branch is one history of a (possibly forking) log.
type Branch struct {
	Name string
	// Div is the first leaf index at which this branch differs from main
	// (-1 for main itself).
	Div  int
	Data [][]byte
	Tree *ref6962.Tree
}

// Root returns the root at size n.
func (b *Branch) Root(n int) []byte {
	h := b.Tree.Root(n)
	return h[:]
}

// Proof returns the RFC 6962 consistency proof m -> n on this branch.
func (b *Branch) Proof(m, n int) [][]byte {
	if m <= 0 || m >= n {
		return [][]byte{}
	}
	return ref6962.Bytes(b.Tree.Proof(m, n))
}

// IsPrefix reports whether (a, m) is a prefix of (b, n) according to the
// leaf lists (ground truth, never hashes).
func IsPrefix(a *Branch, m int, b *Branch, n int) bool {
	if m > n {
		return false
	}
	for i := 0; i < m; i++ {
		if string(a.Data[i]) != string(b.Data[i]) {
			return false
		}
	}
	return true
}

// U is the universe.
type U struct {
	Seed   int64
	N      int
	Main   *Branch
	Forks  []*Branch
	K1, K2 Key
	W1, W2 WitKey
	// W3 has the NAME of log key K1 (an operator running a log and a witness
	// under one name) but its own key material.
	W3 WitKey
	// W4: a witness key whose name contains a slash.
	W4 WitKey

	mu          sync.Mutex
	SignedTexts map[string]map[string]bool // key name -> set of note texts
}

// New builds a universe with main of n leaves and forks at the given
// divergence points.
func New(seed int64, n int, divs []int) *U {
	u := &U{Seed: seed, N: n, SignedTexts: map[string]map[string]bool{}}
	u.K1 = NewKey("verif-log-one", seed)
	u.K2 = NewKey("verif-log-two", seed)
	u.W1 = NewWitKey("verif-witness", seed)
	u.W2 = NewWitKey("verif-witness-b", seed)
	u.W3 = NewWitKey("verif-log-one", seed+31337)
	u.W4 = NewWitKey("witness.verif.example/w4", seed)
	mk := func(name string, div int) *Branch {
		b := &Branch{Name: name, Div: div}
		for i := 0; i < n; i++ {
			if div >= 0 && i >= div {
				b.Data = append(b.Data, []byte(fmt.Sprintf("leaf|%d|%s|%d", seed, name, i)))
			} else {
				b.Data = append(b.Data, []byte(fmt.Sprintf("leaf|%d|main|%d", seed, i)))
			}
		}
		b.Tree = ref6962.NewTree(b.Data)
		return b
	}
	u.Main = mk("main", -1)
	for _, d := range divs {
		if d < n {
			u.Forks = append(u.Forks, mk(fmt.Sprintf("F%d", d), d))
		}
	}
	return u
}

// Branches returns main followed by all forks.
func (u *U) Branches() []*Branch { return append([]*Branch{u.Main}, u.Forks...) }

// Body renders a checkpoint body.
func Body(origin string, size uint64, root []byte, ext ...string) string {
	s := fmt.Sprintf("%s\n%d\n%s\n", origin, size, base64.StdEncoding.EncodeToString(root))
	for _, e := range ext {
		s += e + "\n"
	}
	return s
}

// Sign signs text with the given signers and records the text as signed by
// each key.
func (u *U) Sign(text string, signers ...note.Signer) []byte {
	out, err := note.Sign(&note.Note{Text: text}, signers...)
	if err != nil {
		panic(fmt.Sprintf("sign %q: %v", text, err))
	}
	u.mu.Lock()
	for _, s := range signers {
		k := s.Name() + fmt.Sprintf("+%08x", s.KeyHash())
		if u.SignedTexts[k] == nil {
			u.SignedTexts[k] = map[string]bool{}
		}
		u.SignedTexts[k][text] = true
	}
	u.mu.Unlock()
	return out
}

// WasSigned reports whether text was ever signed by that signer in this
// universe.
func (u *U) WasSigned(v note.Verifier, text string) bool {
	u.mu.Lock()
	defer u.mu.Unlock()
	return u.SignedTexts[v.Name()+fmt.Sprintf("+%08x", v.KeyHash())][text]
}

// CP is the plain checkpoint of branch b at size n under origin, signed by k.
func (u *U) CP(origin string, k Key, b *Branch, n int, ext ...string) []byte {
	return u.Sign(Body(origin, uint64(n), b.Root(n), ext...), k.Signer)
}

// SigLine formats one signature line.
func SigLine(name string, keyHash uint32, sig []byte) string {
	var h [4]byte
	binary.BigEndian.PutUint32(h[:], keyHash)
	return "— " + name + " " + base64.StdEncoding.EncodeToString(append(h[:], sig...)) + "\n"
}

// JunkSigLines returns j well-formed signature lines by unknown keys.
func JunkSigLines(j int) string {
	var sb strings.Builder
	for i := 0; i < j; i++ {
		sig := sha256.Sum256([]byte(fmt.Sprintf("junk%d", i)))
		sb.WriteString(SigLine(fmt.Sprintf("junk-%d", i), uint32(0x1000+i), append(sig[:], sig[:]...)))
	}
	return sb.String()
}

// AppendSigLines appends raw signature lines to a signed note.
func AppendSigLines(cp []byte, lines string) []byte {
	return append(append([]byte{}, cp...), []byte(lines)...)
}

// SplitNote splits a note into text and signature block.
func SplitNote(msg []byte) (text string, sigs []string, ok bool) {
	s := string(msg)
	i := strings.LastIndex(s, "\n\n")
	if i < 0 {
		return "", nil, false
	}
	text = s[:i+1]
	rest := s[i+2:]
	if !strings.HasSuffix(rest, "\n") {
		return "", nil, false
	}
	for _, l := range strings.Split(strings.TrimSuffix(rest, "\n"), "\n") {
		sigs = append(sigs, l)
	}
	return text, sigs, true
}

// ID is the repository's origin→ID function.
func ID(origin string) string { return f_log.ID(origin) }

// SetCosigClock installs the logical clock (seconds) used by the
// cosignature/v1 signer through the overlay hook; nil restores time.Now.
func SetCosigClock(f func() int64) {
	setCosigClock(f)
}
