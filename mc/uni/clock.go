package uni

import (
	"time"

	f_note "github.com/transparency-dev/formats/note"
)

// setCosigClock relies on the CosigNow variable that scripts/mkoverlay.py adds
// to formats/note/note_cosigv1.go (the only change: time.Now() in the signer
// becomes CosigNow(), which defaults to time.Now).
func setCosigClock(f func() int64) {
	if f == nil {
		f_note.CosigNow = time.Now
		return
	}
	f_note.CosigNow = func() time.Time { return time.Unix(f(), 0) }
}
