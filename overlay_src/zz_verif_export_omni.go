package omniwitness

// Verification-only export (added at build time through go build -overlay).

import (
	"github.com/transparency-dev/witness/internal/feeder"
	"github.com/transparency-dev/witness/internal/witness"
)

// VerifWitnessAdapter exposes witnessAdapter.
func VerifWitnessAdapter(w *witness.Witness) feeder.Witness { return witnessAdapter{w: w} }
