package backoff

import "time"

// Verification overlay of timer.go: identical to the original unless
// VerifTimerHook is set, in which case Start asks the hook whether the timer
// fires (at once) or never; durations are reported to the hook.

type Timer interface {
	Start(duration time.Duration)
	Stop()
	C() <-chan time.Time
}

// VerifTimerHook, when non-nil, decides each timer start: true = fire
// immediately, false = never fire.
var VerifTimerHook func(d time.Duration) bool

// defaultTimer implements Timer interface using time.Timer
type defaultTimer struct {
	timer *time.Timer
	ch    chan time.Time
}

// C returns the timers channel which receives the current time when the timer fires.
func (t *defaultTimer) C() <-chan time.Time {
	if t.ch != nil {
		return t.ch
	}
	return t.timer.C
}

// Start starts the timer to fire after the given duration
func (t *defaultTimer) Start(duration time.Duration) {
	if h := VerifTimerHook; h != nil {
		t.ch = make(chan time.Time, 1)
		if h(duration) {
			t.ch <- time.Time{}
		}
		return
	}
	t.ch = nil
	if t.timer == nil {
		t.timer = time.NewTimer(duration)
	} else {
		t.timer.Reset(duration)
	}
}

// Stop is called when the timer is not used anymore and resources may be freed.
func (t *defaultTimer) Stop() {
	if t.timer != nil {
		t.timer.Stop()
	}
}
