package main

import (
	"os"

	"github.com/transparency-dev/witness/omniwitness"
)

// Verification overlay (never part of the repository): the binary under test
// reads its log list from the file named by VERIF_LOGS_YAML - the embedded
// list names production logs whose keys the harness does not hold. Everything
// else main() does is the repository's code.
func init() {
	if p := os.Getenv("VERIF_LOGS_YAML"); p != "" {
		b, err := os.ReadFile(p)
		if err != nil {
			panic(err)
		}
		omniwitness.ConfigLogs = b
	}
}
