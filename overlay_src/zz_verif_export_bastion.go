package bastion

// Verification-only exports (added to the package at build time through
// go build -overlay by /verif/scripts/mkoverlay.py; not part of the repository).
// Thin wrappers, no logic.

import (
	"io"
	"net/http"

	"github.com/transparency-dev/witness/internal/config"
	"github.com/transparency-dev/witness/internal/feeder"
	"golang.org/x/mod/sumdb/note"
	"golang.org/x/time/rate"
)

// VerifParseBody exposes parseBody.
func VerifParseBody(r io.Reader) (uint64, [][]byte, []byte, error) { return parseBody(r) }

// VerifNewHandler builds the add-checkpoint handler exactly as FeedBastion
// does, with a caller-chosen limiter, wrapped in the same 16 KiB body cap that
// connectAndServe installs.
func VerifNewHandler(w feeder.Witness, logs []config.Log, witV note.Verifier, limit rate.Limit, burst int, withCap bool) http.Handler {
	initMetrics()
	h := &addHandler{
		w:           w,
		logs:        make(map[string]config.Log),
		witVerifier: witV,
		limiter:     rate.NewLimiter(limit, burst),
	}
	for _, l := range logs {
		h.logs[l.ID] = l
	}
	if withCap {
		return http.MaxBytesHandler(h, 16*1024)
	}
	return h
}
