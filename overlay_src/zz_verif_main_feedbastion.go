package main

import (
	"bufio"
	"context"
	"encoding/base64"
	"encoding/json"
	"fmt"
	"io"
	"net/http"
	"os"
	"strings"
)

// Verification overlay (never part of the repository): when
// VERIF_FEEDBASTION_CASES names a file of JSON lines {"old":n,"cp":"<b64>",
// "proof":["<b64>",...]}, the binary does nothing but hand each case to the
// repository's own bastionClient.Update with a transport that captures the
// request body, prints the captured bodies (base64, one per line) and exits.
type verifCapture struct{ body []byte }

func (c *verifCapture) RoundTrip(r *http.Request) (*http.Response, error) {
	if r.Body != nil {
		c.body, _ = io.ReadAll(r.Body)
	}
	return &http.Response{StatusCode: 200, Status: "200 OK", Body: io.NopCloser(strings.NewReader("")), Header: http.Header{}, Request: r}, nil
}

func init() {
	p := os.Getenv("VERIF_FEEDBASTION_CASES")
	if p == "" {
		return
	}
	f, err := os.Open(p)
	if err != nil {
		panic(err)
	}
	sc := bufio.NewScanner(f)
	sc.Buffer(make([]byte, 1<<22), 1<<22)
	out := bufio.NewWriter(os.Stdout)
	for sc.Scan() {
		var c struct {
			Old   uint64   `json:"old"`
			CP    string   `json:"cp"`
			Proof []string `json:"proof"`
		}
		if err := json.Unmarshal(sc.Bytes(), &c); err != nil {
			panic(err)
		}
		cp, _ := base64.StdEncoding.DecodeString(c.CP)
		var proof [][]byte
		for _, h := range c.Proof {
			b, _ := base64.StdEncoding.DecodeString(h)
			proof = append(proof, b)
		}
		tr := &verifCapture{}
		bc := &bastionClient{httpClient: &http.Client{Transport: tr}, url: "http://bastion.verif.test/", originByLogID: map[string]string{}}
		_, _ = bc.Update(context.Background(), "verif-log-id", c.Old, cp, proof)
		fmt.Fprintln(out, base64.StdEncoding.EncodeToString(tr.body))
	}
	out.Flush()
	os.Exit(0)
}
